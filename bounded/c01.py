"""Bounded stand-in layer of C01 -- accepted values always satisfy the declared constraints.

Exhaustive product  {built-in Parameter types} x {constraint configurations} x {value lattice}
x {assignment routes}  driven through the REAL constructors / descriptors of /repo, judged by an
independent three-valued oracle ``valid(type, cfg, value, route)`` written from the property
statement:

    True   the statement demands acceptance (value satisfies every declared constraint)
    False  the statement demands rejection with ValueError/TypeError
    None   the statement does not decide (lenient reading, see DESIGN.md §7 C01 "Scope"):
           only the exception class of a rejection is checked.

Checked clauses
    C01/<T>/accept<=>valid        attempt succeeds iff oracle says valid
    C01/<T>/raises-only           a rejection raises ValueError or TypeError, nothing else
    C01/<T>/installed-is-assigned what is read back after a successful attempt is the object assigned
    C01/<T>.__init__/slot         every constraint argument of the constructor reaches its slot
"""
import datetime as dt
import functools
import logging
import math
import re
import warnings
from concurrent.futures import ProcessPoolExecutor
from decimal import Decimal
from fractions import Fraction

from bounded._api import Bounded, REPLAY_HEADER

ROUTES = ["instance", "default", "class", "update", "kwarg", "deserialize"]


# ---------------------------------------------------------------------------------------------
# value lattice: (name, class, python-source).  Values are rebuilt from source for every case
# (fresh mutable containers) and the same source is pasted into replay scripts.
# ---------------------------------------------------------------------------------------------
class CO:
    """A callable object (instances accept attribute assignment, like plain functions)."""

    def __call__(self, *a, **k):
        return 0

    def meth(self, *a, **k):
        return 0


def _ns():
    # every evaluation gets FRESH callables: Dynamic parameters write bookkeeping attributes on
    # the callables they are given, which must not leak from one case into the next
    def fn(*a, **k):
        return 0

    return dict(dt=dt, Fraction=Fraction, Decimal=Decimal, nan=float("nan"), inf=float("inf"),
                fn=fn, len=len, int=int, str=str, bool=bool, dict=dict, float=float,
                True_=True, functools=functools, CO=CO)


D = "dt.date(2020,%d,%d)"
T = "dt.datetime(2020,%d,%d,%d,0,0,%d)"

GLOBAL = [
    ("None", "none", "None"),
    ("True", "bool", "True"), ("False", "bool", "False"),
    ("0", "int", "0"), ("1", "int", "1"), ("-1", "int", "-1"), ("2", "int", "2"), ("5", "int", "5"),
    ("0.0", "float", "0.0"), ("0.5", "float", "0.5"), ("-0.5", "float", "-0.5"),
    ("5.0", "float", "5.0"),
    ("inf", "inf", "inf"), ("-inf", "inf", "-inf"), ("nan", "nan", "nan"),
    ("10**30", "bigint", "10**30"), ("-10**30", "bigint", "-10**30"),
    ("Fraction(1,2)", "fraction", "Fraction(1,2)"), ("Fraction(5)", "fraction", "Fraction(5)"),
    ("Decimal('0.5')", "decimal", "Decimal('0.5')"),
    ("''", "str", "''"), ("'a'", "str", "'a'"), ("'ab'", "str", "'ab'"), ("'b'", "str", "'b'"),
    ("'1'", "str", "'1'"),
    ("'#fff'", "str-hex", "'#fff'"), ("'#ffffff'", "str-hex", "'#ffffff'"),
    ("'A0b1C2'", "str-hex", "'A0b1C2'"), ("'#ffff'", "str-badhex", "'#ffff'"),
    ("'#ggg'", "str-badhex", "'#ggg'"), ("'red'", "str-named", "'red'"),
    ("'RED'", "str-named-upper", "'RED'"), ("'notacolor'", "str", "'notacolor'"),
    ("b''", "bytes", "b''"), ("b'a'", "bytes", "b'a'"), ("b'ab'", "bytes", "b'ab'"),
    ("b'b'", "bytes", "b'b'"),
    ("()", "tuple", "()"), ("(0,)", "tuple", "(0,)"), ("(0,1)", "tuple", "(0,1)"),
    ("(1,0)", "tuple", "(1,0)"), ("(0.5,0.5)", "tuple", "(0.5,0.5)"),
    ("(0,1,2)", "tuple", "(0,1,2)"), ("('a',1)", "tuple-nonnum", "('a',1)"),
    ("(1,'a')", "tuple-nonnum", "(1,'a')"),
    ("(None,1)", "tuple-none", "(None,1)"), ("(True,False)", "tuple-bool", "(True,False)"),
    ("(nan,0.5)", "tuple-nan", "(nan,0.5)"), ("(0.5,nan)", "tuple-nan", "(0.5,nan)"),
    ("(nan,nan)", "tuple-nan", "(nan,nan)"), ("(-inf,inf)", "tuple-inf", "(-inf,inf)"),
    ("(Fraction(1,2),Decimal('0.5'))", "tuple", "(Fraction(1,2),Decimal('0.5'))"),
    ("[]", "list", "[]"), ("[1]", "list", "[1]"), ("[1,2]", "list", "[1,2]"),
    ("[0,1]", "list", "[0,1]"), ("[0.5,0.5]", "list", "[0.5,0.5]"),
    ("[1,'a']", "list", "[1,'a']"), ("['a']", "list", "['a']"),
    ("[1,2,3]", "list", "[1,2,3]"), ("[3]", "list", "[3]"), ("[1,3]", "list", "[1,3]"),
    ("[nan]", "list", "[nan]"), ("[None]", "list", "[None]"),
    # lists whose first wrongly typed item is None (the other items may be fine or wrong too)
    ("[1,None]", "list-none-item", "[1,None]"), ("[None,1]", "list-none-item", "[None,1]"),
    ("[1,None,'a']", "list-none-item", "[1,None,'a']"), ("['a',None]", "list-none-item", "['a',None]"),
    ("[len,None]", "list-none-item", "[len,None]"), ("[int,None]", "list-none-item", "[int,None]"),
    ("[len]", "list-callable", "[len]"), ("[len,1]", "list", "[len,1]"),
    ("[int]", "list-class", "[int]"), ("[int,str]", "list-class", "[int,str]"),
    ("[bool,int]", "list-class", "[bool,int]"), ("[int,1]", "list", "[int,1]"),
    ("{}", "dict", "{}"), ("{'a':1}", "dict", "{'a':1}"),
    ("date(6,15)", "date", D % (6, 15)),
    ("datetime(6,15,12h,1us)", "datetime", T % (6, 15, 12, 1)),
    ("(date(3,1),date(9,1))", "tuple-date", "(%s,%s)" % (D % (3, 1), D % (9, 1))),
    ("(date(9,1),date(3,1))", "tuple-date-reversed", "(%s,%s)" % (D % (9, 1), D % (3, 1))),
    ("(date(3,1),date(3,1))", "tuple-date", "(%s,%s)" % (D % (3, 1), D % (3, 1))),
    ("(datetime(3,1),datetime(9,1,0h,1us))", "tuple-datetime",
     "(%s,%s)" % (T % (3, 1, 0, 0), T % (9, 1, 0, 1))),
    ("(date(3,1),datetime(9,1))", "tuple-date-mixed", "(%s,%s)" % (D % (3, 1), T % (9, 1, 0, 0))),
    ("[date(3,1),date(9,1)]", "list-date", "[%s,%s]" % (D % (3, 1), D % (9, 1))),
    ("(date(3,1),)", "tuple-date-len1", "(%s,)" % (D % (3, 1))),
    ("(date(3,1),1)", "tuple-nonnum", "(%s,1)" % (D % (3, 1))),
    # callables: "callable" = accepts attribute assignment (plain function, lambda, callable object,
    # functools.partial); "callable-noattr" = does not (builtin, bound method)
    ("fn", "callable", "fn"), ("lambda", "callable", "(lambda *a, **k: 0)"),
    ("CO()", "callable", "CO()"), ("partial(fn)", "callable", "functools.partial(fn)"),
    ("len", "callable-noattr", "len"), ("CO().meth", "callable-noattr", "CO().meth"),
    ("(fn,fn)", "tuple-callable", "(fn,fn)"), ("(fn,1)", "tuple-callable", "(fn,1)"),
    ("(1,lambda)", "tuple-callable", "(1,(lambda *a, **k: 0))"),
    ("int", "class", "int"), ("str", "class", "str"), ("bool", "class", "bool"),
    ("dict", "class", "dict"),
]

JSONABLE_CLS = {"none", "bool", "int", "float", "str", "str-hex", "str-badhex", "str-named",
                "str-named-upper", "list"}


# ---------------------------------------------------------------------------------------------
# configurations:  cfg = {"T": type name, "kw": {constructor keyword -> python source}}
# ---------------------------------------------------------------------------------------------
INCL = ["(True,True)", "(True,False)", "(False,True)", "(False,False)"]


def _bounded_cfgs(tname, bounds_list, allow_none=(False, True)):
    out = []
    for b in bounds_list:
        incls = [None] + INCL[1:] + [INCL[0]] if b is not None else [None]
        for inc in incls:
            for an in allow_none:
                kw = {}
                if b is not None:
                    kw["bounds"] = b
                if inc is not None:
                    kw["inclusive_bounds"] = inc
                kw["allow_None"] = repr(an)
                out.append({"T": tname, "kw": kw})
    return out


DLO, DHI = D % (1, 1), D % (12, 31)
TLO, THI = T % (1, 1, 0, 0), T % (12, 31, 0, 0)


def all_configs():
    cfgs = []
    an = [{"allow_None": "False"}, {"allow_None": "True"}]

    def add(tname, kws, with_an=True):
        for kw in kws:
            for a in (an if with_an else [{}]):
                d = dict(kw)
                d.update(a)
                cfgs.append({"T": tname, "kw": d})

    add("Parameter", [{}])
    add("String", [{}, {"regex": "'^a'"}, {"regex": "'a*$'"}, {"regex": "'^$'"}])
    add("Bytes", [{}, {"regex": "b'^a'"}, {"regex": "b'a*$'"}])
    add("Color", [{}, {"allow_named": "True"}, {"allow_named": "False"}])
    add("Boolean", [{}])
    add("Event", [{}], with_an=False)
    # "(None,0)" / "(-10,0)": a bound EQUAL TO 0 on the upper side (falsy bound that is still a bound)
    nb = [None, "(0,None)", "(None,10)", "(0,10)", "(-0.5,0.5)", "(None,0)", "(-10,0)"]
    cfgs += _bounded_cfgs("Number", nb)
    cfgs += _bounded_cfgs("Integer", [None, "(0,None)", "(None,10)", "(0,10)", "(None,0)", "(-10,0)"])
    cfgs += _bounded_cfgs("Magnitude", [None, "(0.0,1.0)"])     # None: the default bounds (0,1)
    db = [None, "(%s,None)" % DLO, "(None,%s)" % DHI, "(%s,%s)" % (DLO, DHI), "(%s,%s)" % (TLO, THI)]
    cfgs += _bounded_cfgs("Date", db)
    cfgs += _bounded_cfgs("CalendarDate", db[:4])
    add("Tuple", [{"length": "0"}, {"length": "1"}, {"length": "2"}, {"length": "3"}])
    add("NumericTuple", [{"length": "0"}, {"length": "1"}, {"length": "2"}, {"length": "3"}])
    add("XYCoordinates", [{}])
    cfgs += _bounded_cfgs("Range", nb)
    cfgs += _bounded_cfgs("DateRange", db)
    cfgs += _bounded_cfgs("CalendarDateRange", db[:4])
    add("Callable", [{}])
    add("Action", [{}])
    sel = [{}, {"objects": "[1,2,'a']"}, {"objects": "{'x':1,'y':'a'}"},
           {"objects": "[1,2,'a']", "check_on_set": "False"},
           {"objects": "[1,2,'a']", "check_on_set": "True"},
           {"objects": "[]", "check_on_set": "True"},
           {"objects": "[(0,1),[1,2],None]"}]
    for tn in ("Selector", "ObjectSelector", "ListSelector"):
        for kw in sel:
            for a in ({}, {"allow_None": "False"}, {"allow_None": "True"}):
                d = dict(kw)
                d.update(a)
                cfgs.append({"T": tn, "kw": d})
    add("ClassSelector", [{"class_": "int"}, {"class_": "(int,str)"}, {"class_": "dict"},
                          {"class_": "float"}, {"class_": "tuple"},
                          {"class_": "int", "is_instance": "False"},
                          {"class_": "(int,str)", "is_instance": "False"},
                          {"class_": "int", "is_instance": "True"}])
    add("Dict", [{}])
    # length bounds equal to 0 / admitting only the empty list: (0,0), (None,0), (0,1)
    lb = [None, "(0,None)", "(1,2)", "(None,1)", "(2,2)", "(1,None)", "(0,0)", "(None,0)", "(0,1)"]
    lk = []
    for b in lb:
        for it in (None, "int", "(int,str)"):
            kw = {}
            if b is not None:
                kw["bounds"] = b
            if it is not None:
                kw["item_type"] = it
            lk.append(kw)
    lk += [{"item_type": "int", "is_instance": "False"}, {"class_": "int"},
           {"item_type": "int", "is_instance": "True", "bounds": "None"}]
    add("List", lk)
    add("HookList", [{}, {"bounds": "(1,2)"}, {"bounds": "(None,1)"}, {"bounds": "(0,0)"},
                     {"bounds": "(None,0)"}, {"bounds": "(0,1)"}, {"bounds": "(0,None)"}])
    return cfgs


def cfg_str(cfg):
    kw = cfg["kw"]
    return ",".join("%s=%s" % (k, kw[k]) for k in sorted(kw)) or "-"


def cfg_weight(cfg):
    s = cfg_str(cfg)
    return (len(cfg["kw"]), 0 if ("bounds=(0,10)" in s or "bounds=" not in s) else 1, s)


# ---------------------------------------------------------------------------------------------
# helpers on evaluated configurations
# ---------------------------------------------------------------------------------------------
class Cfg:
    """Evaluated view of a configuration (the *declared* constraints, as the user wrote them)."""

    def __init__(self, cfg):
        ns = _ns()
        self.T = cfg["T"]
        self.src = cfg["kw"]
        self.kw = {k: eval(v, ns) for k, v in cfg["kw"].items()}
        self.allow_None = self.kw.get("allow_None", False)
        self.allow_None_declared = "allow_None" in self.kw
        b = self.kw.get("bounds")
        if self.T == "Magnitude" and "bounds" not in self.kw:
            b = (0.0, 1.0)
        self.bounds = b
        self.incl = self.kw.get("inclusive_bounds", (True, True))


def _mid_src(t, b):
    """Source of a number strictly inside the hard bounds ``b`` of a numeric type ``t``."""
    if t == "Magnitude" or b == (-0.5, 0.5):
        return "0" if t == "Integer" else "0.25"
    if b is not None and b[1] == 0:
        return "-5"
    return "5"


def _eps_values(cfgv):
    """Configuration dependent boundary values: (name, class, source)."""
    t = cfgv.T
    out = []
    b = cfgv.bounds
    if t in ("Number", "Integer", "Magnitude", "Range"):
        if b is None:
            return out
        lo, hi = b
        integer = t == "Integer"
        eps = "1" if integer else "1e-9"
        mid = _mid_src(t, b)
        pts = []
        if lo is not None:
            pts += [("at-lo", repr(lo)), ("below-lo", "%r-%s" % (lo, eps)), ("above-lo", "%r+%s" % (lo, eps))]
            if not integer:
                pts += [("at-lo", "float(%r)" % lo), ("at-lo", "Fraction(%r)" % lo),
                        ("below-lo", "Fraction(%r)-Fraction(1,10**12)" % lo)]
            pts += [("far-below-lo", "-10**30")] + ([("far-below-lo", "-inf")] if not integer else [])
        if hi is not None:
            pts += [("at-hi", repr(hi)), ("above-hi", "%r+%s" % (hi, eps)), ("below-hi", "%r-%s" % (hi, eps))]
            if not integer:
                pts += [("at-hi", "float(%r)" % hi), ("at-hi", "Fraction(%r)" % hi),
                        ("above-hi", "Fraction(%r)+Fraction(1,10**12)" % hi)]
            pts += [("far-above-hi", "10**30")] + ([("far-above-hi", "inf")] if not integer else [])
        pts.append(("inside", mid))
        if t == "Range":
            for role, s in pts:
                out.append(("(%s,%s)" % (s, mid), "tuple-first-" + role, "(%s,%s)" % (s, mid)))
                out.append(("(%s,%s)" % (mid, s), "tuple-second-" + role, "(%s,%s)" % (mid, s)))
                out.append(("(%s,%s)" % (s, s), "tuple-both-" + role, "(%s,%s)" % (s, s)))
            out.append(("(nan,%s)" % mid, "tuple-nan", "(nan,%s)" % mid))
            out.append(("(%s,nan)" % mid, "tuple-nan", "(%s,nan)" % mid))
            out.append(("[%s,%s]" % (mid, mid), "list", "[%s,%s]" % (mid, mid)))
        else:
            for role, s in pts:
                out.append((s, role, s))
    elif t in ("Date", "CalendarDate", "DateRange", "CalendarDateRange"):
        if b is None:
            return out
        lo, hi = b
        one_d, one_us = "dt.timedelta(days=1)", "dt.timedelta(microseconds=1)"

        def as_dt(s):
            return "dt.datetime.combine(%s, dt.time())" % s if "datetime" not in s else s

        def as_d(s):
            return s if "datetime" not in s else "%s.date()" % s

        pts = []
        mid_d, mid_t = D % (6, 15), T % (6, 15, 0, 0)
        if lo is not None:
            s = DLO if type(lo) is dt.date else TLO
            pts += [("at-lo-date", as_d(s)), ("at-lo-datetime", as_dt(s)),
                    ("below-lo-date", "%s-%s" % (as_d(s), one_d)),
                    ("below-lo-datetime", "%s-%s" % (as_dt(s), one_us)),
                    ("above-lo-date", "%s+%s" % (as_d(s), one_d)),
                    ("above-lo-datetime", "%s+%s" % (as_dt(s), one_us))]
        if hi is not None:
            s = DHI if type(hi) is dt.date else THI
            pts += [("at-hi-date", as_d(s)), ("at-hi-datetime", as_dt(s)),
                    ("above-hi-date", "%s+%s" % (as_d(s), one_d)),
                    ("above-hi-datetime", "%s+%s" % (as_dt(s), one_us)),
                    ("below-hi-date", "%s-%s" % (as_d(s), one_d)),
                    ("below-hi-datetime", "%s-%s" % (as_dt(s), one_us))]
        if t in ("Date", "CalendarDate"):
            for role, s in pts:
                out.append((s, role, s))
        else:
            for role, s in pts:
                m = mid_d if role.endswith("-date") else mid_t
                if "lo" in role:
                    out.append(("(%s,%s)" % (s, m), "tuple-first-" + role, "(%s,%s)" % (s, m)))
                    out.append(("(%s,%s)" % (s, s), "tuple-both-" + role, "(%s,%s)" % (s, s)))
                else:
                    out.append(("(%s,%s)" % (m, s), "tuple-second-" + role, "(%s,%s)" % (m, s)))
                    out.append(("(%s,%s)" % (s, s), "tuple-both-" + role, "(%s,%s)" % (s, s)))
    return out


def values_for(cfgv):
    return GLOBAL + _eps_values(cfgv)


def valid_default_src(cfgv):
    """Source of a value that satisfies the configuration (declared default for routes 2-5);
    None means 'do not pass a default'."""
    t = cfgv.T
    b = cfgv.bounds
    if t in ("Number", "Integer", "Magnitude"):
        return _mid_src(t, b)
    if t == "Range":
        return "(%s,%s)" % (_mid_src(t, b), _mid_src(t, b))
    if t == "Date":
        return T % (6, 15, 0, 0)
    if t == "CalendarDate":
        return D % (6, 15)
    if t == "DateRange":
        return "(%s,%s)" % (T % (6, 15, 0, 0), T % (6, 16, 0, 0))
    if t == "CalendarDateRange":
        return "(%s,%s)" % (D % (6, 15), D % (6, 16))
    if t in ("Tuple", "NumericTuple"):
        return "(" + "".join("0," for _ in range(cfgv.kw["length"])) + ")"
    if t == "XYCoordinates":
        return "(0.0,0.0)"
    if t == "String":
        return {"'^a'": "'a'", "'a*$'": "''", "'^$'": "''"}.get(cfgv.src.get("regex"), "''")
    if t == "Bytes":
        return {"b'^a'": "b'a'", "b'a*$'": "b''"}.get(cfgv.src.get("regex"), "b''")
    if t == "Color":
        return "'#000000'"
    if t in ("Boolean", "Event"):
        return "False"
    if t in ("Callable", "Action"):
        return "len"
    if t == "Parameter":
        return "0"
    if t in ("Selector", "ObjectSelector", "ListSelector"):
        return None
    if t == "ClassSelector":
        c = cfgv.kw["class_"]
        if cfgv.kw.get("is_instance", True):
            c0 = c[0] if isinstance(c, tuple) else c
            return {int: "0", dict: "{}", float: "0.0", tuple: "()"}[c0]
        return "int"
    if t == "Dict":
        return "{}"
    if t == "List":
        lo = (b or (0, None))[0] or 0
        if cfgv.kw.get("is_instance", True) is False:
            return "[" + ",".join(["int"] * lo) + "]"
        return "[" + ",".join(["1"] * lo) + "]"
    if t == "HookList":
        lo = (b or (0, None))[0] or 0
        return "[" + ",".join(["len"] * lo) + "]"
    raise KeyError(t)


# ---------------------------------------------------------------------------------------------
# THE ORACLE -- written from the statement of C01, not from the code
# ---------------------------------------------------------------------------------------------
def _is_num(v):
    return type(v) in (int, float, Fraction, Decimal)


def _in_bounds(v, bounds, incl):
    """Hard bounds with their inclusivity, exact Python comparisons (NaN is inside no bound)."""
    if bounds is None:
        return True
    lo, hi = bounds
    ilo, ihi = incl
    if lo is not None and not ((v >= lo) if ilo else (v > lo)):
        return False
    if hi is not None and not ((v <= hi) if ihi else (v < hi)):
        return False
    return True


def _dtm(x):
    return x if isinstance(x, dt.datetime) else dt.datetime.combine(x, dt.time())


def _date_in_bounds(v, bounds, incl):
    if bounds is None:
        return True
    b = tuple(None if x is None else _dtm(x) for x in bounds)
    return _in_bounds(_dtm(v), b, incl)


_HEX = re.compile(r"#?([0-9a-fA-F]{3}|[0-9a-fA-F]{6})\Z")
_SOME_CSS_NAMES = {"red", "black", "white", "blue"}


def valid(c, v, route):
    """True / False / None (undecided by the statement) -- see module docstring."""
    t = c.T
    if t in DYNAMIC_VALUE_TYPES and callable(v):
        return None          # these types take callables as value generators: not decided
    # (Date / CalendarDate derive from a Dynamic type but declare "only date types": a callable is
    #  not a date, so the statement demands its rejection like for every other non-date value)
    # ---- None ------------------------------------------------------------------------------
    if v is None:
        if t in ("Selector", "ObjectSelector"):
            objs = c.kw.get("objects", [])
            objs = list(objs.values()) if isinstance(objs, dict) else objs
            if c.kw.get("check_on_set", len(objs) != 0) is False:
                return True
            if c.allow_None or None in objs:
                return True
            if route == "default" or not c.allow_None_declared:
                return None  # "default must be among the objects (unless the default is None)"
            return False
        if c.allow_None:
            return True
        if route == "default":
            return None      # a None default switches allow_None on (documented rule)
        if t == "Parameter":
            return None      # base Parameter declares no value type
        if t in ("ListSelector",) and not c.allow_None_declared:
            return None
        return False
    # ---- per type --------------------------------------------------------------------------
    if t == "Parameter":
        return True
    if t == "String":
        if type(v) is not str:
            return False
        rx = c.kw.get("regex")
        return rx is None or re.match(rx, v) is not None
    if t == "Bytes":
        if type(v) is not bytes:
            return False
        rx = c.kw.get("regex")
        return rx is None or re.match(rx, v) is not None
    if t == "Color":
        if type(v) is not str:
            return False
        if _HEX.match(v):
            return True
        if c.kw.get("allow_named", True):
            if v in _SOME_CSS_NAMES:
                return True
            if v.lower() in _SOME_CSS_NAMES:
                return None  # case of colour names: not decided by the statement
        return False
    if t in ("Boolean", "Event"):
        return type(v) is bool
    if t in ("Number", "Magnitude", "Integer"):
        if type(v) is bool:
            return None      # bool is an int in Python; the statement does not decide
        if t == "Integer":
            if type(v) is not int:
                return False
        elif not _is_num(v):
            return False
        return _in_bounds(v, c.bounds, c.incl)
    if t == "Date":
        if not isinstance(v, dt.date):
            return False
        return _date_in_bounds(v, c.bounds, c.incl)
    if t == "CalendarDate":
        if type(v) is not dt.date:
            return False
        return _date_in_bounds(v, c.bounds, c.incl)
    if t in ("Tuple", "NumericTuple", "XYCoordinates"):
        if type(v) is not tuple:
            return False
        length = 2 if t == "XYCoordinates" else c.kw["length"]
        if route == "default" and len(v) > 0:
            length = len(v)          # documented: a non-empty default fixes the length
        if len(v) != length:
            return False
        if t == "Tuple":
            return True
        if any(type(x) is bool for x in v) and all(_is_num(x) or type(x) is bool for x in v):
            return None
        return all(_is_num(x) for x in v)
    if t == "Range":
        if type(v) is not tuple or len(v) != 2:
            return False
        if any(x is None for x in v):
            return None
        if any(type(x) is bool for x in v) and all(_is_num(x) or type(x) is bool for x in v):
            return None
        if not all(_is_num(x) for x in v):
            return False
        return all(_in_bounds(x, c.bounds, c.incl) for x in v)
    if t in ("DateRange", "CalendarDateRange"):
        if type(v) is not tuple or len(v) != 2:
            return False
        if any(x is None for x in v):
            return None
        if not all(isinstance(x, dt.date) for x in v):
            return False
        kinds = {isinstance(x, dt.datetime) for x in v}
        if len(kinds) == 2:
            return None      # mixed date / datetime pair: ordering undefined
        if t == "CalendarDateRange" and True in kinds:
            return None      # datetimes in a calendar-date range: not decided
        if not all(_date_in_bounds(x, c.bounds, c.incl) for x in v):
            return False
        if _dtm(v[1]) < _dtm(v[0]):
            return None      # reversed range: order is not among the statement's constraints
        return True
    if t in ("Callable", "Action"):
        return bool(callable(v))
    if t in ("Selector", "ObjectSelector", "ListSelector"):
        objs = c.kw.get("objects", [])
        objs = list(objs.values()) if isinstance(objs, dict) else list(objs)
        check = c.kw.get("check_on_set", len(objs) != 0)
        if t == "ListSelector":
            if type(v) is not list:
                return False
            if not check:
                return True
            if c.allow_None and any(x is None for x in v) and None not in objs:
                return None  # does allow_None extend to the *items*?  not decided by the statement
            return all(x in objs for x in v)
        if not check:
            return True
        return v in objs
    if t == "ClassSelector":
        cl = c.kw["class_"]
        if c.kw.get("is_instance", True):
            return isinstance(v, cl)
        return isinstance(v, type) and issubclass(v, cl)
    if t == "Dict":
        return isinstance(v, dict)
    if t in ("List", "HookList"):
        if type(v) is not list:
            return False
        b = c.kw.get("bounds", (0, None))
        if b is not None:
            lo, hi = b
            if lo is not None and len(v) < lo:
                return False
            if hi is not None and len(v) > hi:
                return False
        if t == "HookList":
            return all(callable(x) for x in v)
        it = c.kw.get("item_type", c.kw.get("class_"))
        if it is None:
            return True
        if c.kw.get("is_instance", True):
            return all(isinstance(x, it) for x in v)
        return all(isinstance(x, type) and issubclass(x, it) for x in v)
    raise KeyError(t)


# ---------------------------------------------------------------------------------------------
# driving the real code
# ---------------------------------------------------------------------------------------------
def _same(a, b):
    return a is b


def attempt(param, c, v, route, default_src):
    """Perform one assignment of ``v`` through ``route``.  Returns (outcome, installed_ok) where
    outcome is 'accept' or the exception class name."""
    ns = _ns()
    ctor = getattr(param, c.T)
    kw = dict(c.kw)

    def decl():
        k = dict(kw)
        if default_src is not None:
            k["default"] = eval(default_src, ns)
        return ctor(**k)

    try:
        if route == "default":
            p = ctor(default=v, **kw)
            return "accept", _same(p.default, v)
        if route == "deserialize":
            import json
            P = type("P", (param.Parameterized,), {"x": decl()})
            d = P.param.deserialize_parameters(json.dumps({"x": v}))
            o = P()
            o.param.update(**d)
            got = o.x
            return "accept", (got == v and type(got) is type(v)) or (got != got and v != v)
        P = type("P", (param.Parameterized,), {"x": decl()})
        if route == "class":
            P.x = v
            got = P.__dict__["x"].default if c.T != "Event" else v
        elif route == "kwarg":
            o = P(x=v)
            got = o._param__private.values.get("x", P.__dict__["x"].default)
        else:
            o = P()
            if route == "instance":
                o.x = v
            else:
                o.param.update(x=v)
            got = o._param__private.values.get("x", P.__dict__["x"].default)
        if c.T == "Event":
            return "accept", True
        return "accept", _same(got, v)
    except BaseException as e:  # noqa: BLE001 - the class of *any* escaping exception is the datum
        if isinstance(e, (KeyboardInterrupt, SystemExit, MemoryError)):
            raise
        return type(e).__name__, None


def slot_checks(param, c, default_src):
    """Constructor arguments reach the slot in force.  Yields (slot, expected, observed, ok)."""
    ns = _ns()
    ctor = getattr(param, c.T)
    k = dict(c.kw)
    if default_src is not None:
        k["default"] = eval(default_src, ns)
    p = ctor(**k)
    for name, given in c.kw.items():
        slot = name
        exp = given
        if c.T == "List" and name == "class_":
            slot = "item_type"
        if name == "objects":
            exp = list(given.values()) if isinstance(given, dict) else list(given)
            obs = list(p.objects)
        else:
            obs = getattr(p, slot)
        if c.T in ("Tuple", "NumericTuple") and name == "length":
            exp = len(k["default"]) if k.get("default") else given
        yield slot, exp, obs, (obs == exp and type(obs) is type(exp))


def _attr_settable(v):
    try:
        v._c01_probe = 1
        del v._c01_probe
        return True
    except (AttributeError, TypeError):
        return False


def _jsonable(v, vcls):
    if vcls not in JSONABLE_CLS:
        return False
    if isinstance(v, list):
        return all(type(x) in (int, str) for x in v)
    return True


DYNAMIC_TYPES = {"Number", "Integer", "Magnitude", "Date", "CalendarDate"}      # subclasses of param.Dynamic
DYNAMIC_VALUE_TYPES = {"Number", "Integer", "Magnitude"}         # ... that document callable values
DESER_TYPES = {"String", "Number", "Integer", "Magnitude", "Boolean", "List", "Color", "Parameter"}


def run_chunk(args):
    """Worker: all cases of a slice of configurations.  Returns counters and raw failures."""
    idxs, tier, seed = args
    import param
    warnings.simplefilter("ignore")
    logging.getLogger("param").setLevel(logging.CRITICAL + 1)
    cfgs = all_configs()
    keys, fails, evals = [], [], {}
    samples = []

    def ev(cl):
        evals[cl] = evals.get(cl, 0) + 1

    for ci in idxs:
        cfg = cfgs[ci]
        c = Cfg(cfg)
        dsrc = valid_default_src(c)
        cs = cfg_str(cfg)
        # the declaration used by routes 2-6 must itself be accepted (its default is valid)
        routes = ROUTES
        try:
            list(slot_checks(param, c, dsrc))
        except Exception as e:  # noqa: BLE001
            keys.append("%s|%s|declared-default" % (c.T, cs))
            ev("C01/%s/accept<=>valid" % c.T)
            fails.append(dict(kind="rejected-valid", T=c.T, cfg=cfg, vname=str(dsrc), vcls="declared-default",
                              vsrc=str(dsrc), route="default", dsrc=dsrc, exp=True,
                              outcome=type(e).__name__))
            routes = ["default"]
        # constructor arguments reach the slots
        for slot, exp, obs, ok in (slot_checks(param, c, dsrc) if routes is ROUTES else ()):
            keys.append("%s|%s|slot=%s" % (c.T, cs, slot))
            ev("C01/%s.__init__/slot" % c.T)
            if not ok:
                fails.append(dict(kind="slot", T=c.T, cfg=cfg, slot=slot, exp=repr(exp),
                                  obs=repr(obs), dsrc=dsrc))
        for vi, (vname, vcls, vsrc) in enumerate(values_for(c)):
            for ri, route in enumerate(ROUTES):
                if route not in routes:
                    continue
                if tier == "quick" and route not in ("instance", "default") and \
                        (ci * 7919 + vi * 104729 + ri * 31 + seed) % 8 != 0 and \
                        not (vcls == "callable" and c.T in DYNAMIC_TYPES and len(c.kw) <= 1):
                    continue     # (callables on Dynamic-derived types: every route also in quick)
                v = eval(vsrc, _ns())
                if route == "deserialize":
                    if c.T not in DESER_TYPES or not _jsonable(v, vcls):
                        continue
                    if v != v or v in (float("inf"), float("-inf")):
                        continue
                if c.T in DYNAMIC_TYPES and callable(v) and not _attr_settable(v):
                    # scope: Dynamic documents that a callable "must allow attributes to be set on
                    # itself"; builtins / bound methods / builtin classes fail that precondition with
                    # AttributeError/TypeError before any constraint is looked at.  Types that merely
                    # inherit from Dynamic still get them on the routes where no generator set-up runs.
                    if c.T in DYNAMIC_VALUE_TYPES or route == "default":
                        continue
                exp = valid(c, v, route)
                outcome, inst_ok = attempt(param, c, v, route, dsrc)
                keys.append("%s|%s|%s|%s" % (c.T, cs, vname, route))
                ev("C01/%s/raises-only" % c.T)
                base = dict(T=c.T, cfg=cfg, vname=vname, vcls=vcls, vsrc=vsrc, route=route,
                            dsrc=dsrc, exp=exp, outcome=outcome)
                if outcome != "accept" and outcome not in ("ValueError", "TypeError"):
                    fails.append(dict(base, kind="exc-class"))
                if exp is not None:
                    ev("C01/%s/accept<=>valid" % c.T)
                    if exp and outcome != "accept":
                        fails.append(dict(base, kind="rejected-valid"))
                    elif not exp and outcome == "accept":
                        fails.append(dict(base, kind="accepted-invalid"))
                if outcome == "accept":
                    ev("C01/%s/installed-is-assigned" % c.T)
                    if not inst_ok:
                        fails.append(dict(base, kind="installed"))
                if len(samples) < 1 and vcls.startswith(("at-", "tuple-first-at", "none")) and route == "instance" \
                        and ci % 5 == 3:
                    samples.append({"type": c.T, "cfg": cs, "value": vname, "route": route,
                                    "oracle": exp, "observed": outcome})
    return keys, fails, evals, samples


# ---------------------------------------------------------------------------------------------
# replay scripts
# ---------------------------------------------------------------------------------------------
_REPLAY_BODY = r'''import warnings, logging, json
warnings.simplefilter('ignore'); logging.getLogger('param').setLevel(100)
import datetime as dt
from fractions import Fraction
from decimal import Decimal
import functools
import param
nan = float('nan'); inf = float('inf')
def fn(*a, **k): return 0
class CO:
    def __call__(self, *a, **k): return 0
    def meth(self, *a, **k): return 0

T = param.{T}
def cfg(): return dict({kwsrc})
def value(): return {vsrc}
def default(): return {dsrc}
NO_DEFAULT = {nodef}
route = {route!r}
expected = {expected!r}      # what the statement of C01 demands: 'accept' / 'reject' / None (only the exception class is constrained)

def declare():
    k = cfg()
    if not NO_DEFAULT: k['default'] = default()
    return T(**k)

v = value()
try:
    if route == 'default':
        got = T(default=v, **cfg()).default
    elif route == 'class':
        P = type('P', (param.Parameterized,), {{'x': declare()}}); P.x = v; got = P.__dict__['x'].default
    elif route == 'kwarg':
        P = type('P', (param.Parameterized,), {{'x': declare()}}); got = P(x=v)._param__private.values.get('x')
    elif route == 'deserialize':
        P = type('P', (param.Parameterized,), {{'x': declare()}}); o = P()
        o.param.update(**P.param.deserialize_parameters(json.dumps({{'x': v}}))); got = o.x
        if got == v and type(got) is type(v): got = v
    else:
        P = type('P', (param.Parameterized,), {{'x': declare()}}); o = P()
        if route == 'instance': o.x = v
        else: o.param.update(x=v)
        got = o._param__private.values.get('x')
    outcome = 'accept'
except Exception as e:
    outcome = type(e).__name__; got = None; print('raised', type(e).__name__ + ':', e)

print({desc!r} + route, '-> observed', outcome, '; statement demands', expected)
bad = None
if outcome == 'accept' and expected == 'reject': bad = 'value violating the declared constraints was accepted'
elif outcome != 'accept' and expected == 'accept': bad = 'value satisfying every declared constraint was rejected (' + outcome + ')'
elif outcome not in ('accept', 'ValueError', 'TypeError'): bad = 'rejection raised ' + outcome + ', neither ValueError nor TypeError'
elif outcome == 'accept' and got is not v and T is not param.Event: bad = 'installed value %r is not the assigned object %r' % (got, v)
if bad:
    print('REPRODUCED:', bad); sys.exit(1)
print('NOT-REPRODUCED'); sys.exit(0)
'''

_REPLAY_SLOT = r'''import warnings, logging
warnings.simplefilter('ignore'); logging.getLogger('param').setLevel(100)
import datetime as dt
import param
T = param.{T}
k = dict({kwsrc})
if not {nodef}: k['default'] = {dsrc}
p = T(**k)
obs = list(p.objects) if {slot!r} == 'objects' else getattr(p, {slot!r})
print('{T}({kwsrc}).{slot} ->', repr(obs), '; constructor was given', {exp!r})
if repr(obs) != {exp!r}:
    print('REPRODUCED: constructor argument {slot} did not reach the slot'); sys.exit(1)
print('NOT-REPRODUCED'); sys.exit(0)
'''


def _kwsrc(cfg):
    return ", ".join("%s=%s" % (k, cfg["kw"][k]) for k in sorted(cfg["kw"]))


def make_replay(f, clause, witness):
    head = REPLAY_HEADER.format(prop="C01", name="replay_c01.py", clause=clause, witness=witness).replace("sys.path.insert(0, '/repo')", "import os\nsys.path.insert(0, os.environ.get('PYVC_REPO', '/repo'))      # (PYVC_REPO: a scratch copy of the library under test)")
    if f["kind"] == "slot":
        return head + _REPLAY_SLOT.format(T=f["T"], kwsrc=_kwsrc(f["cfg"]), dsrc=f["dsrc"],
                                          nodef=f["dsrc"] is None, slot=f["slot"], exp=f["exp"])
    expected = {True: "accept", False: "reject", None: None}[f["exp"]]
    return head + _REPLAY_BODY.format(T=f["T"], kwsrc=_kwsrc(f["cfg"]), vsrc=f["vsrc"],
                                      dsrc=f["dsrc"], nodef=f["dsrc"] is None, route=f["route"],
                                      expected=expected,
                                      desc="type=%s cfg=(%s) value=%s route=" % (f["T"], _kwsrc(f["cfg"]), f["vsrc"]))


MAX_CLASSES_PER_CLAUSE = 6      # value classes reported per (type, kind); the rest is summarised in a note


def _pmap(fn, jobs):
    """Parallel map over the 16 cores; serial fallback when worker processes cannot be started."""
    try:
        ex = ProcessPoolExecutor(max_workers=16)
    except (OSError, AssertionError, ValueError):
        ex = None
    if ex is not None:
        try:
            with ex:
                return list(ex.map(fn, jobs))
        except (OSError, AssertionError) as e:      # e.g. daemonic parent process
            if "daemonic" not in str(e) and not isinstance(e, OSError):
                raise
    return [fn(j) for j in jobs]


CLAUSE = {"rejected-valid": "accept<=>valid", "accepted-invalid": "accept<=>valid",
          "exc-class": "raises-only", "installed": "installed-is-assigned"}


def _hier_bound(tier):
    from bounded import c01_hier
    return c01_hier.bound_text(tier)


def run(tier, seed):
    B = Bounded(
        "C01",
        rule="one case = (Parameter type, constraint configuration, lattice value, assignment route); "
             "distinct when the tuple differs; the real constructor/descriptor is driven and the "
             "outcome compared with a three-valued oracle valid_T(cfg,value) written from the statement; "
             "plus one case per (type, configuration, constructor argument) checking that the argument "
             "reaches its slot",
        bound="26 types x %d configurations (bounds None/one-sided/two-sided incl. a bound equal to 0 on either side x 4 inclusivity x allow_None, "
              "length bounds incl. (0,0)/(None,0)/(0,1), "
              "lengths 0-3, 3 regexes, item types, object lists/dicts, class_/is_instance, allow_named) x "
              "%d global lattice values + up to 60 configuration-relative boundary values "
              "(at/below/above each bound, as int/float/Fraction, date and datetime at 1 day / 1 us) x "
              "6 routes (instance, constructor default, class, update, constructor kwarg, JSON deserialize "
              "for JSON-native values); callables (plain function, lambda, callable object, functools.partial, "
              "builtin, bound method, tuples of them) are offered to every type; "
              "quick: instance and constructor-default routes complete, other routes 1-in-8 slice by seed "
              "(callables on Dynamic-derived types: every route); "
              "FAMILY MX (bounded/c18_mixed.py): Selector/ListSelector x {dict,list}-declared objects x {class,instance}-level "
              "Parameter, histories of list-style in-place edits of `objects` ([i]=, [a:b]=, append, insert, extend, pop, "
              "remove, clear; quick 2 / thorough 3 edits on the core configurations), after every edit one assignment per "
              "route (instance, constructor keyword, class, update, deserialize-then-update, untouched older instance) of every "
              "object seen so far + a never-member: accepted iff among the CURRENT objects; %s"
              % (len(all_configs()), len(GLOBAL), _hier_bound(tier)))
    cfgs = all_configs()
    n = len(cfgs)
    B.exhaustive = tier != "quick"
    nchunks = 64
    chunks = [(list(range(i, n, nchunks)), tier, seed) for i in range(nchunks)]
    chunks = [c for c in chunks if c[0]]
    all_fails = []
    for keys, fails, evals, samples in _pmap(run_chunk, chunks):
        for k in keys:
            B.case(key=k)
        for cl, m in evals.items():
            B.checked(cl, m)
        all_fails.extend(fails)
        for s in samples[:1]:
            if len(B.samples) < 6 and all(x["type"] != s["type"] for x in B.samples):
                B.sample(s)
    # ---- normalise: one witness per (type, kind, value class); smallest configuration, first route
    groups = {}
    for f in all_fails:
        if f["kind"] == "slot":
            g = ("slot", f["T"], f["slot"])
        else:
            if f["T"] != "Color" and f["vcls"].startswith("str-"):
                f["vcls"] = "str"
            g = (f["kind"], f["T"], f["vcls"], f["outcome"] if f["kind"] == "exc-class" else "")
        groups.setdefault(g, []).append(f)
    per_clause = {}
    suppressed = {}
    for g in sorted(groups, key=lambda g: (g[0], g[1], -len(groups[g]), repr(g))):
        fs = groups[g]
        ck = (g[0], g[1])
        per_clause[ck] = per_clause.get(ck, 0) + 1
        if per_clause[ck] > MAX_CLASSES_PER_CLAUSE:
            suppressed[ck] = suppressed.get(ck, 0) + 1
            continue
        if g[0] == "slot":
            f = min(fs, key=lambda f: cfg_weight(f["cfg"]))
            clause = "C01/%s.__init__/slot" % f["T"]
            witness = "type=%s slot=%s cfg=%s given=%s observed=%s" % (
                f["T"], f["slot"], cfg_str(f["cfg"]), f["exp"], f["obs"])
            detail = "%d configurations affected" % len(fs)
        else:
            f = min(fs, key=lambda f: (cfg_weight(f["cfg"]), ROUTES.index(f["route"]), f["vname"]))
            clause = "C01/%s/%s" % (f["T"], CLAUSE[f["kind"]])
            exp = {True: "accept", False: "reject", None: "undecided"}[f["exp"]]
            witness = "type=%s kind=%s valueclass=%s value=%s cfg=%s route=%s expected=%s observed=%s" % (
                f["T"], f["kind"], f["vcls"], f["vname"].replace(" ", ""), cfg_str(f["cfg"]),
                f["route"], exp, f["outcome"])
            routes = sorted({x["route"] for x in fs}, key=ROUTES.index)
            detail = "%d failing cases in this class; routes=%s; %d configurations; values=%s" % (
                len(fs), routes, len({cfg_str(x["cfg"]) for x in fs}),
                sorted({x["vname"] for x in fs})[:12])
        B.violation(clause=clause, witness=witness, detail=detail,
                    replay=make_replay(f, clause, witness))
        B._seen[(clause, witness)]["count"] = len(fs)
    for ck in sorted(suppressed):
        B.note("%d further value classes failing for type=%s kind=%s not listed (cap %d per type and kind)"
               % (suppressed[ck], ck[1], ck[0], MAX_CLASSES_PER_CLAUSE))
    ce = B.contract_evals
    decided = sum(v for k, v in ce.items() if k.endswith("accept<=>valid"))
    attempts = sum(v for k, v in ce.items() if k.endswith("raises-only"))
    B.note("oracle verdicts: %d attempts, %d decided by the statement (accept or reject demanded), %d undecided "
           "(exception class only); %d successful attempts had their installed object compared by identity"
           % (attempts, decided, attempts - decided,
              sum(v for k, v in ce.items() if k.endswith("installed-is-assigned"))))
    # ---- family MX: Selector / ListSelector membership against the CURRENT objects after list-style in-place
    #      edits of `objects` (dict- and list-declared), every route  (bounded/c18_mixed.py, shared with C18)
    from bounded import c18_mixed
    c18_mixed.run_family(B, "C01", tier, seed)
    # ---- family HI: class hierarchies (chain, fan, diamonds, two roots) with x re-declared on some classes: the
    #      constraints in force for K.x are those of the Parameter Python's MRO resolves for K  (bounded/c01_hier.py)
    from bounded import c01_hier
    c01_hier.run_family(B, tier, seed)
    B.note("out of scope (DESIGN 7/C01): verdict on callables given to Number/Integer/Magnitude (value "
           "generators: only the exception class is checked; Date/CalendarDate must reject them), callables "
           "that do not accept attribute assignment on Number/Integer/Magnitude and as constructor default "
           "of Date/CalendarDate (documented precondition of Dynamic), Decimal NaN, "
           "file-system/array types; undecided by the statement (only exception class checked): bool "
           "for Number/Integer, None on the constructor-default route, reversed or mixed date ranges, "
           "datetimes in CalendarDateRange, case of colour names")
    return B.result()
