"""Helper of the bounded stand-in layer for C01: family HI -- class HIERARCHIES.

The constraints in force for `K.x` (and for the instances of K) are those of the Parameter that Python's MRO
resolves for K.  One case = (Parameter type, hierarchy shape, which classes re-declare x with which constraint
configuration, target class, route, value):

    shapes     chain A<-B<-C | fan B(A),C(A) | diamond D(B,C) and D(C,B) over B(A),C(A) | long diamond
               D(B2,C) / D(C,B2) with B2(B(A)) | two roots D(A,M) / D(M,A)
    declared   the root declares configuration c0; every other class: nothing | c1 (tightened) | c2 (loosened /
               different) | `dflt` (re-declares with a default only: every constraint is inherited)
    routes     class attribute `K.x = v`, class-level `K.param.update(x=v)`, and on an instance of K: attribute,
               param.update, constructor keyword, JSON deserialize + update
    values     boundary values of EVERY configuration of the family (at / just inside / just outside each bound) and
               a slice of the global value lattice of bounded/c01.py

Oracle (independent of param): the governing declaration of K is found with Python's own C3 linearisation of a
SHADOW hierarchy of plain classes of the same shape (no param involved): the first class in the shadow MRO that
declares x; its resolved constraints are its own keywords laid over the resolved constraints of the next declaring
class in ITS MRO (param's documented slot inheritance).  The verdict on the value is the three-valued oracle
`valid` of bounded/c01.py (written from the statement) applied to that resolved configuration.

Clauses (those of the base layer):  C01/<T>/accept<=>valid, C01/<T>/raises-only, C01/<T>/installed-is-assigned.
A hierarchy is built fresh for every class-level attempt that was accepted or that left any trace (a class gained or
lost an own `x`, a constraint slot changed); rejected attempts that left no trace share one build.  Every failure is
re-run on a fresh hierarchy before it is reported, and the replay script does the same.
"""
import itertools
from concurrent.futures import ProcessPoolExecutor

from bounded._api import REPLAY_HEADER

SHAPES = {
    "chain": (("A", ()), ("B", ("A",)), ("C", ("B",))),
    "fan": (("A", ()), ("B", ("A",)), ("C", ("A",))),
    "diamond": (("A", ()), ("B", ("A",)), ("C", ("A",)), ("D", ("B", "C"))),
    "diamond-rev": (("A", ()), ("B", ("A",)), ("C", ("A",)), ("D", ("C", "B"))),
    "long-diamond": (("A", ()), ("B", ("A",)), ("B2", ("B",)), ("C", ("A",)), ("D", ("B2", "C"))),
    "long-diamond-rev": (("A", ()), ("B", ("A",)), ("B2", ("B",)), ("C", ("A",)), ("D", ("C", "B2"))),
    "two-roots": (("A", ()), ("M", ()), ("D", ("A", "M"))),
    "two-roots-rev": (("A", ()), ("M", ()), ("D", ("M", "A"))),
}
SHAPE_ORDER = list(SHAPES)

# per family: type, {config key: {keyword: source}}, default source valid under EVERY configuration of the family
FAMILIES = {
    "Number": ("Number", {"c0": {"bounds": "(0,10)"}, "c1": {"bounds": "(0,5)"}, "c2": {"bounds": "(-10,20)"}}, "1"),
    "Number-incl": ("Number", {"c0": {"bounds": "(0,10)", "inclusive_bounds": "(True,True)"},
                               "c1": {"bounds": "(0,10)", "inclusive_bounds": "(False,False)"},
                               "c2": {"bounds": "(0,10)", "inclusive_bounds": "(True,False)"}}, "1"),
    "Number-none": ("Number", {"c0": {"bounds": "(0,10)", "allow_None": "False"},
                               "c1": {"bounds": "(0,5)", "allow_None": "True"},
                               "c2": {"bounds": "(0,10)", "allow_None": "True"}}, "1"),
    "Integer": ("Integer", {"c0": {"bounds": "(0,10)"}, "c1": {"bounds": "(2,5)"}, "c2": {"bounds": "(-10,20)"}}, "3"),
    "Range": ("Range", {"c0": {"bounds": "(0,10)"}, "c1": {"bounds": "(0,5)"}, "c2": {"bounds": "(-10,20)"}}, "(1,2)"),
    "String": ("String", {"c0": {"regex": "'^a'"}, "c1": {"regex": "'^ab'"}, "c2": {"regex": "'^.'"}}, "'ab'"),
    "Selector": ("Selector", {"c0": {"objects": "[1,2,'a','b']"}, "c1": {"objects": "[1,2]"},
                              "c2": {"objects": "[1,2,'a','b',5]"}}, "1"),
    "ListSelector": ("ListSelector", {"c0": {"objects": "[1,2,'a','b']"}, "c1": {"objects": "[1,2]"},
                                      "c2": {"objects": "[1,2,'a','b',5]"}}, "[1]"),
    "List": ("List", {"c0": {"bounds": "(0,2)", "item_type": "int"}, "c1": {"bounds": "(0,1)", "item_type": "int"},
                      "c2": {"bounds": "(0,3)", "item_type": "(int,str)"}}, "[1]"),
    "Tuple": ("Tuple", {"c0": {"length": "2"}, "c1": {"length": "3"}, "c2": {"length": "1"}}, None),
    "ClassSelector": ("ClassSelector", {"c0": {"class_": "(int,str)"}, "c1": {"class_": "int"},
                                        "c2": {"class_": "(int,str,float)"}}, "1"),
    "Date": ("CalendarDate", {"c0": {"bounds": "(dt.date(2020,1,1),dt.date(2020,12,31))"},
                              "c1": {"bounds": "(dt.date(2020,3,1),dt.date(2020,9,1))"},
                              "c2": {"bounds": "(dt.date(2019,1,1),dt.date(2021,12,31))"}}, "dt.date(2020,6,15)"),
}
FAMILY_ORDER = list(FAMILIES)
TUPLE_DEFAULT = {"c0": "(0,0)", "c1": "(0,0,0)", "c2": "(0,)"}

# value classes of the global lattice of c01.py offered to a family (quick: 3 values per class, thorough: 8)
GLOBAL_CLASSES = {
    "Number": {"none", "bool", "int", "float", "inf", "nan", "bigint", "fraction", "str", "tuple", "list"},
    "Integer": {"none", "bool", "int", "float", "bigint", "fraction", "str"},
    "Range": {"none", "tuple", "tuple-nan", "tuple-inf", "list", "int", "tuple-nonnum"},
    "String": {"none", "str", "bytes", "int", "list"},
    "Selector": {"none", "int", "str", "float", "list", "bool"},
    "ListSelector": {"none", "int", "str", "list", "tuple"},
    "List": {"none", "list", "tuple", "int", "list-none-item"},
    "Tuple": {"none", "tuple", "list", "int", "tuple-nonnum"},
    "ClassSelector": {"none", "int", "bool", "float", "str", "bytes", "list", "fraction"},
    "CalendarDate": {"none", "date", "datetime", "int", "str", "tuple-date"},
}
EXTRA_VALUES = {
    "Selector": [("5", "int", "5"), ("3", "int", "3"), ("'c'", "str", "'c'")],
    "ListSelector": [("[5]", "list", "[5]"), ("[1,5]", "list", "[1,5]"), ("['a']", "list", "['a']"), ("[1,'a']", "list", "[1,'a']"),
                     ("[3]", "list", "[3]")],
    "String": [("'abc'", "str", "'abc'"), ("'ba'", "str", "'ba'"), ("'ac'", "str", "'ac'")],
    "List": [("[1,2]", "list", "[1,2]"), ("[1,2,3]", "list", "[1,2,3]"), ("[1,2,3,4]", "list", "[1,2,3,4]"), ("['a']", "list", "['a']"),
             ("[1,'a']", "list", "[1,'a']"), ("[1.5]", "list", "[1.5]")],
    "Tuple": [("(0,)", "tuple", "(0,)"), ("(0,1)", "tuple", "(0,1)"), ("(0,1,2)", "tuple", "(0,1,2)"), ("(0,1,2,3)", "tuple", "(0,1,2,3)")],
    "ClassSelector": [("1.5", "float", "1.5"), ("'s'", "str", "'s'"), ("7", "int", "7")],
    "CalendarDate": [("date(2,1)", "date", "dt.date(2020,2,1)"), ("date(10,1)", "date", "dt.date(2020,10,1)"),
                     ("date(2019-6)", "date", "dt.date(2019,6,1)"), ("date(2022)", "date", "dt.date(2022,1,1)"),
                     ("date(2018)", "date", "dt.date(2018,1,1)"), ("date(3,1)", "date", "dt.date(2020,3,1)"),
                     ("date(9,1)", "date", "dt.date(2020,9,1)"), ("date(9,2)", "date", "dt.date(2020,9,2)")],
}

# no default-only re-declaration: class_ is a required argument; allow_None is by design NOT inherited by a re-declaration
# (Parameter._set_allow_None: False unless given or the default is None -- the ground of C11), so the statement of C01
# does not decide what a default-only re-declaration allows there
NO_DFLT = {"ClassSelector", "Number-none"}
ROUTES = ["class", "class-update", "instance", "update", "kwarg", "deserialize"]
CLASS_ROUTES = ("class", "class-update")


# ---------------------------------------------------------------------------------------------
# the oracle's view of a hierarchy: shadow classes, governing declaration, resolved configuration
# ---------------------------------------------------------------------------------------------
def shadow_mros(shape):
    """{class name: [names in Python's MRO]} computed on plain classes of the same shape (no param)."""
    built = {}
    for name, bases in SHAPES[shape]:
        built[name] = type(name, tuple(built[b] for b in bases) or (object,), {})
    return {n: [k.__name__ for k in c.__mro__ if k is not object] for n, c in built.items()}


def governing(shape, decl, target):
    """Name of the class whose declaration of x governs `target` (first declarer in the MRO)."""
    for n in shadow_mros(shape)[target]:
        if decl.get(n):
            return n
    return None


def resolved_kw(fam, shape, decl, cls):
    """Resolved constraint keywords of the declaration made by class `cls`: a full configuration names every constraint
    of its family itself; a default-only declaration inherits every constraint from the Parameter that `cls` would have
    had without it, i.e. the resolved declaration of the next declaring class in the MRO of `cls`."""
    key = decl[cls]
    if key != "dflt":
        return dict(FAMILIES[fam][1][key])
    for n in shadow_mros(shape)[cls][1:]:
        if decl.get(n):
            return resolved_kw(fam, shape, decl, n)
    return {}


def effective_cfg(fam, shape, decl, target):
    g = governing(shape, decl, target)
    return {"T": FAMILIES[fam][0], "kw": resolved_kw(fam, shape, decl, g)}, g


def default_src(fam, shape, decl, cls):
    """A default that satisfies the resolved configuration of the declaration of `cls`."""
    d = FAMILIES[fam][2]
    if fam == "Tuple":
        ln = resolved_kw(fam, shape, decl, cls)["length"]
        return {"2": "(0,0)", "3": "(0,0,0)", "1": "(0,)"}[ln]
    return d


# ---------------------------------------------------------------------------------------------
# enumeration
# ---------------------------------------------------------------------------------------------
def decl_patterns(shape, tier):
    """-> list of {class: key}; the root(s) always declare."""
    names = [n for n, _ in SHAPES[shape]]
    roots = [n for n, b in SHAPES[shape] if not b]
    others = [n for n in names if n not in roots]
    out = []
    for combo in itertools.product((None, "c1", "c2", "dflt"), repeat=len(others)):
        nre = sum(1 for c in combo if c)
        if tier == "quick":
            if nre > 2 or (nre == 2 and "dflt" in combo and len(others) > 3):
                continue
        elif len(others) > 3 and nre > 2 and not (nre == 3 and "dflt" not in combo):
            continue
        d = {roots[0]: "c0"}
        if len(roots) > 1:
            d[roots[1]] = "c1"
        d.update({n: c for n, c in zip(others, combo) if c})
        out.append(d)
        if len(roots) > 1:      # two roots: also the looser one second
            d2 = dict(d)
            d2[roots[1]] = "c2"
            out.append(d2)
    return out


def values_of(fam, tier):
    """[(name, class, source)] -- boundary values of every configuration of the family + a slice of the lattice."""
    from bounded import c01
    T, cfgs, _ = FAMILIES[fam]
    seen, out = set(), []

    def add(item):
        if item[2] not in seen:
            seen.add(item[2])
            out.append(item)

    for key in ("c0", "c1", "c2"):
        for item in c01._eps_values(c01.Cfg({"T": T, "kw": cfgs[key]})):
            if tier == "quick" and ("Fraction" in item[2] or "float(" in item[2] or "far-" in item[1]):
                continue
            if tier == "quick" and T == "Range" and "tuple-both" in item[1]:
                continue
            add(item)
    for item in EXTRA_VALUES.get(T, []):
        add(item)
    classes = GLOBAL_CLASSES[T]
    per = {}
    for item in c01.GLOBAL:
        vcls = item[1]
        if "callable" in vcls or vcls == "class":
            continue
        if vcls not in classes:
            continue
        per[vcls] = per.get(vcls, 0) + 1
        if per[vcls] > (3 if tier == "quick" else 8):
            continue
        add(item)
    return out


def plan(tier, seed):
    """-> list of tasks (fam, shape, decl(tuple of pairs))"""
    out = []
    idx = 0
    for fam in FAMILY_ORDER:
        for shape in SHAPE_ORDER:
            for d in decl_patterns(shape, tier):
                idx += 1
                if fam in NO_DFLT and "dflt" in d.values():
                    continue        # (class_ is a required argument: no default-only re-declaration)
                if tier == "quick":
                    nre = sum(1 for n, k in d.items() if k != "c0") - (1 if shape.startswith("two-roots") else 0)
                    corefam = fam in ("Number", "Selector", "String")
                    if not corefam and (nre != 1 or "dflt" in d.values()) and (idx + seed) % 7:
                        continue
                    if corefam and nre == 2 and shape.startswith("long") and (idx + seed) % 3:
                        continue
                out.append((fam, shape, tuple(sorted(d.items()))))
    return out


# ---------------------------------------------------------------------------------------------
# driving the real code
# ---------------------------------------------------------------------------------------------
HARNESS_SRC = r'''
import warnings, logging, json
warnings.simplefilter('ignore'); logging.getLogger('param').setLevel(100)
import datetime as dt
from fractions import Fraction
from decimal import Decimal
import param
nan = float('nan'); inf = float('inf')

def build(T, shape_spec, decls):
    """shape_spec: ((name, bases), ...) in definition order; decls: {name: (keywords source dict, default source | None)}
    -> {name: class}"""
    ctor = getattr(param, T)
    built = {}
    for name, bases in shape_spec:
        body = {}
        if name in decls:
            kwsrc, dsrc = decls[name]
            kw = {k: eval(v) for k, v in kwsrc.items()}
            if dsrc is not None:
                kw['default'] = eval(dsrc)
            body['x'] = ctor(**kw)
        built[name] = type(name, tuple(built[b] for b in bases) or (param.Parameterized,), body)
    return built

def trace_of(built):
    """What a rejected class-level attempt must leave alone: who owns an x, and the constraint slots of each."""
    out = []
    for n, K in built.items():
        p = K.__dict__.get('x')
        out.append((n, id(p) if p is not None else None,
                    None if p is None else tuple(repr(getattr(p, s, None)) for s in
                                                 ('default', 'bounds', 'inclusive_bounds', 'allow_None', 'regex', 'length', 'item_type', 'class_'))
                    + (repr(list(p.objects)) if hasattr(p, 'objects') else '',)))
    return out

def attempt(built, target, route, v, inst=None):
    """-> (outcome, installed_ok, instance used | None)"""
    K = built[target]
    try:
        if route == 'class':
            setattr(K, 'x', v)
            got = K.x
        elif route == 'class-update':
            K.param.update(x=v)
            got = K.x
        elif route == 'kwarg':
            o = K(x=v)
            got = o.x
        elif route == 'deserialize':
            o = inst if inst is not None else K()
            inst = o
            o.param.update(**K.param.deserialize_parameters(json.dumps({'x': v})))
            got = o.x
            if got == v and type(got) is type(v):
                got = v
        else:
            o = inst if inst is not None else K()
            inst = o
            if route == 'instance':
                o.x = v
            else:
                o.param.update(x=v)
            got = o.x
        return 'accept', got is v, inst
    except BaseException as e:
        if isinstance(e, (KeyboardInterrupt, SystemExit, MemoryError)):
            raise
        return type(e).__name__, None, inst
'''

_H = None


def harness():
    global _H
    if _H is None:
        ns = {"__name__": "c01_hier_harness"}
        exec(compile(HARNESS_SRC, "<c01_hier harness>", "exec"), ns)
        _H = ns
    return _H


def _decls_for_build(fam, shape, decl):
    cfgs = FAMILIES[fam][1]
    out = {}
    for n, key in decl.items():
        kw = {} if key == "dflt" else dict(cfgs[key])
        out[n] = (kw, default_src(fam, shape, decl, n))
    return out


DESER_FAMS = {"Number", "Number-incl", "Number-none", "Integer", "String", "List"}


def _classify(exp, outcome, inst_ok):
    kinds = []
    if outcome != "accept" and outcome not in ("ValueError", "TypeError"):
        kinds.append("exc-class")
    if exp is True and outcome != "accept":
        kinds.append("rejected-valid")
    if exp is False and outcome == "accept":
        kinds.append("accepted-invalid")
    if outcome == "accept" and inst_ok is False:
        kinds.append("installed")
    return kinds


def run_task(args):
    """All (target, route, value) cases of one (family, shape, declaration pattern)."""
    import logging
    import warnings
    from bounded import c01
    (fam, shape, declt), tier, seed = args
    warnings.simplefilter("ignore")
    logging.getLogger("param").setLevel(logging.CRITICAL + 1)
    H = harness()
    decl = dict(declt)
    T = FAMILIES[fam][0]
    spec = SHAPES[shape]
    bdecl = _decls_for_build(fam, shape, decl)
    vals = values_of(fam, tier)
    names = [n for n, _ in spec]
    ncases = 0
    evals = {}
    fails = []
    nbuild = 0

    def ev(cl, n=1):
        evals[cl] = evals.get(cl, 0) + n

    built = H["build"](T, spec, bdecl)
    nbuild += 1
    clean = H["trace_of"](built)
    # a value DISCRIMINATES when the configurations of the family disagree on it: only such a value can tell which
    # declaration governs a class; the others are sliced in the quick tier
    fullc = [c01.Cfg({"T": T, "kw": FAMILIES[fam][1][k]}) for k in ("c0", "c1", "c2")]
    disc = []
    for vname, vcls, vsrc in vals:
        v = eval(vsrc, c01._ns())
        disc.append(len({c01.valid(fc, v, "instance") for fc in fullc}) > 1)
    for ti, target in enumerate(names):
        cfg, gov = effective_cfg(fam, shape, decl, target)
        c = c01.Cfg(cfg)
        inst = None
        for ri, route in enumerate(ROUTES):
            if route == "deserialize" and fam not in DESER_FAMS:
                continue
            for vi, (vname, vcls, vsrc) in enumerate(vals):
                if tier == "quick":
                    if route not in CLASS_ROUTES and target == gov and (ti + ri + vi + seed) % 3:
                        continue    # (instances of a class that declares x itself: the base layer's ground)
                    if not disc[vi] and (ti + ri + vi + seed) % 4:
                        continue
                    if route not in CLASS_ROUTES and (ti + ri + vi + seed) % 2 and not (disc[vi] and route == "instance"):
                        continue
                elif not disc[vi] and route not in CLASS_ROUTES and (ti + ri + vi + seed) % 3:
                    continue        # thorough: agreeing values on instance-level routes 1 in 3
                v = eval(vsrc, c01._ns())
                if route == "deserialize":
                    if not c01._jsonable(v, vcls) or v != v or v in (float("inf"), float("-inf")):
                        continue
                exp = c01.valid(c, v, "instance" if route != "kwarg" else "kwarg")
                outcome, inst_ok, inst = H["attempt"](built, target, route, v, inst)
                ncases += 1
                ev("C01/%s/raises-only" % T)
                if exp is not None:
                    ev("C01/%s/accept<=>valid" % T)
                if outcome == "accept":
                    ev("C01/%s/installed-is-assigned" % T)
                    inst = None
                kinds = _classify(exp, outcome, inst_ok)
                dirty = route in CLASS_ROUTES and (outcome == "accept" or H["trace_of"](built) != clean)
                if kinds:
                    # confirm on a fresh hierarchy (what the replay does)
                    fresh = H["build"](T, spec, bdecl)
                    nbuild += 1
                    o2, ok2, _ = H["attempt"](fresh, target, route, eval(vsrc, c01._ns()), None)
                    for k in _classify(exp, o2, ok2):
                        fails.append(dict(kind=k, fam=fam, T=T, shape=shape, decl=declt, target=target, gov=gov, route=route,
                                          vname=vname, vcls=vcls, vsrc=vsrc, exp=exp, outcome=o2, kw=cfg["kw"]))
                    dirty = dirty or route in CLASS_ROUTES
                if dirty:
                    built = H["build"](T, spec, bdecl)
                    nbuild += 1
                    clean = H["trace_of"](built)
                    inst = None
    return ncases, evals, fails, nbuild


# ---------------------------------------------------------------------------------------------
# reporting
# ---------------------------------------------------------------------------------------------
CLAUSE = {"rejected-valid": "accept<=>valid", "accepted-invalid": "accept<=>valid",
          "exc-class": "raises-only", "installed": "installed-is-assigned"}


def decl_text(declt):
    return ",".join("%s:%s" % (n, k) for n, k in declt)


def shape_text(shape):
    return "+".join("%s(%s)" % (n, ",".join(b)) if b else n for n, b in SHAPES[shape])


_REPLAY = r'''
T = {T!r}
shape_spec = {spec!r}
decls = {bdecl!r}          # class -> (constraint keywords it declares, its default); other classes do not declare x
target, route = {target!r}, {route!r}
expected = {expected!r}     # what the statement demands for the constraints in force for target.x (declared by class {gov}): {kw}
built = build(T, shape_spec, decls)
K = built[target]
print('hierarchy :', {shapetxt!r}, ' x declared by', {decltxt!r})
print('MRO of', target, ':', [k.__name__ for k in K.__mro__ if k.__name__ in built], '-> x is governed by class {gov}:', {kw!r})
v = {vsrc}
outcome, installed_ok, _ = attempt(built, target, route, v)
print('attempt   : route', route, 'on', target, 'value', repr(v), '-> observed', outcome, '; statement demands', expected)
bad = None
if outcome == 'accept' and expected == 'reject': bad = 'a value violating the constraints in force for %s.x was accepted' % target
elif outcome != 'accept' and expected == 'accept': bad = 'a value satisfying the constraints in force for %s.x was rejected (%s)' % (target, outcome)
elif outcome not in ('accept', 'ValueError', 'TypeError'): bad = 'rejection raised ' + outcome + ', neither ValueError nor TypeError'
elif outcome == 'accept' and not installed_ok: bad = 'the installed value is not the assigned object'
if bad:
    print('REPRODUCED:', bad); sys.exit(1)
print('NOT-REPRODUCED'); sys.exit(0)
'''


def make_replay(f, clause, witness):
    head = REPLAY_HEADER.format(prop="C01", name="replay_c01_hier.py", clause=clause, witness=witness)
    decl = dict(f["decl"])
    expected = {True: "accept", False: "reject", None: None}[f["exp"]]
    return head + HARNESS_SRC + _REPLAY.format(
        T=f["T"], spec=SHAPES[f["shape"]], bdecl=_decls_for_build(f["fam"], f["shape"], decl), target=f["target"],
        route=f["route"], expected=expected, gov=f["gov"], kw=f["kw"], shapetxt=shape_text(f["shape"]),
        decltxt=decl_text(f["decl"]), vsrc=f["vsrc"])


def _frank(f):
    return (len(f["decl"]), SHAPE_ORDER.index(f["shape"]), FAMILY_ORDER.index(f["fam"]), ROUTES.index(f["route"]),
            f["target"], len(f["vsrc"]), f["vsrc"], f["decl"])


def run_family(B, tier, seed, nworkers=16):
    """Run family HI and record cases / clause evaluations / violations on the recorder ``B`` of C01."""
    tasks = plan(tier, seed)
    jobs = [(t, tier, seed) for t in tasks]
    try:
        ex = ProcessPoolExecutor(nworkers)
    except (OSError, AssertionError, ValueError):
        ex = None
    if ex is not None:
        with ex:
            results = list(ex.map(run_task, jobs, chunksize=4))
    else:
        results = [run_task(j) for j in jobs]
    ncases = nbuild = 0
    fails = []
    for nc, evals, fl, nb in results:
        ncases += nc
        nbuild += nb
        for cl, n in evals.items():
            B.checked(cl, n)
        fails.extend(fl)
    B.evaluations += ncases
    for i in range(ncases):
        B._distinct.add(("HI", i))      # (pairwise different (family, shape, declarations, target, route, value) tuples)
    # one report per (type, kind of failure, route class, relation of the governing class to the target, verdict)
    groups = {}
    for f in fails:
        rel = "own" if f["gov"] == f["target"] else "inherited"
        multi = "multi" if any(len(b) > 1 for n, b in SHAPES[f["shape"]]) else "single"
        g = (f["kind"], f["T"], "class" if f["route"] in CLASS_ROUTES else "instance", rel, multi,
             f["outcome"] if f["kind"] == "exc-class" else "")
        cur = groups.get(g)
        if cur is None:
            groups[g] = [f, 1, {f["shape"]}, {f["route"]}]
        else:
            cur[1] += 1
            cur[2].add(f["shape"])
            cur[3].add(f["route"])
            if _frank(f) < _frank(cur[0]):
                cur[0] = f
    for g in sorted(groups, key=repr):
        f, n, shapes, routes = groups[g]
        clause = "C01/%s/%s" % (f["T"], CLAUSE[f["kind"]])
        exp = {True: "accept", False: "reject", None: "undecided"}[f["exp"]]
        witness = ("family=HI type=%s kind=%s shape=%s declared=%s target=%s governed-by=%s(%s) inheritance=%s route=%s value=%s "
                   "valueclass=%s expected=%s observed=%s" % (
                       f["T"], f["kind"], f["shape"], decl_text(f["decl"]), f["target"], f["gov"],
                       ",".join("%s=%s" % (k, f["kw"][k]) for k in sorted(f["kw"])), g[4] + "/" + g[3], f["route"],
                       f["vname"].replace(" ", ""), f["vcls"], exp, f["outcome"]))
        detail = "%d failing cases in this class; shapes=%s; routes=%s" % (
            n, sorted(shapes, key=SHAPE_ORDER.index), sorted(routes, key=ROUTES.index))
        B.violation(clause=clause, witness=witness, detail=detail, replay=make_replay(f, clause, witness))
        B._seen[(clause, witness)]["count"] = n
    B.note("family HI (class hierarchies: the constraints in force for K.x are those of the Parameter Python's MRO resolves for K): "
           "%d (type family, shape, declaration pattern) hierarchies over %d type families x %d shapes, %d attempts over the routes "
           "%s, %d hierarchy builds" % (len(tasks), len(FAMILIES), len(SHAPES), ncases, "/".join(ROUTES), nbuild))
    return ncases


def bound_text(tier):
    return ("FAMILY HI (bounded/c01_hier.py): %d type families (Number bounds / inclusivity / allow_None, Integer, Range, String regex, "
            "Selector / ListSelector objects, List bounds + item type, Tuple length, ClassSelector class_, CalendarDate bounds; each with "
            "a root configuration c0, a tightened c1 and a loosened c2) x %d hierarchy shapes (chain, fan, diamond in both base orders, "
            "long diamond in both orders, two roots in both orders) x re-declaration pattern (every non-root class: nothing | c1 | c2 | "
            "default only; %s) x every class of the hierarchy as target x routes class attribute / class-level update / instance "
            "attribute / update / constructor keyword / deserialize x boundary values of all three configurations + lattice slice"
            % (len(FAMILIES), len(SHAPES),
               "quick: at most 2 re-declaring classes; Number / Selector / String: all such patterns (long diamonds with 2: 1 in 3), "
               "other families: the single full re-declarations, rest 1 in 7; values on which the three configurations agree 1 in 4; instance-level "
               "routes 1 in 2 (discriminating values by instance attribute: all), instances of a declaring class 1 in 3"
               if tier == "quick" else "all patterns (long diamonds: at most 2 re-declaring classes, or 3 full re-declarations); values on which the three configurations agree: instance-level routes 1 in 3"))
