"""Bounded stand-in layer of C02 -- a rejected assignment has no observable effect.

A *case* is (history of <= k successful links/assignments, one rejected assignment).  It is run in
two freshly built identical worlds (fresh Parameterized classes S, A, B(A); objects s1,s2,s3,t,u):

  world 1   history ; snapshot ; rejected attempt (must raise) ; snapshot ; probe sequence
  world 2   history ;                                                      probe sequence   (control)

Oracle (from the statement): snapshot-before == snapshot-after in world 1 (values of every
parameter of every object and class, references, reference watchers, watcher tables of every
object and class, class dictionaries, constraint slots of every Parameter, number of watcher
invocations), and the probe traces (subsequent propagation from every old and new source, class
level sets, plain sets) of world 1 and of the control world are equal.  The control world makes the
propagation oracle independent of how links are *supposed* to behave (that is C08's business).

The harness below is one source text: the layer exec()s it, and replay scripts paste it verbatim,
so that a replay does exactly what the layer did.
"""
import itertools
import logging
import warnings
from concurrent.futures import ProcessPoolExecutor

from bounded._api import Bounded, REPLAY_HEADER
from bounded import c02_ext
from bounded import c02_gen
from bounded import c02_fail

HARNESS_SRC = r'''
import warnings, logging, inspect, functools
warnings.simplefilter('ignore'); logging.getLogger('param').setLevel(100)
import param

def ident(v):
    return v

def make_world():
    class S(param.Parameterized):
        w = param.Number(default=1)
    class A(param.Parameterized):
        x = param.Number(default=1, bounds=(0, 10), allow_refs=True)
        y = param.Number(default=2, bounds=(0, 10), allow_refs=True)
        p = param.Number(default=2, bounds=(0, 10))
        c = param.Number(default=3.5, bounds=(0, 10), constant=True)
        r = param.Number(default=4.5, bounds=(0, 10), readonly=True)
        k = param.Number(default=3.5, bounds=(0, 10), constant=True, allow_refs=True)
        ro = param.Number(default=4.5, bounds=(0, 10), readonly=True, allow_refs=True)
        sel = param.Selector(objects=[1, 2], check_on_set=False, constant=True)
    class B(A):
        pass
    ns = dict(param=param, S=S, A=A, B=B, ident=ident)
    ns['s1'] = S(name='s1', w=3); ns['s2'] = S(name='s2', w=99); ns['s3'] = S(name='s3', w=4)
    ns['t'] = B(name='t'); ns['u'] = A(name='u')
    LOG = ns['LOG'] = []
    ns['LABELS'] = {}
    def mk(label):
        def log(*events):
            for e in events:
                LOG.append((label, e.name, repr(e.old), repr(e.new)))
        log.__qualname__ = 'log@' + label
        return log
    ns['cb'] = mk('cb')
    # control-world counterpart of an attempt: create the per-instance Parameter object exactly as the
    # descriptor does on any access (no assignment, no validation, no reference handling)
    ns['touch'] = lambda o, n: param.parameterized._instantiated_parameter(o, cls_param(type(o), n))
    for k in ('s1', 's2', 's3', 't', 'u'):
        o = ns[k]
        o.param.watch(mk(k), [p for p in o.param if p != 'name'], onlychanged=False)
    A.param.watch(mk('A'), ['x', 'y', 'p', 'c', 'k'], onlychanged=False)
    return ns

OBJS = ('s1', 's2', 's3', 't', 'u')
CLASSES = ('S', 'A', 'B')

def lab(ns, r):
    """Deterministic label of an object (never an id/address)."""
    if isinstance(r, param.Parameterized):
        return r.name
    if isinstance(r, type) and issubclass(r, param.Parameterized):
        return r.__name__
    if isinstance(r, param.Parameter):
        return 'param:%s.%s' % (lab(ns, r.owner), r.name)
    if id(r) in ns['LABELS']:
        return ns['LABELS'][id(r)]
    return type(r).__name__

def fnlab(ns, fn):
    if inspect.ismethod(fn):
        s = fn.__self__
        if isinstance(s, param.parameterized.Parameters):
            return '%s@%s' % (fn.__func__.__name__, lab(ns, s.self_or_cls))
        return '%s@%s' % (fn.__func__.__name__, lab(ns, s))
    if isinstance(fn, functools.partial):
        return 'partial:' + fnlab(ns, fn.func)
    return getattr(fn, '__qualname__', type(fn).__name__)

def wdesc(ns, w):
    return (fnlab(ns, w.fn), tuple(w.parameter_names), w.what, w.onlychanged, w.queued, w.precedence,
            lab(ns, w.inst) if w.inst is not None else lab(ns, w.cls))

def slot_view(ns, p):
    out = {}
    for s in type(p)._all_slots_:
        if s in ('watchers', 'owner', 'name'):
            continue
        v = getattr(p, s)
        out[s] = repr(list(v)) if s == '_objects' else (lab(ns, v) if callable(v) else repr(v))
    return out

def cls_param(C, n):
    """The Parameter object in force for class C (MRO lookup; independent of the .param cache)."""
    for K in C.__mro__:
        p = K.__dict__.get(n)
        if isinstance(p, param.Parameter):
            return p

def snapshot(ns):
    snap = {'values': {}, 'class-dict': {}, 'refs': {}, 'ref_watchers': {}, 'watchers': {}, 'slots': {}}
    for k in OBJS:
        o = ns[k]
        pv = o._param__private
        vals = {'stored:' + n: repr(v) for n, v in pv.values.items() if n != 'name'}
        for n in o.param:
            vals['read:' + n] = repr(getattr(o, n))
        snap['values'][k] = vals
        snap['refs'][k] = {n: lab(ns, r) for n, r in pv.refs.items()}
        snap['refs'][k].update({'async:' + n: 'task' for n in pv.async_refs})
        snap['ref_watchers'][k] = sorted(repr((tuple(rn), wdesc(ns, w))) for rn, w in pv.ref_watchers)
        snap['watchers'][k] = {'%s/%s' % (n, what): [repr(wdesc(ns, w)) for w in lst]
                               for n, d in pv.watchers.items() for what, lst in d.items()}
        names = [n for n in o.param if n != 'name']
        snap['slots'][k] = {n: slot_view(ns, pv.params.get(n) or cls_param(type(o), n)) for n in names}
    for cn in CLASSES:
        C = ns[cn]
        names = [n for n in C.param if n != 'name']
        snap['class-dict'][cn] = {n: 'own' for n, v in C.__dict__.items() if isinstance(v, param.Parameter)}
        snap['values'][cn] = {'read:' + n: repr(getattr(C, n)) for n in names}
        snap['watchers'][cn] = {'%s/%s' % (n, what): [repr(wdesc(ns, w)) for w in lst]
                                for n in names for what, lst in cls_param(C, n).watchers.items()}
        snap['slots'][cn] = {n: slot_view(ns, cls_param(C, n)) for n in names}
    snap['log'] = {'invocations': len(ns['LOG'])}
    return snap

def flat(d, prefix=''):
    out = {}
    for k, v in d.items():
        if isinstance(v, dict):
            out.update(flat(v, prefix + str(k) + '/'))
        else:
            out[prefix + str(k)] = v
    return out

def diff(a, b):
    """[(component, op, path, before, after)]"""
    res = []
    for comp in a:
        fa, fb = flat(a[comp]), flat(b[comp])
        for k in sorted(set(fa) | set(fb)):
            va, vb = fa.get(k, '<absent>'), fb.get(k, '<absent>')
            if va in ([], {}) : va = '<absent>'
            if vb in ([], {}) : vb = '<absent>'
            if va != vb:
                op = 'added' if va == '<absent>' else 'removed' if vb == '<absent>' else 'changed'
                res.append((comp, op, k, va, vb))
    return res

PROBES = ["s1.w = 6.5", "s2.w = 7.5", "s3.w = 8.5", "A.x = 2.5", "A.y = 3.5", "t.x = 1.5",
          "t.y = 1.25", "u.x = 0.5", "s1.w = 0.75"]

def probe(ns):
    trace = []
    n0 = len(ns['LOG'])
    for stmt in PROBES:
        try:
            exec(stmt, ns)
            exc = None
        except Exception as e:
            exc = type(e).__name__
        vals = {k: {n: repr(getattr(ns[k], n)) for n in ('x', 'y', 'p', 'c', 'r', 'k', 'ro', 'sel')}
                for k in ('t', 'u', 'A', 'B')}
        trace.append((stmt, exc, repr(sorted(flat(vals).items())), tuple(ns['LOG'][n0:])))
        n0 = len(ns['LOG'])
    return trace

def run_case(history, prepare, attempt, touch=''):
    """-> dict(status=..., effects=[...], detail=[...]).  status: 'history-failed' | 'not-rejected' |
    'checked'.  history: list of statements; prepare: statement binding REF (or ''); attempt: statement;
    touch: statement executed in the control world in place of the attempt; it only creates the per-instance
    Parameter object, which every access through the descriptor or obj.param[name] does lazily anyway."""
    worlds = []
    for i in range(2):
        ns = make_world()
        try:
            for h in history:
                exec(h, ns)
            if prepare:
                exec(prepare, ns)
            if i == 1 and touch:
                exec(touch, ns)      # control world: a pure read of the same Parameter object
        except Exception as e:
            return dict(status='history-failed', exc=type(e).__name__ + ': ' + str(e))
        worlds.append(ns)
    w1, w2 = worlds
    before = snapshot(w1)
    try:
        exec(attempt, w1)
        return dict(status='not-rejected')
    except Exception as e:
        exc = type(e).__name__
    after = snapshot(w1)
    d = diff(before, after)
    effects = []
    for comp, op, path, va, vb in d:
        e = comp
        if comp in ('refs', 'class-dict', 'values'):
            e += ':' + op
        elif comp == 'slots':
            e += '(%s)' % path.rsplit('/', 1)[-1]
        if e not in effects:
            effects.append(e)
    detail = ['%s %s %s: %s -> %s' % x for x in d]
    t1, t2 = probe(w1), probe(w2)
    for a, b in zip(t1, t2):
        if a != b:
            effects.append('propagation')
            detail.append('after probe `%s`: rejected-world exc=%s control exc=%s' % (a[0], a[1], b[1]))
            da = dict(eval(a[2])); db = dict(eval(b[2]))
            for k in sorted(da):
                if da[k] != db[k]:
                    detail.append('   %s: rejected-world %s, control world %s' % (k, da[k], db[k]))
            if a[3] != b[3]:
                detail.append('   watcher invocations: rejected-world %r, control world %r' % (a[3], b[3]))
            break
    return dict(status='checked', exc=exc, effects=effects, detail=detail)
'''

# ---------------------------------------------------------------------------------------------
# operation alphabet of histories (every one is a *successful* link / assignment)
# ---------------------------------------------------------------------------------------------
HISTORY_OPS = [
    ("set-x", "t.x = 5"),
    ("link-x-s1", "t.x = s1.param.w"),
    ("link-y-s3", "t.y = s3.param.w"),
    ("link-x-bind", "t.x = param.bind(ident, s1.param.w)"),
    ("link-x-rx", "t.x = s1.param.w.rx() + 1"),
    ("src-s1", "s1.w = 2"),
    ("update-link-x-s3", "t.param.update(x=s3.param.w)"),
    ("watch-x", "t.param.watch(cb, ['x'])"),
    ("link-u-from-t", "u.y = t.param.x"),
    ("ctor-link", "t = B(name='t', x=s1.param.w); t.param.watch(cb, ['x', 'y'], onlychanged=False)"),
    ("cls-A-x", "A.x = 7"),
    ("cls-B-y", "B.y = 6"),
    ("cls-watch", "A.param.watch(cb, ['x'])"),
]
QUICK_OPS = {"set-x", "link-x-s1", "link-y-s3", "link-x-bind", "src-s1", "link-u-from-t", "ctor-link",
             "cls-A-x", "cls-B-y"}

# rejected assignments: (id, kind, route, prepare, attempt)
ATTEMPTS = [
    ("x=99", "invalid-plain", "instance", "", "t.x = 99"),
    ("x='bad'", "invalid-plain", "instance", "", "t.x = 'bad'"),
    ("y=99", "invalid-plain", "instance", "", "t.y = 99"),
    ("p=99", "invalid-plain", "instance", "", "t.p = 99"),
    ("x=s2.w", "invalid-ref", "instance", "REF = s2.param.w", "t.x = REF"),
    ("y=s2.w", "invalid-ref", "instance", "REF = s2.param.w", "t.y = REF"),
    ("x=bind(s2.w)", "invalid-ref", "instance",
     "REF = param.bind(ident, s2.param.w); LABELS[id(REF)] = 'bind(s2.w)'", "t.x = REF"),
    ("x=rx(s2.w)", "invalid-ref", "instance",
     "REF = s2.param.w.rx(); LABELS[id(REF)] = 'rx(s2.w)'; REF.rx.value", "t.x = REF"),
    ("c=5", "constant", "instance", "", "t.c = 5"),
    ("c=99", "constant", "instance", "", "t.c = 99"),
    ("k=s1.w", "constant", "instance", "REF = s1.param.w", "t.k = REF"),
    ("sel=99", "constant", "instance", "", "t.sel = 99"),
    ("r=5", "readonly", "instance", "", "t.r = 5"),
    ("ro=s1.w", "readonly", "instance", "REF = s1.param.w", "t.ro = REF"),
    ("x=99", "invalid-plain", "update", "", "t.param.update(x=99)"),
    ("x='bad'", "invalid-plain", "update", "", "t.param.update({'x': 'bad'})"),
    ("x=s2.w", "invalid-ref", "update", "REF = s2.param.w", "t.param.update(x=REF)"),
    ("x=bind(s2.w)", "invalid-ref", "update",
     "REF = param.bind(ident, s2.param.w); LABELS[id(REF)] = 'bind(s2.w)'", "t.param.update(x=REF)"),
    ("c=5", "constant", "update", "", "t.param.update(c=5)"),
    ("k=s1.w", "constant", "update", "REF = s1.param.w", "t.param.update(k=REF)"),
    ("r=5", "readonly", "update", "", "t.param.update(r=5)"),
    ("A.x=99", "invalid-plain", "class", "", "A.x = 99"),
    ("B.x=99", "invalid-plain", "class", "", "B.x = 99"),
    ("B.x='bad'", "invalid-plain", "class", "", "B.x = 'bad'"),
    ("B.c=99", "invalid-plain", "class", "", "B.c = 99"),
    ("A.r=5", "readonly", "class", "", "A.r = 5"),
    ("B.r=5", "readonly", "class", "", "B.r = 5"),
    ("A.update(x=99)", "invalid-plain", "class-update", "", "A.param.update(x=99)"),
    ("B.update(x=99)", "invalid-plain", "class-update", "", "B.param.update(x=99)"),
    ("B.update(r=5)", "readonly", "class-update", "", "B.param.update(r=5)"),
]

# attempts also applied after histories of maximal length in the thorough tier (one per kind x route x
# reference flavour); shorter histories get every attempt
CORE_ATTEMPTS = {("x=99", "instance"), ("x=s2.w", "instance"), ("x=bind(s2.w)", "instance"), ("x=rx(s2.w)", "instance"),
                 ("c=5", "instance"), ("k=s1.w", "instance"), ("sel=99", "instance"), ("r=5", "instance"),
                 ("ro=s1.w", "instance"), ("x=99", "update"), ("x=s2.w", "update"), ("A.x=99", "class"),
                 ("B.x=99", "class"), ("A.r=5", "class"), ("B.update(x=99)", "class-update")}

COMPONENT_ORDER = ["values", "refs", "ref_watchers", "watchers", "class-dict", "slots", "log", "propagation"]


def histories(tier):
    k = 2 if tier == "quick" else 3
    ops = [o for o in HISTORY_OPS if tier != "quick" or o[0] in QUICK_OPS]
    out = [()]
    for n in range(1, k + 1):
        for h in itertools.product(ops, repeat=n):
            names = [x[0] for x in h]
            if "ctor-link" in names[1:]:
                continue          # the constructor link only makes sense as the first operation
            out.append(h)
    return out


def touch_of(att):
    """Read-only counterpart of an instance-route attempt, e.g. "t.x = 99" -> "touch(t, 'x')"."""
    import re
    m = re.match(r"t\.(\w+) = ", att) or re.match(r"t\.param\.update\((?:\{')?(\w+)", att)
    return "touch(t, %r)" % m.group(1) if m else ""



def _pmap(fn, jobs):
    """Parallel map over the 16 cores; serial fallback when worker processes cannot be started."""
    try:
        ex = ProcessPoolExecutor(max_workers=16)
    except (OSError, AssertionError, ValueError):
        ex = None
    if ex is not None:
        try:
            with ex:
                return list(ex.map(fn, jobs))
        except (OSError, AssertionError) as e:      # e.g. daemonic parent process
            if "daemonic" not in str(e) and not isinstance(e, OSError):
                raise
    return [fn(j) for j in jobs]


_HARNESS = None


def harness():
    global _HARNESS
    if _HARNESS is None:
        ns = {"__name__": "c02_harness"}
        exec(compile(HARNESS_SRC, "<c02 harness>", "exec"), ns)
        _HARNESS = ns
    return _HARNESS


def run_chunk(args):
    idxs, tier = args
    warnings.simplefilter("ignore")
    logging.getLogger("param").setLevel(logging.CRITICAL + 1)
    H = harness()
    hs = histories(tier)
    out = []
    for hi in idxs:
        h = hs[hi]
        stmts = [x[1] for x in h]
        for ai, (aid, kind, route, prep, att) in enumerate(ATTEMPTS):
            if len(h) >= 3 and (aid, route) not in CORE_ATTEMPTS:
                continue
            r = H["run_case"](stmts, prep, att, touch_of(att))
            out.append((hi, ai, r))
    return out


def run_xchunk(chunk):
    """chunk: [(module tag, (family, case))] -> [(module tag, (family, case, result))]"""
    out = []
    for tag, mod in (("ext", c02_ext), ("gen", c02_gen), ("fail", c02_fail)):
        part = [t for m, t in chunk if m == tag]
        if part:
            out.extend((tag, item) for item in mod.run_chunk(part))
    return out


def make_replay(h, a, clause, witness):
    aid, kind, route, prep, att = a
    head = REPLAY_HEADER.format(prop="C02", name="replay_c02.py", clause=clause, witness=witness)
    body = HARNESS_SRC + '''
history = %r
prepare = %r
attempt = %r
touch = %r
r = run_case(history, prepare, attempt, touch)
print('history :', history)
print('attempt :', (prepare + ' ; ' if prepare else '') + attempt, ' -> status', r['status'], r.get('exc', ''))
for line in r.get('detail', []):
    print('   ', line)
if r['status'] == 'checked' and r['effects']:
    print('REPRODUCED: the rejected assignment had observable effects:', ', '.join(r['effects'])); sys.exit(1)
print('NOT-REPRODUCED'); sys.exit(0)
''' % ([x[1] for x in h], prep, att, touch_of(att))
    return head + body


def run(tier, seed):
    hs = histories(tier)
    B = Bounded(
        "C02",
        rule="one case = (history of successful links/assignments, one rejected assignment); run in two "
             "fresh identical worlds (fresh classes S, A, B(A), objects s1,s2,s3,t,u, a universal logging "
             "watcher on every object and on class A); non-trivial when the history succeeds and the attempt "
             "raises; oracle: complete snapshot before == after, and probe traces (9 later sets on every "
             "source, class and target) equal to those of the control world without the attempt"
             + c02_ext.RULE + c02_gen.RULE + c02_fail.RULE,
        bound="histories of length <= %d over %d operations (plain set, link by Parameter / bind / rx / update / "
              "constructor, source update, user watcher, link in which the target is itself a source, class-level "
              "set on declaring class and subclass, class watcher) = %d histories x %d rejected assignments (histories of length 3: the %d core attempts) "
              "(invalid plain value x3 params, invalid-valued Parameter/bind/rx reference, constant with "
              "valid/invalid/reference value, constant Selector(check_on_set=False), read-only plain/reference) "
              "on routes instance / update / class / class-update"
              % (2 if tier == "quick" else 3, len([o for o in HISTORY_OPS if tier != "quick" or o[0] in QUICK_OPS]),
                 len(hs), len(ATTEMPTS), len(CORE_ATTEMPTS)) + "; " + c02_ext.bound_text(tier)
              + "; " + c02_gen.bound_text(tier) + "; " + c02_fail.bound_text(tier))
    nchunks = 64
    chunks = [(list(range(i, len(hs), nchunks)), tier) for i in range(nchunks)]
    chunks = [c for c in chunks if c[0]]
    results = []
    for out in _pmap(run_chunk, chunks):
        results.extend(out)
    results.sort(key=lambda x: (x[0], x[1]))
    groups = {}
    stats = {"history-failed": 0, "not-rejected": 0, "checked": 0}
    for hi, ai, r in results:
        h, a = hs[hi], ATTEMPTS[ai]
        hnames = ",".join(x[0] for x in h)
        key = "history=[%s] attempt=%s route=%s" % (hnames, a[0], a[2])
        stats[r["status"]] += 1
        if r["status"] != "checked":
            B.case(key=key, nontrivial=False)
            continue
        B.case(key=key)
        for comp in COMPONENT_ORDER[:-1]:
            B.checked("C02/frame/" + comp)
        B.checked("C02/propagation")
        if hi % 97 == 5 and ai % 7 == 0:
            B.sample({"history": hnames, "attempt": a[4], "raised": r["exc"], "effects": r["effects"]})
        if not r["effects"]:
            continue
        effs = sorted(r["effects"], key=lambda e: COMPONENT_ORDER.index(e.split(":")[0].split("(")[0]))
        first = effs[0].split(":")[0].split("(")[0]
        clause = "C02/propagation" if first == "propagation" else "C02/frame/" + first
        g = (clause, a[1], a[2], effs[0])
        r["also"] = ",".join(effs[1:]) or "-"
        cur = groups.get(g)
        cand = (len(h), hi, ai)
        if cur is None or cand < cur[0]:
            groups[g] = (cand, h, a, r, cur[4] + 1 if cur else 1)
        else:
            groups[g] = cur[:4] + (cur[4] + 1,)
    for g in sorted(groups):
        cand, h, a, r, count = groups[g]
        clause, kind, route, effs = g
        witness = "kind=%s route=%s effect=%s also=%s attempt=%s raised=%s history=[%s]" % (
            kind, route, effs, r["also"], a[4].replace(" ", ""), r["exc"], ",".join(x[0] for x in h))
        B.violation(clause=clause, witness=witness,
                    detail="%d cases with these effects; shortest history shown. " % count + " | ".join(r["detail"][:14]),
                    replay=make_replay(h, a, clause, witness))
        B._seen[(clause, witness)]["count"] = count
    # ---- further families (bounded/c02_ext.py): Selector subscribers, rejected calls inside batches;
    # ---- (bounded/c02_gen.py): shared generators, never-evaluated references.  One pool for all of them.
    xtasks = [("ext", t) for t in c02_ext.tasks(tier, seed)] + [("gen", t) for t in c02_gen.tasks(tier, seed)] + \
             [("fail", t) for t in c02_fail.tasks(tier, seed)]
    nx = 48 if tier == "quick" else 192
    xchunks = [xtasks[i::nx] for i in range(nx)]
    xresults, gresults, fresults = [], [], []
    for out in _pmap(run_xchunk, [c for c in xchunks if c]):
        for mod, item in out:
            (xresults if mod == "ext" else gresults if mod == "gen" else fresults).append(item)
    xresults.sort(key=lambda x: c02_ext.key_of(x[0], x[1]))
    gresults.sort(key=lambda x: c02_gen.key_of(x[0], x[1]))
    fresults.sort(key=lambda x: c02_fail.key_of(x[0], x[1]))
    xstats = {"SEL": [0, 0], "NB": [0, 0], "GEN": [0, 0], "RXN": [0, 0], "FW": [0, 0]}
    for mod, results in ((c02_ext, xresults), (c02_gen, gresults), (c02_fail, fresults)):
        for fam, c, r in results:
            k = mod.key_of(fam, c)
            xstats[fam][0] += 1
            if r["status"] != "checked":
                B.case(key=k, nontrivial=False)
                continue
            xstats[fam][1] += 1
            B.case(key=k)
            for cl in mod.clauses_of(fam):
                B.checked(cl)
            if xstats[fam][1] % 997 == 3:
                B.sample({"case": k, "raised": r["exc"], "effects": sorted(e for e in r["effects"] if not e.startswith("@"))})
        for clause, witness, detail, replay, count in mod.reports(results):
            B.violation(clause=clause, witness=witness, detail=detail, replay=replay)
            B._seen[(clause, witness)]["count"] = count
    if tier == "quick":
        B.exhaustive = False
    B.note("family SEL: %d cases, %d checked (history succeeded, attempt raised); family NB: %d cases, %d checked; "
           "the growth of `objects` itself (C02-b03) is left to the base family" % (
               xstats["SEL"][0], xstats["SEL"][1], xstats["NB"][0], xstats["NB"][1]))
    B.note("family GEN: %d cases, %d checked (the rest: the class accepts the callable / the generator does not fit the "
           "holder); family RXN: %d cases, %d checked (the rest: the current value of the reference is valid for that target)" % (
               xstats["GEN"][0], xstats["GEN"][1], xstats["RXN"][0], xstats["RXN"][1]))
    nfailed = sum(1 for _, _, r in fresults if r["status"] == "checked" and "Boom" in (r.get("failed") or ()))
    B.note("family FW: %d cases, %d checked (attempt raised), in %d of them at least one operation of the history failed "
           "inside a watcher" % (xstats["FW"][0], xstats["FW"][1], nfailed))
    B.note("cases: %(checked)d checked (history succeeded, attempt raised), %(not-rejected)d attempt not rejected "
           "after that history, %(history-failed)d history itself failed (both counted as trivial)" % stats)
    B.note("multi-key update in which an earlier key succeeds is not treated as one rejected assignment "
           "(restoration of batches is C05); asynchronous references are not enumerated")
    return B.result()
