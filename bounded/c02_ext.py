"""Helper of the bounded stand-in layer for C02: two further families of rejected assignments.

Family SEL (Selector / ListSelector with check_on_set=False that is ALSO constant or read-only, with
subscribers to the `objects` of the parameter)
    class T:  sel = Selector | ListSelector (objects list or dict, check_on_set=False, constant=True |
    readonly=True);  other, n = Integer;  objects t, u.  Subscribers (every subset of)
        wo   t.param.watch(cb, 'sel', what='objects')          (instance; also on u)
        co   T.param.watch(cb, 'sel', what='objects')          (class Parameter, before the instances exist)
        do   @param.depends('sel:objects', watch=True) method that does  self.other += 1
        dv   @param.depends('sel', watch=True) method that does  self.n += 1
    plus, always, a universal value watcher (onlychanged=False) on sel, other, n of t and u.
    History (<= 2 successful operations): the per-instance Parameter exists already, a legitimate
    objects.append (which MUST notify: it shows that the subscribers are live), a late objects watcher,
    a plain set of another parameter, a value installed under edit_constant.
    Rejected attempt: instance attribute, param.update (keywords / mapping / as a `with` context), the same
    inside batch_call_watchers / discard_events, class attribute (read-only only), with a candidate value
    not yet among the objects (one or two new items for a ListSelector), one that already is, a non-list.
    Oracle (statement): the attempt raises => no watcher of any kind was invoked (log unchanged), the value
    of every parameter of t, u and T as before, watcher tables as before, and the later probe trace
    (plain sets, legitimate objects changes on t and u) equals that of the control world.
    The list `objects` itself is NOT compared here: the pinned tree is known to append the candidate
    before the guard rejects (C02-b03, reported by the base family); this family looks at the
    notification and its knock-on effects only (events of `objects` are logged without old/new).

Family NB (a rejected call made INSIDE enclosing batches that already hold queued events)
    class P: a, b = Integer; x = Number(bounds); c constant; r read-only; h = a Number whose
    _post_setter runs a user callable (so that `t.param.update(a=.., h=..)` is an OUTER UPDATE whose
    body holds the queued event of a when the callable runs).  Subscribers: universal value watcher
    (onlychanged=False), a joint watcher of (a, b), @depends('a', watch=True) method.
    Context stacks of depth 1-2 over  B batch_call_watchers  D discard_events  U outer update;
    body = [successful sets before] ; REJECTED CALL (caught inside the body) ; [successful set after].
    Rejected calls: t.param.update(x=99) / ({'x': 'bad'}) / (c=5) / (r=5) / (x=99, b=8) (first key
    rejected, nothing applied), `with t.param.update(x=99)`, t.x = 99.
    Oracle: the log of watcher invocations is compared with the control world (same body without the
    rejected call) at every checkpoint: right after the call (nothing delivered early, nothing at all),
    after the following successful set (still queued: batching state as before), after each context
    exit (discard_events still drops, the batch delivers exactly what the control delivers) and after two
    later probes; values of all parameters equal at every checkpoint.
"""
import itertools

from bounded._api import REPLAY_HEADER

C_SEL_LOG = "C02/sel/no-watcher-invoked"
C_SEL_VAL = "C02/sel/values"
C_SEL_WAT = "C02/sel/watchers"
C_SEL_PRO = "C02/sel/propagation"
C_NB_LOG = "C02/nested-batch/no-watcher-invoked"
C_NB_VAL = "C02/nested-batch/values"
C_NB_CTL = "C02/nested-batch/trace==control"

RULE = ("; family SEL: (Selector|ListSelector, check_on_set=False, constant|readonly, list|dict objects) x "
        "subscriber subsets of `objects` (instance watcher, class watcher, depends('sel:objects') method changing "
        "another parameter, depends('sel') method) x history <= 2 x rejected attempt (instance / update kw / "
        "mapping / with / inside batch / inside discard / class) x candidate value; family NB: context stacks of "
        "depth <= 2 over batch_call_watchers / discard_events / outer update holding queued events x rejected call "
        "x following successful set, log compared with the control world at every checkpoint")

HARNESS_SRC = r'''
import warnings, logging
warnings.simplefilter('ignore')
import param
param.parameterized.get_logger().setLevel(100)
from param.parameterized import batch_call_watchers, discard_events

def grow(o, v):
    """A legitimate change of the objects of o's (or the class's) Parameter `sel`."""
    p = o.param.sel
    if p.names:
        p.objects['k%d' % v] = v
    else:
        p.objects.append(v)

# ------------------------------------------------------------------ family SEL
def make_sel_world(ptype, guard, named, subs):
    LOG = []
    objs = {'a': 1, 'b': 2} if named else [1, 2]
    kw = dict(objects=objs, check_on_set=False)
    kw[guard] = True
    if ptype == 'Selector':
        P = param.Selector(default=1, **kw)
    else:
        P = param.ListSelector(default=[1], **kw)
    def mk(label):
        def log(*events):
            for e in events:
                if e.what == 'value':
                    LOG.append((label, e.name, e.what, repr(e.old), repr(e.new)))
                else:
                    LOG.append((label, e.name, e.what))
        log.__qualname__ = 'log@' + label
        return log
    class T(param.Parameterized):
        sel = P
        other = param.Integer(0)
        n = param.Integer(0)
        if 'do' in subs:
            @param.depends('sel:objects', watch=True)
            def _on_objects(self):
                LOG.append((self.name, 'method@sel:objects'))
                self.other += 1
        if 'dv' in subs:
            @param.depends('sel', watch=True)
            def _on_value(self):
                LOG.append((self.name, 'method@sel'))
                self.n += 1
    if 'co' in subs:
        T.param.watch(mk('T/objects'), 'sel', what='objects')
    t = T(name='t'); u = T(name='u')
    for o in (t, u):
        o.param.watch(mk(o.name), ['sel', 'other', 'n'], onlychanged=False)
        if 'wo' in subs:
            o.param.watch(mk(o.name + '/objects'), 'sel', what='objects')
    return dict(param=param, T=T, t=t, u=u, LOG=LOG, cb2=mk('late/objects'), grow=grow,
                batch_call_watchers=batch_call_watchers, discard_events=discard_events)

def sel_values(ns):
    out = {}
    for k in ('t', 'u', 'T'):
        for n in ('sel', 'other', 'n'):
            out[k + '.' + n] = repr(getattr(ns[k], n))
    return out

def sel_watchers(ns):
    out = {}
    for k in ('t', 'u'):
        pv = ns[k]._param__private
        for n, d in pv.watchers.items():
            for what, lst in d.items():
                out['%s.%s/%s' % (k, n, what)] = len(lst)
        for n, p in pv.params.items():
            for what, lst in p.watchers.items():
                out['%s.param.%s/%s' % (k, n, what)] = len(lst)
    for n in ('sel', 'other', 'n'):
        for what, lst in ns['T'].param[n].watchers.items():
            out['T.%s/%s' % (n, what)] = len(lst)
    return {k: v for k, v in out.items() if v}

SEL_PROBES = ["t.other = 41", "grow(t, 55)", "grow(u, 56)", "u.n = 42"]

def run_sel(cfg, history, attempt):
    """cfg = (ptype, guard, named, subs).  -> dict(status, exc, effects{clause: text})"""
    worlds = []
    for i in range(2):
        ns = make_sel_world(*cfg)
        try:
            for h in history:
                exec(h, ns)
        except Exception as e:
            return dict(status='history-failed', exc=type(e).__name__ + ': ' + str(e))
        worlds.append(ns)
    w1, w2 = worlds
    v0, wt0, n0 = sel_values(w1), sel_watchers(w1), len(w1['LOG'])
    try:
        exec(attempt, w1)
        return dict(status='not-rejected')
    except Exception as e:
        exc = type(e).__name__
    effects = {}
    if len(w1['LOG']) != n0:
        effects['C02/sel/no-watcher-invoked'] = 'invoked during the rejected attempt: %r' % (w1['LOG'][n0:],)
    v1 = sel_values(w1)
    if v1 != v0:
        effects['C02/sel/values'] = ', '.join('%s: %s -> %s' % (k, v0[k], v1[k]) for k in sorted(v0) if v0[k] != v1[k])
    wt1 = sel_watchers(w1)
    if wt1 != wt0:
        effects['C02/sel/watchers'] = 'watcher tables %r -> %r' % (sorted(wt0.items()), sorted(wt1.items()))
    del w1['LOG'][n0:]                 # what the attempt itself logged is reported above
    tr = []
    for ns in (w1, w2):
        m = len(ns['LOG']); steps = []
        for stmt in SEL_PROBES:
            try:
                exec(stmt, ns); e2 = None
            except Exception as e:
                e2 = type(e).__name__
            steps.append((stmt, e2, tuple(ns['LOG'][m:])))
            m = len(ns['LOG'])
        tr.append(steps)
    if not effects:                    # knock-on differences are only attributable when the attempt looked clean
        for a, b in zip(*tr):
            if a != b:
                effects['C02/sel/propagation'] = 'after probe `%s`: rejected world %r, control world %r' % (a[0], a[1:], b[1:])
                break
    return dict(status='checked', exc=exc, effects=effects)

# ------------------------------------------------------------------ family NB
def make_nb_world():
    LOG = []
    HOOK = []
    class Hooked(param.Number):
        def _post_setter(self, obj, val):
            if HOOK and obj is not None:
                fn = HOOK.pop()
                fn()
    class P(param.Parameterized):
        a = param.Integer(0)
        b = param.Integer(0)
        x = param.Number(1, bounds=(0, 10))
        c = param.Number(3.5, constant=True)
        r = param.Number(4.5, readonly=True)
        h = Hooked(0)
        @param.depends('a', watch=True)
        def _on_a(self):
            LOG.append(('method@a', self.a))
    t = P(name='t')
    def uni(*events):
        for e in events:
            LOG.append(('uni', e.name, repr(e.old), repr(e.new), e.type))
    def joint(*events):
        LOG.append(('joint',) + tuple((e.name, repr(e.old), repr(e.new)) for e in events))
    t.param.watch(uni, ['a', 'b', 'x', 'c', 'r', 'h'], onlychanged=False)
    t.param.watch(joint, ['a', 'b'])
    return dict(param=param, P=P, t=t, LOG=LOG, HOOK=HOOK,
                batch_call_watchers=batch_call_watchers, discard_events=discard_events)

def nb_values(ns):
    t = ns['t']
    return tuple(repr(getattr(t, n)) for n in ('a', 'b', 'x', 'c', 'r'))

def nb_program(stack, pre, attempt, post):
    """Run in namespace ns: nested contexts `stack` (outermost first); the i-th context body starts with the
    successful statement pre[i]; the innermost body continues with the attempt (under try/except, None in the
    control world) and the successful statement `post`; CHECK(label) records a checkpoint."""
    def body(ns, i, attempt, CHECK, status):
        if i == len(stack):
            if attempt is not None:
                CHECK('before')
                try:
                    exec(attempt, ns)
                    status.append('not-rejected')
                except Exception as e:
                    status.append(type(e).__name__)
                CHECK('after-attempt')
            else:
                CHECK('before'); CHECK('after-attempt')
            if post:
                exec(post, ns)
            CHECK('after-post')
            return
        kind = stack[i]
        t = ns['t']
        if kind == 'B':
            with batch_call_watchers(t):
                if pre[i]: exec(pre[i], ns)
                body(ns, i + 1, attempt, CHECK, status)
        elif kind == 'D':
            with discard_events(t):
                if pre[i]: exec(pre[i], ns)
                body(ns, i + 1, attempt, CHECK, status)
        elif kind == 'U':
            ns['HOOK'].append(lambda: body(ns, i + 1, attempt, CHECK, status))
            kw = {}
            if pre[i]:
                name, val = pre[i].replace('t.', '').split(' = ')
                kw[name] = int(val)
            kw['h'] = t.h + 1
            t.param.update(**kw)
        CHECK('exit-%d' % i)
    return body

NB_PROBES = ["t.b = 70", "t.a = 71"]

def run_nb(stack, pre, attempt, post):
    traces = []; status = []
    for att in (attempt, None):
        ns = make_nb_world()
        marks = []
        def CHECK(label, ns=ns, marks=marks):
            marks.append((label, tuple(ns['LOG']), nb_values(ns)))
        st = []
        try:
            nb_program(stack, pre, att, post)(ns, 0, att, CHECK, st)
        except Exception as e:
            return dict(status='history-failed', exc=type(e).__name__ + ': ' + str(e))
        for p in NB_PROBES:
            exec(p, ns)
            CHECK('probe `%s`' % p)
        traces.append(marks)
        status.append(st)
    if status[0] != [] and status[0][0] == 'not-rejected':
        return dict(status='not-rejected')
    w1, w2 = traces
    effects = {}
    d1 = dict((m[0], m) for m in w1)
    if d1['after-attempt'][1] != d1['before'][1]:
        effects['C02/nested-batch/no-watcher-invoked'] = 'invoked during the rejected call: %r' % (
            d1['after-attempt'][1][len(d1['before'][1]):],)
    if d1['after-attempt'][2] != d1['before'][2]:
        effects['C02/nested-batch/values'] = 'values (a,b,x,c,r) %r -> %r' % (d1['before'][2], d1['after-attempt'][2])
    if not effects:
        for m1, m2 in zip(w1, w2):
            if m1 != m2:
                what = 'values %r, control %r' % (m1[2], m2[2]) if m1[2] != m2[2] else \
                       'log %r, control %r' % (m1[1], m2[1])
                effects['C02/nested-batch/trace==control'] = 'at checkpoint %s: %s' % (m1[0], what)
                effects['@checkpoint'] = m1[0].split(' ')[0]
                break
    return dict(status='checked', exc=status[0][0] if status[0] else None, effects=effects)
'''

# ---------------------------------------------------------------------------------------------
# family SEL: enumeration
# ---------------------------------------------------------------------------------------------
SUBS = ["wo", "co", "do", "dv"]
SEL_HISTORY = [
    ("touch", "t.param.sel"),
    ("objs-grow", "grow(t, 7)"),
    ("late-watch", "t.param.watch(cb2, 'sel', what='objects')"),
    ("other=5", "t.other = 5"),
    ("edit-const", "exec('with param.edit_constant(t):\\n    t.sel = VAL2')"),
    ("u-objs-grow", "grow(u, 8)"),
]
SEL_ROUTES = [
    ("instance", "t.sel = VAL"),
    ("update", "t.param.update(sel=VAL)"),
    ("update-map", "t.param.update({'sel': VAL})"),
    ("update-with", "exec('with t.param.update(sel=VAL):\\n    pass')"),
    ("batch", "exec('with batch_call_watchers(t):\\n    t.sel = VAL')"),
    ("batch-update", "exec('with batch_call_watchers(t):\\n    t.param.update(sel=VAL)')"),
    ("discard", "exec('with discard_events(t):\\n    t.sel = VAL')"),
    ("class", "T.sel = VAL"),
]
SEL_VALUES = {
    "Selector": [("new", "99"), ("member", "2"), ("current", "1")],
    "ListSelector": [("new", "[99]"), ("old+new", "[1, 99]"), ("two-new", "[98, 99]"), ("member", "[2]"),
                     ("non-list", "99")],
}
VAL2 = {"Selector": "2", "ListSelector": "[2]"}


def sel_cases(tier, seed):
    """-> list of (cfg, hist(tuple of (name, stmt)), route, vname, attempt-stmt)"""
    out = []
    subsets = [tuple(s for s, bit in zip(SUBS, bits) if bit) for bits in itertools.product((0, 1), repeat=4)]
    hists = [()] + [(h,) for h in SEL_HISTORY] + [p for p in itertools.permutations(SEL_HISTORY, 2)]
    idx = 0
    for ptype in ("Selector", "ListSelector"):
        for guard in ("constant", "readonly"):
            for named in (False, True):
                for subs in subsets:
                    for hist in hists:
                        for route, tmpl in SEL_ROUTES:
                            for vname, val in SEL_VALUES[ptype]:
                                idx += 1
                                if tier == "quick":
                                    # full product over (ptype, guard, subs, route) with new-candidate values and the empty
                                    # history (length 1: single / all subscribers, 3 routes) on list objects; rest 1 in 41
                                    core = (not named and vname in ("new", "old+new") and
                                            (len(hist) == 0 or (len(hist) == 1 and len(subs) in (1, 4)
                                                                and route in ("instance", "update", "batch"))))
                                    if not core and (idx + seed) % 41:
                                        continue
                                elif len(hist) == 2 and (vname not in ("new", "old+new", "two-new") or
                                                         route not in ("instance", "update", "batch")):
                                    continue        # outside the bound of the thorough tier (see bound_text)
                                hs = tuple((n, s.replace("VAL2", VAL2[ptype])) for n, s in hist)
                                out.append(((ptype, guard, named, subs), hs, route, vname, tmpl.replace("VAL", val)))
    return out


# ---------------------------------------------------------------------------------------------
# family NB: enumeration
# ---------------------------------------------------------------------------------------------
NB_STACKS = ["B", "D", "U", "BB", "BD", "DB", "DD", "BU", "DU"]
NB_PRE = ["", "t.a = 1", "t.b = 2"]
NB_ATTEMPTS = [
    ("update(x=99)", "t.param.update(x=99)"),
    ("update({'x':'bad'})", "t.param.update({'x': 'bad'})"),
    ("update(c=5)", "t.param.update(c=5)"),
    ("update(r=5)", "t.param.update(r=5)"),
    ("update(x=99,b=8)", "t.param.update(x=99, b=8)"),
    ("with-update(x=99)", "exec('with t.param.update(x=99):\\n    pass')"),
    ("x=99", "t.x = 99"),
    ("c=5", "t.c = 5"),
]
NB_POST = ["", "t.a = 3", "t.b = 4"]


def nb_cases(tier, seed):
    out = []
    idx = 0
    for stack in NB_STACKS:
        for pre in itertools.product(NB_PRE, repeat=len(stack)):
            if not any(pre):
                continue                    # nothing queued when the call is made: base family
            for aname, att in NB_ATTEMPTS:
                for post in NB_POST:
                    idx += 1
                    if tier == "quick" and len(stack) == 2 and (idx + seed) % 3:
                        continue
                    out.append((stack, pre, aname, att, post))
    return out


def tasks(tier, seed):
    return [("SEL", c) for c in sel_cases(tier, seed)] + [("NB", c) for c in nb_cases(tier, seed)]


def bound_text(tier):
    return ("family SEL: 2 parameter types x 2 guards x list/dict objects x 16 subscriber subsets x histories of "
            "length <= 2 over %d operations x %d routes x 3-5 candidate values (%s); family NB: %d context stacks "
            "(depth <= 2 over B/D/U) x queued sets before x %d rejected calls x %d following sets (%s)"
            % (len(SEL_HISTORY), len(SEL_ROUTES),
               "quick: full product for list objects, history <= 1, new candidates; rest 1 in 41" if tier == "quick"
               else "full for histories of length <= 1; length 2: routes instance / update / batch with the new candidates",
               len(NB_STACKS), len(NB_ATTEMPTS), len(NB_POST),
               "quick: depth-2 stacks 1 in 3" if tier == "quick" else "full"))


_H = None


def harness():
    global _H
    if _H is None:
        ns = {"__name__": "c02_ext_harness"}
        exec(compile(HARNESS_SRC, "<c02_ext harness>", "exec"), ns)
        _H = ns
    return _H


def run_chunk(chunk):
    import logging
    import warnings
    warnings.simplefilter("ignore")
    logging.getLogger("param").setLevel(logging.CRITICAL + 1)
    H = harness()
    out = []
    for fam, c in chunk:
        if fam == "SEL":
            cfg, hist, route, vname, att = c
            r = H["run_sel"](cfg, [s for _, s in hist], att)
        else:
            stack, pre, aname, att, post = c
            r = H["run_nb"](stack, list(pre), att, post)
        out.append((fam, c, r))
    return out


def key_of(fam, c):
    if fam == "SEL":
        (ptype, guard, named, subs), hist, route, vname, att = c
        return "family=SEL ptype=%s guard=%s objects=%s subs=%s route=%s value=%s hist=[%s]" % (
            ptype, guard, "dict" if named else "list", "+".join(subs) or "-", route, vname,
            ",".join(n for n, _ in hist))
    stack, pre, aname, att, post = c
    return "family=NB stack=%s queued=[%s] call=%s then=%s" % (
        stack, ";".join(p.replace(" ", "") for p in pre), aname, post.replace(" ", "") or "-")


def clauses_of(fam):
    return (C_SEL_LOG, C_SEL_VAL, C_SEL_WAT, C_SEL_PRO) if fam == "SEL" else (C_NB_LOG, C_NB_VAL, C_NB_CTL)


def _rank(fam, c):
    """Smaller = simpler configuration (the one reported for a class of failing cases)."""
    if fam == "SEL":
        (ptype, guard, named, subs), hist, route, vname, att = c
        return (len(hist), len(subs), named, [r for r, _ in SEL_ROUTES].index(route), ptype != "Selector",
                vname != "new", subs, tuple(n for n, _ in hist), vname)
    stack, pre, aname, att, post = c
    return (len(stack), sum(1 for p in pre if p), bool(post), NB_STACKS.index(stack),
            [a for a, _ in NB_ATTEMPTS].index(aname), pre, post)


def make_replay(fam, c, clause, witness):
    head = REPLAY_HEADER.format(prop="C02", name="replay_c02.py", clause=clause, witness=witness)
    if fam == "SEL":
        cfg, hist, route, vname, att = c
        body = '''
cfg = %r
history = %r
attempt = %r
r = run_sel(cfg, history, attempt)
print('world   : ptype=%%s guard=%%s named-objects=%%s subscribers=%%s' %% cfg)
print('history :', history)
print('attempt :', attempt, '-> status', r['status'], r.get('exc', ''))
''' % (cfg, [s for _, s in hist], att)
    else:
        stack, pre, aname, att, post = c
        body = '''
stack, pre, attempt, post = %r, %r, %r, %r
r = run_nb(stack, pre, attempt, post)
print('contexts (outermost first; B batch_call_watchers, D discard_events, U outer update):', stack)
print('successful sets at the start of each body:', pre, ' rejected call:', attempt, ' then:', post or '-')
print('status', r['status'], r.get('exc', ''))
''' % (stack, list(pre), att, post)
    tail = '''
eff = {k: v for k, v in r.get('effects', {}).items() if not k.startswith('@')}
for k, v in eff.items():
    print('   ', k, ':', v)
if r['status'] == 'checked' and %r in eff:
    print('REPRODUCED: the rejected call had observable effects:', ', '.join(eff)); sys.exit(1)
print('NOT-REPRODUCED'); sys.exit(0)
''' % clause
    return head + HARNESS_SRC + body + tail


def reports(results):
    """results: list of (fam, case, r) -> (violations [(clause, witness, detail, replay, count)], stats)"""
    groups = {}
    for fam, c, r in results:
        if r["status"] != "checked":
            continue
        for clause, text in r["effects"].items():
            if clause.startswith("@"):
                continue
            if fam == "SEL":
                (ptype, guard, named, subs), hist, route, vname, att = c
                cls = (clause, "SEL", guard, "in-batch" if route in ("batch", "batch-update", "discard") else
                       "class" if route == "class" else "direct")
            else:
                stack, pre, aname, att, post = c
                cls = (clause, "NB", stack[-1], r["effects"].get("@checkpoint", "-"))
            cur = groups.get(cls)
            rk = _rank(fam, c)
            if cur is None:
                groups[cls] = [rk, fam, c, text, 1]
            else:
                cur[4] += 1
                if rk < cur[0]:
                    cur[0:4] = [rk, fam, c, text]
    out = []
    for cls in sorted(groups, key=repr):
        rk, fam, c, text, count = groups[cls]
        clause = cls[0]
        witness = key_of(fam, c) + " class=" + ":".join(str(x) for x in cls[2:])
        out.append((clause, witness, "%d cases in this class; simplest shown. %s" % (count, text),
                    make_replay(fam, c, clause, witness), count))
    return out
