"""Helper of the bounded stand-in layer for C02: family FW -- the rejected assignment comes AFTER a history in
which earlier operations FAILED inside a watcher.

World
    class S: w = Number(99);  class P: a, b Integer; x Number(bounds=(0,10), allow_refs); c constant; r read-only;
    objects s, t.  The HOLDER of the watchers and of the history is the instance t or the class P.
    Watcher set of the holder (registered in the listed order, every watcher logs its invocation first):
        rec        records only
        raise      records, then raises Boom
        set        records, then assigns  holder.b += 100            (watches `a` only)
        set-raise  records, assigns holder.b += 100, then raises Boom (watches `a` only)
    each with its parameter names, precedence 0/1/2, queued False/True, onlychanged True/False.  A configuration =
    one failing watcher F (kind x names x precedence x queued) placed first or last in registration order among one
    of two recorder sets (one joint recorder (a,b) precedence 1 | recorder (a) precedence 0 + every-set recorder
    (a,b,x) precedence 2), optionally a second watcher (a raising one on b, a queued non-raising setter on a):
    the failing watcher runs before all, between, or after all the others.  Every other object (t or P, and s) carries
    a universal every-set recorder.
History (<= 2 quick / <= 3 thorough operations on the holder, each under try/except Boom, i.e. an operation may
    FAIL inside a watcher -- that is the dimension): plain set of a / b / x, param.update (one key, two keys),
    batch_call_watchers body with two sets, param.trigger (one / two names), `with param.update(..)`, update inside
    a batch, a set inside discard_events.  Values are fresh at every step (every set is a change).
Rejected attempt: every route -- instance attribute (invalid value, wrong type, constant, read-only, invalid-valued
    reference), param.update (keywords / mapping / first of two keys / `with` / reference / constant / read-only),
    class attribute, class-level update.
Oracle (statement): the attempt raises => no watcher of any object has been invoked (log unchanged), values of
    every parameter of s, t, P (stored and read) as before, watcher tables of every object as before (same
    watcher objects per parameter and `what`), references as before; and the later probe trace (sets, update and
    trigger on the holder, a set on t: exception, values, invocations) equals that of the control world in which
    the same history ran and the attempt was not made.  Nothing here depends on what a failing watcher is
    supposed to leave behind: both worlds went through the same failures.
"""
import itertools
import re

from bounded._api import REPLAY_HEADER

C_FW_LOG = "C02/failed-history/no-watcher-invoked"
C_FW_VAL = "C02/failed-history/values"
C_FW_WAT = "C02/failed-history/watchers"
C_FW_REF = "C02/failed-history/refs"
C_FW_CTL = "C02/failed-history/trace==control"
FW_CLAUSES = (C_FW_LOG, C_FW_VAL, C_FW_WAT, C_FW_REF, C_FW_CTL)

RULE = ("; family FW: holder (instance | class) x watcher set (failing watcher: raises | assigns-then-raises, on a / b / "
        "(a,b), precedence 0-2, queued or not, registered before or after the recorders; 2 recorder sets; optional second "
        "raising watcher / queued setter) x history of operations that may FAIL inside a watcher (plain set, update, batch, "
        "trigger, with-update, update in batch, discard_events) x rejected attempt on every route; log, values, watcher "
        "tables, refs before == after, later probe trace == control world (same history, no attempt)")

HARNESS_SRC = r'''
import warnings, logging
warnings.simplefilter('ignore')
import param
param.parameterized.get_logger().setLevel(100)
from param.parameterized import batch_call_watchers, discard_events

class Boom(RuntimeError):
    pass

FW_NAMES = ('a', 'b', 'x', 'c', 'r')

def wlabel(i, spec):
    kind, names, prec, queued, oc = spec
    return 'w%d:%s(%s)p%dq%d%s' % (i, kind, ','.join(names), prec, queued, '' if oc else 'all')

class S(param.Parameterized):       # (source of the invalid-valued reference; nothing ever assigns to the class)
    w = param.Number(default=99)

def make_fw_world(wcfg, holder):
    """wcfg: tuple of (kind, names, precedence, queued, onlychanged) registered in this order on the holder."""
    LOG = []
    class P(param.Parameterized):
        a = param.Integer(default=0)
        b = param.Integer(default=0)
        x = param.Number(default=1, bounds=(0, 10), allow_refs=True)
        c = param.Number(default=3.5, constant=True)
        r = param.Number(default=4.5, readonly=True)
    s = S(name='s'); t = P(name='t')
    ns = dict(param=param, S=S, P=P, s=s, t=t, LOG=LOG, Boom=Boom,
              batch_call_watchers=batch_call_watchers, discard_events=discard_events)
    H = ns['H'] = t if holder == 't' else P
    def mk(i, spec):
        kind = spec[0]
        label = wlabel(i, spec)
        def fn(*events):
            LOG.append((label,) + tuple((e.name, repr(e.old), repr(e.new), e.type) for e in events))
            if kind in ('set', 'set-raise'):
                H.b = H.b + 100
            if kind in ('raise', 'set-raise'):
                raise Boom(label)
        fn.__qualname__ = label
        return fn
    def uni(label):
        def fn(*events):
            LOG.append((label,) + tuple((e.name, repr(e.old), repr(e.new), e.type) for e in events))
        fn.__qualname__ = label
        return fn
    for i, spec in enumerate(wcfg):
        kind, names, prec, queued, oc = spec
        H.param.watch(mk(i, spec), list(names), precedence=prec, queued=bool(queued), onlychanged=bool(oc))
    if H is not t:
        t.param.watch(uni('uni@t'), list(FW_NAMES), onlychanged=False, precedence=3)
    if H is not P:
        P.param.watch(uni('uni@P'), list(FW_NAMES), onlychanged=False, precedence=3)
    s.param.watch(uni('uni@s'), ['w'], onlychanged=False)
    return ns

def fw_step(ns, stmt):
    """One operation of the history / one probe: -> name of the exception or None."""
    try:
        exec(stmt, ns)
        return None
    except Exception as e:
        return type(e).__name__

def wtable(o):
    out = {}
    if isinstance(o, type):
        for n in o.param:
            for K in o.__mro__:
                p = K.__dict__.get(n)
                if isinstance(p, param.Parameter):
                    for what, lst in p.watchers.items():
                        if lst:
                            out['%s/%s' % (n, what)] = [(id(w), w.fn.__qualname__) for w in lst]
                    break
        return out
    for n, d in o._param__private.watchers.items():
        for what, lst in d.items():
            if lst:
                out['%s/%s' % (n, what)] = [(id(w), w.fn.__qualname__) for w in lst]
    return out

def fw_values(ns):
    out = {}
    for k in ('t', 'P'):
        o = ns[k]
        for n in FW_NAMES:
            out['%s.%s' % (k, n)] = repr(getattr(o, n))
        if k != 'P':
            for n, v in o._param__private.values.items():
                if n != 'name':
                    out['%s.%s(stored)' % (k, n)] = repr(v)
    out['s.w'] = repr(ns['s'].w)
    return out

def fw_snapshot(ns):
    snap = {'values': fw_values(ns), 'watchers': {}, 'refs': {}, 'log': len(ns['LOG'])}
    for k in ('s', 't', 'S', 'P'):
        for key, lst in wtable(ns[k]).items():
            snap['watchers']['%s.%s' % (k, key)] = lst
    for k in ('t',):
        pv = ns[k]._param__private
        for n, r in pv.refs.items():
            snap['refs']['%s.refs[%s]' % (k, n)] = id(r)
        snap['refs']['%s.ref_watchers' % k] = len(pv.ref_watchers)
        snap['refs']['%s.async_refs' % k] = sorted(pv.async_refs)
    return snap

FW_PROBES = ["H.b = 70", "H.a = 71", "t.x = 3", "H.param.update(a=72, b=73)", "H.param.trigger('a')", "H.a = 74"]

def fw_probe(ns):
    trace = []
    n0 = len(ns['LOG'])
    for stmt in FW_PROBES:
        exc = fw_step(ns, stmt)
        trace.append((stmt, exc, tuple(sorted(fw_values(ns).items())), tuple(ns['LOG'][n0:])))
        n0 = len(ns['LOG'])
    return trace

def fw_history(wcfg, holder, history):
    """-> (namespace, [exception name | None per operation]) or (None, text) when an operation raised something
    other than the watchers' own Boom."""
    ns = make_fw_world(wcfg, holder)
    excs = []
    for h in history:
        exc = fw_step(ns, h)
        if exc not in (None, 'Boom'):
            return None, '%s in `%s`' % (exc, h)
        excs.append(exc)
    return ns, excs

def invoked_summary(entries):
    """('w1:rec(a,b)p1q0', ('b', ..)) -> 'w1:rec(a,b)p1q0<b>' (which watcher got events of which parameters)."""
    return ';'.join('%s<%s>' % (e[0], ','.join(ev[0] for ev in e[1:])) for e in entries)

def run_fw(wcfg, holder, history, prepare, attempt, control=None):
    """-> dict(status, exc, effects{clause: text}, failed=[...]).  `control`: probe trace of the control world if
    the caller has it already (same wcfg, holder, history)."""
    ns, excs = fw_history(wcfg, holder, history)
    if ns is None:
        return dict(status='history-failed', exc=excs)
    if prepare:
        exec(prepare, ns)
    before = fw_snapshot(ns)
    try:
        exec(attempt, ns)
        return dict(status='not-rejected', failed=excs)
    except Exception as e:
        exc = type(e).__name__
    after = fw_snapshot(ns)
    effects = {}
    if before['log'] != after['log']:
        new = ns['LOG'][before['log']:]
        effects['C02/failed-history/no-watcher-invoked'] = 'invoked during the rejected attempt: %r' % (new,)
        effects['@invoked'] = invoked_summary(new)
        del ns['LOG'][before['log']:]
    d = ['%s: %s -> %s' % (k, before['values'].get(k), after['values'].get(k))
         for k in sorted(set(before['values']) | set(after['values'])) if before['values'].get(k) != after['values'].get(k)]
    if d:
        effects['C02/failed-history/values'] = '; '.join(d)
    d = ['%s: %r -> %r' % (k, [q for _, q in before['watchers'].get(k, [])], [q for _, q in after['watchers'].get(k, [])])
         for k in sorted(set(before['watchers']) | set(after['watchers']))
         if before['watchers'].get(k) != after['watchers'].get(k)]
    if d:
        effects['C02/failed-history/watchers'] = '; '.join(d)
    d = [k for k in sorted(set(before['refs']) | set(after['refs'])) if before['refs'].get(k) != after['refs'].get(k)]
    if d:
        effects['C02/failed-history/refs'] = '; '.join(
            '%s %s' % (k, 'added' if k not in before['refs'] else 'removed' if k not in after['refs'] else 'changed') for k in d)
    if not effects:
        if control is None:
            ns2, _ = fw_history(wcfg, holder, history)
            if prepare:
                exec(prepare, ns2)
            control = fw_probe(ns2)
        for a, b in zip(fw_probe(ns), control):
            if a != b:
                dv = ['%s: %s (control %s)' % (k, v, dict(b[2]).get(k)) for k, v in a[2] if dict(b[2]).get(k) != v]
                effects['C02/failed-history/trace==control'] = (
                    'after probe `%s`: rejected world exc=%s values %s invoked %r; control world exc=%s invoked %r'
                    % (a[0], a[1], dv, a[3], b[1], b[3]))
                effects['@probe'] = a[0].replace(' ', '')
                break
    return dict(status='checked', exc=exc, effects=effects, failed=excs)

def fw_control(wcfg, holder, history, prepare):
    ns2, excs = fw_history(wcfg, holder, history)
    if ns2 is None:
        return None
    if prepare:
        exec(prepare, ns2)
    return fw_probe(ns2)
'''

# ---------------------------------------------------------------------------------------------
# enumeration: watcher sets
# ---------------------------------------------------------------------------------------------
RECORDERS = [
    (("rec", ("a", "b"), 1, 0, 1),),
    (("rec", ("a",), 0, 0, 1), ("rec", ("a", "b", "x"), 2, 0, 0)),
]
FAILING = [("raise", ("a",)), ("raise", ("b",)), ("raise", ("a", "b")), ("set-raise", ("a",))]
SECOND = [None, ("raise", ("b",), 1, 0, 1), ("set", ("a",), 0, 1, 1)]


def watcher_configs():
    """-> list of (wcfg, core) ; core = part of the quick tier's full product."""
    out = []
    for fkind, fnames in FAILING:
        for prec in (0, 1, 2):
            for queued in (0, 1):
                for order in ("first", "last"):
                    for ri, recs in enumerate(RECORDERS):
                        for si, second in enumerate(SECOND):
                            if second is not None and second[0] == "raise" and fnames == ("b",):
                                continue
                            f = (fkind, fnames, prec, queued, 1)
                            ws = ((f,) + recs) if order == "first" else (recs + (f,))
                            if second is not None:
                                ws = ws + (second,)
                            # core: every failing watcher x precedence x order x recorder set, not queued (queued: the
                            # assigning watcher, for which it matters), no second watcher; the second watchers on the
                            # first recorder set with the failing watcher registered first
                            core = (second is None and (queued == 0 or fkind == "set-raise")) or \
                                   (second is not None and ri == 0 and order == "first" and queued == 0 and prec != 2)
                            out.append((ws, core))
    return out


# ---------------------------------------------------------------------------------------------
# enumeration: histories (templates over the holder H and a fresh value N) and rejected attempts
# ---------------------------------------------------------------------------------------------
FW_OPS = [
    ("upd-a", "H.param.update(a=N)"),
    ("set-a", "H.a = N"),
    ("batch-ab", "with batch_call_watchers(H):\n    H.a = N\n    H.b = N"),
    ("trig-a", "H.param.trigger('a')"),
    ("upd-ab", "H.param.update(a=N, b=N)"),
    ("set-b", "H.b = N"),
    ("with-upd-a", "with H.param.update(a=N):\n    pass"),
    ("batch-upd", "with batch_call_watchers(H):\n    H.param.update(a=N)\n    H.b = N"),
    ("trig-ab", "H.param.trigger('a', 'b')"),
    ("discard-a", "with discard_events(H):\n    H.a = N"),
    ("set-x", "H.x = N"),
]
QUICK_OPS = ("upd-a", "set-a", "batch-ab", "trig-a", "upd-ab", "set-b", "with-upd-a", "batch-upd")

# (id, route class, target, prepare, attempt)
FW_ATTEMPTS = [
    ("t.x=99", "instance", "t", "", "t.x = 99"),
    ("t.update(x=99)", "update", "t", "", "t.param.update(x=99)"),
    ("t.update({'x':'bad'})", "update", "t", "", "t.param.update({'x': 'bad'})"),
    ("t.update(c=5)", "update", "t", "", "t.param.update(c=5)"),
    ("t.update(r=5)", "update", "t", "", "t.param.update(r=5)"),
    ("t.update(x=99,b=8)", "update", "t", "", "t.param.update(x=99, b=8)"),
    ("with-t.update(x=99)", "update", "t", "", "with t.param.update(x=99):\n    pass"),
    ("t.update(x=s.w)", "update", "t", "REF = s.param.w", "t.param.update(x=REF)"),
    ("t.x='bad'", "instance", "t", "", "t.x = 'bad'"),
    ("t.c=5", "instance", "t", "", "t.c = 5"),
    ("t.r=5", "instance", "t", "", "t.r = 5"),
    ("t.x=s.w", "instance", "t", "REF = s.param.w", "t.x = REF"),
    ("P.x=99", "class", "P", "", "P.x = 99"),
    ("P.update(x=99)", "class-update", "P", "", "P.param.update(x=99)"),
    ("P.update({'x':'bad'})", "class-update", "P", "", "P.param.update({'x': 'bad'})"),
    ("P.update(r=5)", "class-update", "P", "", "P.param.update(r=5)"),
    ("P.update(x=99,b=8)", "class-update", "P", "", "P.param.update(x=99, b=8)"),
    ("with-P.update(x=99)", "class-update", "P", "", "with P.param.update(x=99):\n    pass"),
    ("P.r=5", "class", "P", "", "P.r = 5"),
    ("P.x='bad'", "class", "P", "", "P.x = 'bad'"),
]
CROSS_ATTEMPTS = ("t.x=99", "t.update(x=99)", "P.x=99", "P.update(x=99)")
KEY_ATTEMPTS = CROSS_ATTEMPTS + ("t.update(x=99,b=8)", "with-t.update(x=99)", "t.update(x=s.w)", "t.c=5", "P.update(x=99,b=8)",
                                 "with-P.update(x=99)", "P.r=5")


def hist_stmts(hist):
    """Instantiate the templates: the k-th operation uses the fresh value k+1 (x: k+2, inside its bounds)."""
    ops = dict(FW_OPS)
    return [ops[h].replace("N", str(i + 1 if h != "set-x" else i + 2)) for i, h in enumerate(hist)]


def fw_groups(tier, seed):
    """-> list of (wcfg, holder, hist(tuple of op names), [attempt ids])  -- one control world per group."""
    out = []
    names = [n for n, _ in FW_OPS]
    idx = 0
    for wcfg, core in watcher_configs():
        for holder in ("t", "P"):
            own = [a[0] for a in FW_ATTEMPTS if a[2] == holder]
            cross = [a[0] for a in FW_ATTEMPTS if a[2] != holder and a[0] in CROSS_ATTEMPTS]
            if tier == "quick":
                key = [a for a in own if a in KEY_ATTEMPTS]
                h1 = [(n,) for n in QUICK_OPS]
                h2 = [p for p in itertools.product(QUICK_OPS, repeat=2)]
                for hist in h1 + h2:
                    idx += 1
                    if len(hist) == 1:
                        if core:
                            out.append((wcfg, holder, hist, (own + cross) if (idx + seed) % 4 == 0 else key))
                        elif (idx + seed) % 8 == 0:
                            out.append((wcfg, holder, hist, key))
                    elif core and (idx + seed) % 11 == 0:
                        out.append((wcfg, holder, hist, [a for a in own if a in CROSS_ATTEMPTS]))
            else:
                for n in (1, 2, 3):
                    for hist in itertools.product(names, repeat=n):
                        idx += 1
                        if n == 1:
                            out.append((wcfg, holder, hist, own + cross))
                        elif n == 2:
                            if core:
                                out.append((wcfg, holder, hist, [a for a in own if a in KEY_ATTEMPTS]))
                            elif (idx + seed) % 5 == 0:
                                out.append((wcfg, holder, hist, [a for a in own if a in CROSS_ATTEMPTS]))
                        elif core and (idx + seed) % 23 == 0:
                            out.append((wcfg, holder, hist, [a for a in own if a in CROSS_ATTEMPTS]))
    return out


def tasks(tier, seed):
    return [("FW", g) for g in fw_groups(tier, seed)]


def ncases(tier, seed=0):
    return sum(len(g[3]) for g in fw_groups(tier, seed))


def bound_text(tier):
    nconf = len(watcher_configs())
    ncore = sum(1 for _, c in watcher_configs() if c)
    return ("family FW: 2 holders (instance t | class P) x %d watcher sets (%d core) x histories over %d operations that may "
            "fail inside a watcher x %d rejected attempts on routes instance / update / class / class-update (%s)"
            % (nconf, ncore, len(FW_OPS), len(FW_ATTEMPTS),
               "quick: %d operations; core sets: every history of length 1 x the key attempts of the holder's routes (1 in 4: "
               "every attempt + 4 on the other side), histories of length 2: 1 in 11 x 2 attempts; other sets: length 1, 1 in 8 x "
               "key attempts" % len(QUICK_OPS)
               if tier == "quick" else
               "every history of length 1 x every attempt; length 2: core sets x the key attempts of the holder's routes, other sets 1 in 5 x 2 attempts; "
               "length 3: core sets 1 in 23 x 2 attempts"))


_H = None


def harness():
    global _H
    if _H is None:
        ns = {"__name__": "c02_fail_harness"}
        exec(compile(HARNESS_SRC, "<c02_fail harness>", "exec"), ns)
        _H = ns
    return _H


_ATT = {a[0]: a for a in FW_ATTEMPTS}


def run_chunk(chunk):
    """chunk: [("FW", group)] -> [("FW", case, result)] with case = (wcfg, holder, hist, attempt id)."""
    import logging
    import warnings
    warnings.simplefilter("ignore")
    logging.getLogger("param").setLevel(logging.CRITICAL + 1)
    H = harness()
    out = []
    for fam, (wcfg, holder, hist, aids) in chunk:
        stmts = hist_stmts(hist)
        controls = {}
        for aid in aids:
            _, route, target, prep, att = _ATT[aid]
            if prep not in controls:
                controls[prep] = H["fw_control"](wcfg, holder, stmts, prep)
            r = H["run_fw"](wcfg, holder, stmts, prep, att, controls[prep])
            out.append((fam, (wcfg, holder, hist, aid), r))
    return out


def wtext(spec):
    kind, names, prec, queued, oc = spec
    return "%s(%s)p%dq%d%s" % (kind, ",".join(names), prec, queued, "" if oc else "all")


def key_of(fam, c):
    wcfg, holder, hist, aid = c
    return "family=FW holder=%s watchers=[%s] hist=[%s] attempt=%s" % (
        "instance" if holder == "t" else "class", ";".join(wtext(w) for w in wcfg), ",".join(hist), aid)


def clauses_of(fam):
    return FW_CLAUSES


def _rank(c):
    wcfg, holder, hist, aid = c
    return (len(hist), len(wcfg), holder != "t", sum(w[3] for w in wcfg), [a[0] for a in FW_ATTEMPTS].index(aid),
            [n for n, _ in FW_OPS].index(hist[0]) if hist else -1, repr(wcfg), hist)


def make_replay(fam, c, clause, witness):
    wcfg, holder, hist, aid = c
    _, route, target, prep, att = _ATT[aid]
    head = REPLAY_HEADER.format(prop="C02", name="replay_c02.py", clause=clause, witness=witness)
    body = '''
wcfg, holder, history, prepare, attempt = %r, %r, %r, %r, %r
r = run_fw(wcfg, holder, history, prepare, attempt)
print('holder (H) :', 'instance t' if holder == 't' else 'class P')
print('watchers   :', [wlabel(i, w) for i, w in enumerate(wcfg)], '(kind(names) precedence queued; registered in this order)')
for h, e in zip(history, r.get('failed') or []):
    print('history    :', h.replace('\\n', ' ; '), '->', e or 'ok')
print('attempt    :', (prepare + ' ; ' if prepare else '') + attempt.replace('\\n', ' ; '), '-> status', r['status'], r.get('exc', ''))
eff = {k: v for k, v in r.get('effects', {}).items() if not k.startswith('@')}
for k, v in eff.items():
    print('   ', k, ':', v)
if r['status'] == 'checked' and %r in eff:
    print('REPRODUCED: the rejected assignment had observable effects:', ', '.join(eff)); sys.exit(1)
print('NOT-REPRODUCED'); sys.exit(0)
''' % (wcfg, holder, hist_stmts(hist), prep, att, clause)
    return head + HARNESS_SRC + body


def reports(results):
    """-> [(clause, witness, detail, replay, count)]; one report per class of failing cases:
    clause x holder x route class x (does a queued watcher assign?) x (events of which parameters were delivered / which probe differs)."""
    groups = {}
    for fam, c, r in results:
        if r["status"] != "checked":
            continue
        wcfg, holder, hist, aid = c
        route = _ATT[aid][1]
        qset = "queued-setter" if any(w[0] in ("set", "set-raise") and w[3] for w in wcfg) else "plain"
        for clause, text in r["effects"].items():
            if clause.startswith("@"):
                continue
            if clause == C_FW_LOG:
                # class of what was delivered: the parameters whose events the invoked watchers were handed
                inv = r["effects"].get("@invoked", "-")
                extra = "events=" + ",".join(sorted({n for x in re.findall(r"<([^>]*)>", inv) for n in x.split(",") if n}))
            elif clause == C_FW_CTL:
                extra = "probe=" + r["effects"].get("@probe", "-")
            else:
                extra = "-"
            cls = (clause, "instance" if holder == "t" else "class", route, qset, extra)
            cur = groups.get(cls)
            rk = _rank(c)
            if cur is None:
                groups[cls] = [rk, fam, c, text, 1]
            else:
                cur[4] += 1
                if rk < cur[0]:
                    cur[0:4] = [rk, fam, c, text]
    out = []
    for cls in sorted(groups, key=repr):
        rk, fam, c, text, count = groups[cls]
        clause = cls[0]
        witness = key_of(fam, c) + " class=" + ":".join(str(x) for x in cls[2:])
        out.append((clause, witness, "%d cases in this class; simplest shown. %s" % (count, text),
                    make_replay(fam, c, clause, witness), count))
    return out
