"""Helper of the bounded stand-in layer for C02: two further families of rejected assignments.

Family GEN (the rejected value is a callable that is ALREADY the dynamic value of another parameter)
    class H: holders  n Number, b Number(bounds), d Dynamic, i Integer;  rejecting targets  cn/ci/cd/ck
    (constant Number / Integer / Dynamic / Number(allow_refs)), rn/rd (read-only Number / Dynamic), s (String:
    rejects every callable);  objects g (holder side) and t.
    generator kinds: closure function, callable object, functools.partial, lambda over itertools.count,
    numbergen.UniformRandom, a numbergen operator expression (all deterministic and stateful);
    the holder received it by instance assignment, constructor keyword, or class attribute (then `H` is the
    observed holder);  Dynamic.time_dependent False | True (Dynamic.time_fn = a fresh clock; both restored);
    history (<= 2 successful operations): read of the holder, clock tick, _state_push, own time_fn on the
    target object / holder object (set_dynamic_time_fn), force_new_dynamic_value, a legitimate second holder
    (t.b = GEN);  the holder may itself be a constant parameter (generator given to the constructor), which is
    then also the target of a rejected `g.cn = <another generator | 5>`;
    rejected attempt: `<target> = GEN` on the other or the same object by instance attribute,
    param.update (keywords / mapping), inside batch_call_watchers, Number.set_in_bounds, class attribute,
    class-level update.
    Oracle (statement: "the value of that and every other parameter ... exactly as before"): the attempt
    raises => holder.param.inspect_value(name) as before, the holder still holds the same generator, the
    stored value of every other parameter and the slots of the target Parameter as before, watcher tables
    as before, no watcher invoked; with time_dependent=True and the clock unchanged since the last read, the
    next read returns that same value; and the whole later trace (reads at the same time, after a tick of
    either clock, _state_pop, forced value; every step: value, inspect_value, number of calls of the
    generator) equals that of the control world in which the attempt is not made.

Family RXN (a reference that has NEVER been evaluated is handed to an allow_refs parameter while its
    current value is invalid for it)
    class S: w, v Number, s String, method meth depending on w;  class T: x Number(bounds) i Integer
    st String b Boolean sel Selector nx Number(nested_refs) k constant ro read-only y Number, all
    allow_refs;  s1 (w=99.5) s2 s3 t u.  Expression shapes: Parameter, rx(), rx()*2, 2+rx(), rx()+rx()
    (two objects / one object), rx()+Parameter, Parameter.rx.pipe(f[, Parameter]), (rx()+1).rx.pipe(f),
    bind, bind with keyword, bind(...).rx()+1, rx(bind)*2, bind over an rx, rx(Parameter)+1, nested,
    where, rx(constant)*rx(), depends-method, rx(method)+1, str method, len, negation, when, not_.
    History (<= 2): links of the target / of another parameter / of another object to the same source, user
    watchers (value and a slot) on the source, another expression on the source evaluated, source changed
    after the expression was built.  Routes: instance attribute, update (keywords / mapping / with), inside
    batch_call_watchers, class attribute.
    Oracle: the attempt raises => every object (sources, targets, classes) holds exactly the watcher objects
    it held before, per parameter and per `what`; `refs`, reference watchers and pending asynchronous
    references of t and u as before; every value as before; no watcher invoked; and the later probe trace
    (sets of every source, evaluation of the expression) equals that of the control world.
"""
import itertools

from bounded._api import REPLAY_HEADER

C_GEN_INS = "C02/gen/inspect_value"
C_GEN_HOLD = "C02/gen/holder-generator"
C_GEN_VAL = "C02/gen/values"
C_GEN_SLOT = "C02/gen/slots"
C_GEN_WAT = "C02/gen/watchers"
C_GEN_LOG = "C02/gen/no-watcher-invoked"
C_GEN_SAME = "C02/gen/value@unchanged-time"
C_GEN_CTL = "C02/gen/trace==control"
C_RXN_WAT = "C02/rxn/watchers"
C_RXN_REF = "C02/rxn/refs"
C_RXN_VAL = "C02/rxn/values"
C_RXN_LOG = "C02/rxn/no-watcher-invoked"
C_RXN_PRO = "C02/rxn/propagation"

GEN_CLAUSES = (C_GEN_INS, C_GEN_HOLD, C_GEN_VAL, C_GEN_SLOT, C_GEN_WAT, C_GEN_LOG, C_GEN_SAME, C_GEN_CTL)
RXN_CLAUSES = (C_RXN_WAT, C_RXN_REF, C_RXN_VAL, C_RXN_LOG, C_RXN_PRO)

RULE = ("; family GEN: generator kind x how the holder parameter received it (instance / constructor / class) x "
        "time_dependent x history <= 2 (reads, ticks, _state_push, own time_fn, forced value, second holder) x "
        "rejecting target (constant / read-only Number, Integer, Dynamic, String; other or same object) x route; "
        "holder's inspect_value, generator, other values, slots, watchers before == after, later reads == control "
        "world; family RXN: never-evaluated reference shape x allow_refs target for which its current value is "
        "invalid (or constant / read-only) x history <= 2 x route; watcher objects of every object per parameter "
        "and `what`, refs, values, log before == after, later propagation == control world")

HARNESS_SRC = r'''
import warnings, logging, functools, itertools
warnings.simplefilter('ignore')
import param
param.parameterized.get_logger().setLevel(100)
from param.parameterized import batch_call_watchers, discard_events

class Clock:
    def __init__(self):
        self.t = 0
    def __call__(self):
        return self.t

def wcount(o):
    """{'param/what': [id of watcher, ...]} of a Parameterized instance or class."""
    out = {}
    if isinstance(o, type):
        for n in o.param:
            for K in o.__mro__:
                p = K.__dict__.get(n)
                if isinstance(p, param.Parameter):
                    for what, lst in p.watchers.items():
                        if lst:
                            out['%s/%s' % (n, what)] = sorted(id(w) for w in lst)
                    break
        return out
    pv = o._param__private
    for n, d in pv.watchers.items():
        for what, lst in d.items():
            if lst:
                out['%s/%s' % (n, what)] = sorted(id(w) for w in lst)
    for n, p in pv.params.items():
        for what, lst in p.watchers.items():
            if lst:
                out['param-object:%s/%s' % (n, what)] = sorted(id(w) for w in lst)
    return out

def wdiff(a, b):
    """watcher tables a -> b as text: ['s1.w/value: 2 -> 3 watchers', ...] (same count: 'replaced')."""
    out = []
    for k in sorted(set(a) | set(b)):
        x, y = a.get(k, []), b.get(k, [])
        if x != y:
            out.append('%s: %d -> %d watchers%s' % (k, len(x), len(y), ' (replaced)' if len(x) == len(y) else ''))
    return out

# ------------------------------------------------------------------ family GEN
def make_generator(kind, integer):
    calls = [0]
    unit = 1 if integer else 0.25
    if kind == 'func':
        def gen():
            calls[0] += 1
            return calls[0] * unit
        return gen, calls
    if kind == 'object':
        class Counter:
            def __init__(self):
                self.n = 0
            def __call__(self):
                calls[0] += 1
                self.n += 1
                return self.n * unit
        return Counter(), calls
    if kind == 'partial':
        def step(box):
            calls[0] += 1
            box[0] += 1
            return box[0] * unit
        return functools.partial(step, [0]), calls
    if kind == 'lambda':
        it = itertools.count(1)
        return (lambda: (calls.__setitem__(0, calls[0] + 1), next(it) * unit)[1]), calls
    import numbergen
    if kind == 'numbergen':
        return numbergen.UniformRandom(seed=7, name='NG'), None
    if kind == 'numbergen-expr':
        return numbergen.UniformRandom(seed=7, name='NG') * 4 + 1, None
    raise ValueError(kind)

GEN_NAMES = ('n', 'b', 'd', 'i', 'cn', 'rn', 'cd', 'rd', 'ci', 'ck', 's')

def make_gen_world(kind, how, hname):
    LOG = []
    class H(param.Parameterized):
        n = param.Number(default=0.5)
        b = param.Number(default=1, bounds=(0, 1000))
        d = param.Dynamic(default=None)
        i = param.Integer(default=0)
        cn = param.Number(default=1.5, constant=True)
        rn = param.Number(default=2.5, readonly=True)
        cd = param.Dynamic(default=3, constant=True)
        rd = param.Dynamic(default=4, readonly=True)
        ci = param.Integer(default=5, constant=True)
        ck = param.Number(default=6.5, constant=True, allow_refs=True)
        s = param.String(default='s')
    gen, calls = make_generator(kind, hname == 'i')
    if how == 'class':
        setattr(H, hname, gen)
        g = H(name='g'); t = H(name='t')
        hobj = H
    elif how == 'ctor':
        g = H(name='g', **{hname: gen}); t = H(name='t')
        hobj = g
    else:
        g = H(name='g'); t = H(name='t')
        setattr(g, hname, gen)
        hobj = g
    def mk(label):
        def log(*events):
            for e in events:
                LOG.append((label, e.name, e.type))
        return log
    for o in (g, t):
        o.param.watch(mk(o.name), list(GEN_NAMES), onlychanged=False)
    H.param.watch(mk('H'), list(GEN_NAMES), onlychanged=False)
    ns = dict(param=param, H=H, g=g, t=t, LOG=LOG, calls=calls, hobj=hobj, hname=hname,
              CLK=param.Dynamic.time_fn, CLK2=Clock(), batch_call_watchers=batch_call_watchers, last_read=None)
    ns['GEN'] = hobj.param.get_value_generator(hname)
    ns['GEN2'] = make_generator(kind, hname == 'i')[0]      # a second generator of the same kind, held by nothing
    return ns

def gnorm(ns, v):
    if v is ns['GEN']:
        return '<GEN>'
    if callable(v):
        return '<callable %s>' % type(v).__name__
    return repr(v)

def gen_step(ns, op):
    """One successful operation / probe; -> (op, exception name | None, value)."""
    g, t, hobj, hname = ns['g'], ns['t'], ns['hobj'], ns['hname']
    val = None
    try:
        if op == 'read':
            val = getattr(hobj, hname)
            ns['last_read'] = (val, ns['CLK'].t, ns['CLK2'].t)
        elif op == 'tick':
            ns['CLK'].t += 1
        elif op == 'tick2':
            ns['CLK2'].t += 1
        elif op == 'push':
            g.param._state_push()
        elif op == 'pop':
            g.param._state_pop()
        elif op == 'tfn-t':
            t.param.set_dynamic_time_fn(ns['CLK2'])
        elif op == 'tfn-g':
            g.param.set_dynamic_time_fn(ns['CLK2'])
        elif op == 'force':
            val = hobj.param.force_new_dynamic_value(hname)
        elif op == 'share':
            t.b = ns['GEN']
        elif op == 'read-share':
            val = t.b
        else:
            raise RuntimeError(op)
        exc = None
    except Exception as e:
        exc = type(e).__name__
    if op not in ('read', 'tick', 'tick2', 'push'):
        ns['last_read'] = None           # the operation may legitimately change what the next read returns
    return (op, exc, gnorm(ns, val))

def gen_obs(ns):
    hobj, hname = ns['hobj'], ns['hname']
    return (gnorm(ns, hobj.param.inspect_value(hname)), hobj.param.get_value_generator(hname) is ns['GEN'],
            None if ns['calls'] is None else ns['calls'][0], gnorm(ns, ns['t'].param.inspect_value('b')), len(ns['LOG']))

def gen_snapshot(ns, tname):
    """Pure observations only (no read of a generated value)."""
    H, hobj, hname = ns['H'], ns['hobj'], ns['hname']
    snap = {'inspect': gnorm(ns, hobj.param.inspect_value(hname)),
            'holder': hobj.param.get_value_generator(hname) is ns['GEN'],
            'values': {}, 'slots': {}, 'watchers': {}, 'log': len(ns['LOG'])}
    for k in ('g', 't', 'H'):
        o = ns[k]
        for n in GEN_NAMES:
            if o is hobj and n == hname:
                continue
            v = o.param.get_value_generator(n)
            snap['values']['%s.%s' % (k, n)] = ('generated:' + gnorm(ns, o.param.inspect_value(n))) if callable(v) else repr(v)
        for key, ids in wcount(o).items():
            snap['watchers']['%s.%s' % (k, key)] = ids
        if k != 'H':
            pv = o._param__private
            for n, v in pv.values.items():
                if n != 'name' and not (o is hobj and n == hname):
                    snap['values']['%s.%s(stored)' % (k, n)] = gnorm(ns, v)
    for k in ('g', 't', 'H'):
        o = ns[k]
        p = H.param[tname] if k == 'H' else (o._param__private.params.get(tname) or H.param[tname])
        snap['slots']['%s.%s' % (k, tname)] = repr((gnorm(ns, p.default), p.instantiate, p.constant, p.readonly))
    return snap

GEN_PROBES = ['read', 'read', 'tick', 'read', 'read-share', 'tick2', 'read', 'pop', 'read', 'force', 'read']

def run_gen(kind, how, hname, td, history, attempt, tname):
    """-> dict(status, exc, effects{clause: text}).  `attempt` is a statement over g, t, H, GEN."""
    saved = (param.Dynamic.time_fn, param.Dynamic.time_dependent)
    try:
        traces = []; exc = None; effects = {}
        for world in (0, 1):
            param.Dynamic.time_fn = Clock()
            param.Dynamic.time_dependent = bool(td)
            try:
                ns = make_gen_world(kind, how, hname)
                steps = []
                for op in history:
                    st = gen_step(ns, op)
                    if st[1] is not None:
                        return dict(status='history-failed', exc=st[1] + ' in ' + op)
                    steps.append(st + (gen_obs(ns),))
            except Exception as e:
                return dict(status='history-failed', exc=type(e).__name__ + ': ' + str(e))
            if world == 0:
                before = gen_snapshot(ns, tname)
                try:
                    exec(attempt, ns)
                    return dict(status='not-rejected')
                except Exception as e:
                    exc = type(e).__name__
                after = gen_snapshot(ns, tname)
                if before['inspect'] != after['inspect']:
                    effects['C02/gen/inspect_value'] = 'inspect_value(%s) of the holder: %s -> %s' % (hname, before['inspect'], after['inspect'])
                if before['holder'] != after['holder']:
                    effects['C02/gen/holder-generator'] = 'the holder no longer holds the generator'
                for comp, clause in (('values', 'C02/gen/values'), ('slots', 'C02/gen/slots')):
                    d = ['%s: %s -> %s' % (k, before[comp].get(k), after[comp].get(k))
                         for k in sorted(set(before[comp]) | set(after[comp])) if before[comp].get(k) != after[comp].get(k)]
                    if d:
                        effects[clause] = '; '.join(d)
                d = wdiff(before['watchers'], after['watchers'])
                if d:
                    effects['C02/gen/watchers'] = '; '.join(d)
                if before['log'] != after['log']:
                    effects['C02/gen/no-watcher-invoked'] = 'invoked during the rejected attempt: %r' % (ns['LOG'][before['log']:],)
                    del ns['LOG'][before['log']:]
            lr = ns['last_read']
            for op in GEN_PROBES:
                if op == 'pop' and 'push' not in history:
                    continue
                if op == 'read-share' and 'share' not in history:
                    continue
                st = gen_step(ns, op)
                if world == 0 and op == 'read' and td and lr is not None and lr[1:] == (ns['CLK'].t, ns['CLK2'].t):
                    if st[1] is not None or st[2] != gnorm(ns, lr[0]):
                        effects['C02/gen/value@unchanged-time'] = (
                            'time_dependent=True, clock unchanged: the holder read %s before the rejected attempt and %s '
                            'after it' % (gnorm(ns, lr[0]), st[2] if st[1] is None else st[1]))
                lr = None
                steps.append(st + (gen_obs(ns),))
            traces.append(steps)
        if not effects:
            for i, (a, b) in enumerate(zip(*traces)):
                if a != b:
                    effects['C02/gen/trace==control'] = (
                        'step %d `%s` (exception, value, (inspect_value, same generator, calls of the generator, '
                        'inspect_value of t.b, log length)): rejected world %r, control world %r' % (i, a[0], a[1:], b[1:]))
                    break
        return dict(status='checked', exc=exc, effects=effects)
    finally:
        param.Dynamic.time_fn, param.Dynamic.time_dependent = saved

# ------------------------------------------------------------------ family RXN
def dbl(a):
    return a * 2

def add(a, b=0):
    return a + b

RX_OBJS = ('s1', 's2', 's3', 't', 'u', 'S', 'T')
T_NAMES = ('x', 'y', 'i', 'st', 'b', 'sel', 'nx', 'k', 'ro')
S_NAMES = ('w', 'v', 's')

def make_rx_world():
    LOG = []
    class S(param.Parameterized):
        w = param.Number(default=1.0)
        v = param.Number(default=2.0)
        s = param.String(default='a')
        @param.depends('w')
        def meth(self):
            return self.w * 2
    class T(param.Parameterized):
        x = param.Number(default=1, bounds=(0, 10), allow_refs=True)
        y = param.Number(default=2, allow_refs=True)
        i = param.Integer(default=1, bounds=(0, 10), allow_refs=True)
        st = param.String(default='q', allow_refs=True)
        b = param.Boolean(default=False, allow_refs=True)
        sel = param.Selector(objects=[1, 2, 3], allow_refs=True)
        nx = param.Number(default=1, bounds=(0, 10), allow_refs=True, nested_refs=True)
        k = param.Number(default=3.5, bounds=(0, 1000), constant=True, allow_refs=True)
        ro = param.Number(default=4.5, bounds=(0, 1000), readonly=True, allow_refs=True)
    def mk(label):
        def log(*events):
            for e in events:
                LOG.append((label, e.name, e.what, repr(e.old), repr(e.new)))
        return log
    ns = dict(param=param, S=S, T=T, LOG=LOG, dbl=dbl, add=add, cb=mk('cb'), batch_call_watchers=batch_call_watchers)
    ns['s1'] = S(name='s1', w=99.5, v=7.25, s='abc'); ns['s2'] = S(name='s2', w=3.0, v=1000.5)
    ns['s3'] = S(name='s3', w=4.0)
    ns['t'] = T(name='t'); ns['u'] = T(name='u')
    for k in ('s1', 's2', 's3'):
        ns[k].param.watch(mk(k), list(S_NAMES), onlychanged=False)
    for k in ('t', 'u'):
        ns[k].param.watch(mk(k), list(T_NAMES), onlychanged=False)
    return ns

def rx_snapshot(ns):
    snap = {'watchers': {}, 'refs': {}, 'values': {}, 'log': len(ns['LOG'])}
    for k in RX_OBJS:
        o = ns[k]
        for key, ids in wcount(o).items():
            snap['watchers']['%s.%s' % (k, key)] = ids
        names = S_NAMES if k in ('s1', 's2', 's3', 'S') else T_NAMES
        for n in names:
            snap['values']['%s.%s' % (k, n)] = repr(getattr(o, n))
        if k in ('t', 'u'):
            pv = o._param__private
            for n, r in pv.refs.items():
                snap['refs']['%s.refs[%s]' % (k, n)] = id(r)
            snap['refs']['%s.ref_watchers' % k] = sorted(id(w) for _, w in pv.ref_watchers)
            snap['refs']['%s.async_refs' % k] = sorted(pv.async_refs)
            for n, v in pv.values.items():
                if n != 'name':
                    snap['values']['%s.%s(stored)' % (k, n)] = repr(v)
    return snap

RX_PROBES = ["s1.w = 2.0", "s2.v = 1.5", "s3.w = 5.0", "s1.s = 'b'", "s1.v = 0.5", "u.x = 0.5", "s1.w = 2.5",
             "EVAL = param.parameterized.resolve_value(E)"]

def rx_probe(ns):
    trace = []
    n0 = len(ns['LOG'])
    for stmt in RX_PROBES:
        try:
            exec(stmt, ns); exc = None
        except Exception as e:
            exc = type(e).__name__
        vals = tuple((k, n, repr(getattr(ns[k], n))) for k in ('t', 'u') for n in T_NAMES)
        trace.append((stmt, exc, vals, tuple(ns['LOG'][n0:]), repr(ns.get('EVAL'))))
        n0 = len(ns['LOG'])
    return trace

def run_rxn(expr, history, attempt):
    """expr: expression text over s1, s2, s3, param, dbl, add building the reference E (never evaluated);
    history: successful statements executed after E exists; attempt: the rejected statement."""
    worlds = []
    for i in range(2):
        ns = make_rx_world()
        try:
            ns['E'] = eval(expr, ns)
            for h in history:
                exec(h, ns)
        except Exception as e:
            return dict(status='history-failed', exc=type(e).__name__ + ': ' + str(e))
        worlds.append(ns)
    w1, w2 = worlds
    before = rx_snapshot(w1)
    try:
        exec(attempt, w1)
        return dict(status='not-rejected')
    except Exception as e:
        exc = type(e).__name__
    after = rx_snapshot(w1)
    effects = {}
    d = wdiff(before['watchers'], after['watchers'])
    if d:
        effects['C02/rxn/watchers'] = '; '.join(d)
    d = [k for k in sorted(set(before['refs']) | set(after['refs'])) if before['refs'].get(k) != after['refs'].get(k)]
    if d:
        effects['C02/rxn/refs'] = '; '.join(
            '%s %s' % (k, 'added' if k not in before['refs'] else 'removed' if k not in after['refs'] else
                       ('%d -> %d entries' % (len(before['refs'][k]), len(after['refs'][k]))
                        if isinstance(before['refs'][k], list) else 'replaced')) for k in d)
    d = ['%s: %s -> %s' % (k, before['values'].get(k), after['values'].get(k))
         for k in sorted(set(before['values']) | set(after['values'])) if before['values'].get(k) != after['values'].get(k)]
    if d:
        effects['C02/rxn/values'] = '; '.join(d)
    if before['log'] != after['log']:
        effects['C02/rxn/no-watcher-invoked'] = 'invoked during the rejected attempt: %r' % (w1['LOG'][before['log']:],)
        del w1['LOG'][before['log']:]
    if not effects:
        for a, b in zip(rx_probe(w1), rx_probe(w2)):
            if a != b:
                da = [x for x, y in zip(a[2], b[2]) if x != y]
                effects['C02/rxn/propagation'] = (
                    'after probe `%s`: rejected world exc=%s values %r log %r eval %s; control world exc=%s values %r log %r eval %s'
                    % (a[0], a[1], da, a[3], a[4], b[1], [y for x, y in zip(a[2], b[2]) if x != y], b[3], b[4]))
                break
    return dict(status='checked', exc=exc, effects=effects)
'''

# ---------------------------------------------------------------------------------------------
# family GEN: enumeration
# ---------------------------------------------------------------------------------------------
GEN_KINDS = ["func", "object", "partial", "lambda", "numbergen", "numbergen-expr"]
GEN_HOLDERS = [("inst", "n"), ("ctor", "n"), ("class", "n"), ("inst", "d"), ("inst", "b"), ("inst", "i"),
               ("ctor", "d"), ("class", "d"), ("ctor", "cn"), ("ctor", "cd")]
# the last two: the generator is the value of a CONSTANT parameter of g (given to the constructor); besides being
# handed to the usual targets it is then also the value that a rejected `g.cn = <other generator | 5>` must leave alone
GEN_SELF_VALUES = ["GEN2", "5"]
GEN_MINOR_KINDS = ("partial", "lambda", "numbergen-expr")
GEN_MINOR_HOLDERS = (("inst", "b"), ("inst", "i"), ("ctor", "d"), ("class", "d"))
GEN_TARGETS = [("t", "cn"), ("t", "rn"), ("t", "cd"), ("t", "rd"), ("g", "cn"), ("g", "rd"), ("t", "ci"),
               ("t", "ck"), ("t", "s"), ("g", "ci"), ("g", "rn"), ("g", "cd")]
GEN_ROUTES = [
    ("instance", "OBJ.NAME = GEN"),
    ("update", "OBJ.param.update(NAME=GEN)"),
    ("class", "H.NAME = GEN"),
    ("update-map", "OBJ.param.update({'NAME': GEN})"),
    ("batch", "exec('with batch_call_watchers(OBJ):\\n    OBJ.NAME = GEN')"),
    ("set_in_bounds", "OBJ.param.NAME.set_in_bounds(OBJ, GEN)"),
    ("class-update", "H.param.update(NAME=GEN)"),
]
GEN_HISTORY = ["read", "tick", "push", "tfn-t", "tfn-g", "force", "share"]
GEN_CORE = dict(holders=[("inst", "n"), ("ctor", "n"), ("class", "n"), ("inst", "d")],
                targets=[("t", "cn"), ("t", "rn"), ("t", "cd"), ("g", "rd")],
                routes=["instance", "update", "class"],
                hists=[(), ("read",)])


def gen_cases(tier, seed):
    """-> list of (kind, how, hname, td, hist, (tobj, tname), route, attempt, value)"""
    out = []
    hists1 = [()] + [(h,) for h in GEN_HISTORY]
    hists2 = [p for p in itertools.product(GEN_HISTORY, repeat=2)]
    idx = 0
    for kind in GEN_KINDS:
        for how, hname in GEN_HOLDERS:
            targets = [(t, "GEN") for t in GEN_TARGETS]
            if hname in ("cn", "cd"):
                targets += [(("g", hname), v) for v in GEN_SELF_VALUES]
            for tgt, val in targets:
                for route, tmpl in GEN_ROUTES:
                    if route == "set_in_bounds" and tgt[1] not in ("cn", "rn", "ci", "ck"):
                        continue            # only Number has set_in_bounds
                    for td in (0, 1):
                        for hist in hists1 + hists2:
                            idx += 1
                            core = ((how, hname) in GEN_CORE["holders"] and tgt in GEN_CORE["targets"]
                                    and route in GEN_CORE["routes"])
                            if tier == "quick":
                                # closure function: full core product; the other kinds: instance holder n after one read
                                # and (time_dependent) after _state_push / with an own time_fn on the target object;
                                # the generator of a constant parameter itself: function, after one read
                                qcore = core and ((kind == "func" and hist in GEN_CORE["hists"]) or
                                                  ((how, hname) == ("inst", "n") and hist == ("read",)) or
                                                  (kind == "func" and (how, hname) == ("inst", "n") and td and
                                                   hist in (("push",), ("tfn-t",), ("read", "tfn-t"))))
                                qcore = qcore or (val != "GEN" and kind == "func" and hist == ("read",) and
                                                  route in ("instance", "update"))
                                if not qcore and (idx + seed) % 4001:
                                    continue
                            elif len(hist) == 2 and not (core and kind in ("func", "numbergen") and
                                                         (how, hname) != ("inst", "d") and tgt[0] == "t"):
                                continue
                            elif kind in GEN_MINOR_KINDS and (hist not in GEN_CORE["hists"] or hname in ("cn", "cd")):
                                continue        # outside the bound of the thorough tier (see bound_text)
                            elif ((how, hname) in GEN_MINOR_HOLDERS or route not in GEN_CORE["routes"]) and \
                                    hist not in GEN_CORE["hists"] + [("push",), ("tfn-t",)]:
                                continue
                            att = tmpl.replace("OBJ", tgt[0]).replace("NAME", tgt[1]).replace("GEN", val)
                            out.append((kind, how, hname, td, hist, tgt, route, att, val))
    return out


# ---------------------------------------------------------------------------------------------
# family RXN: enumeration
# ---------------------------------------------------------------------------------------------
RX_EXPRS = [
    ("rx*2", "s1.param.w.rx() * 2"),
    ("rx+rx", "s1.param.w.rx() + s2.param.v.rx()"),
    ("pipe", "s1.param.w.rx.pipe(dbl)"),
    ("bind", "param.bind(dbl, s1.param.w)"),
    ("nested", "((s1.param.w.rx() * 2).rx.pipe(dbl) + s2.param.v.rx()) * 2"),
    ("bind.rx+1", "param.bind(dbl, s1.param.w).rx() + 1"),
    ("param", "s1.param.w"),
    ("rx", "s1.param.w.rx()"),
    ("2+rx", "2 + s1.param.w.rx()"),
    ("rx+rx-one-object", "s1.param.w.rx() + s1.param.v.rx()"),
    ("rx+param", "s1.param.w.rx() + s2.param.v"),
    ("pipe-arg", "s1.param.w.rx.pipe(add, s2.param.v)"),
    ("rx.pipe", "(s1.param.w.rx() + 1).rx.pipe(dbl)"),
    ("bind-kw", "param.bind(add, s1.param.w, b=s2.param.v)"),
    ("rx(bind)*2", "param.rx(param.bind(dbl, s1.param.w)) * 2"),
    ("bind(rx)", "param.bind(dbl, s1.param.w.rx() + 1)"),
    ("rx(param)+1", "param.rx(s1.param.w) + 1"),
    ("where", "(s1.param.w.rx() > 0).rx.where(s1.param.w, s2.param.v)"),
    ("rx(const)*rx", "param.rx(50) * s1.param.w.rx()"),
    ("method", "s1.meth"),
    ("rx(method)+1", "param.rx(s1.meth) + 1"),
    ("str-method", "s1.param.s.rx().upper()"),
    ("len", "s1.param.s.rx.len() * 100"),
    ("neg", "-s1.param.w.rx()"),
    ("when", "(s1.param.w.rx() * 2).rx.when(s2.param.v)"),
    ("not", "s1.param.w.rx().rx.not_()"),
]
RX_TARGETS = ["x", "i", "st", "k", "b", "sel", "nx", "ro", "y"]
RX_ROUTES = [
    ("instance", "t.NAME = E"),
    ("update", "t.param.update(NAME=E)"),
    ("update-map", "t.param.update({'NAME': E})"),
    ("update-with", "exec('with t.param.update(NAME=E):\\n    pass')"),
    ("batch", "exec('with batch_call_watchers(t):\\n    t.NAME = E')"),
    ("class", "T.NAME = E"),
]
RX_HISTORY = [
    ("link-target-s3", "t.NAME = s3.param.w"),
    ("link-y-s1", "t.y = s1.param.w"),
    ("link-y-rx", "t.y = s1.param.w.rx() + 1"),
    ("u-link-s1", "u.y = s1.param.w"),
    ("watch-s1", "s1.param.watch(cb, ['w'])"),
    ("watch-s1-slot", "s1.param.watch(cb, ['w'], what='constant')"),
    ("other-rx-evaluated", "E0 = s1.param.w.rx() * 3; E0.rx.value"),
    ("src-set", "s1.w = 98.5"),
    ("u-link-E", "u.y = E"),
]
RX_CORE_EXPRS = ["rx*2", "rx+rx", "pipe", "bind", "nested", "bind.rx+1"]


def rxn_cases(tier, seed):
    """-> list of (ename, expr, target, hist(tuple of (name, stmt)), route, attempt)"""
    out = []
    hists1 = [()] + [(h,) for h in RX_HISTORY]
    hists2 = [p for p in itertools.permutations(RX_HISTORY, 2)]
    idx = 0
    for ename, expr in RX_EXPRS:
        for tgt in RX_TARGETS:
            for route, tmpl in RX_ROUTES:
                for hist in hists1 + hists2:
                    idx += 1
                    names = tuple(n for n, _ in hist)
                    if "link-target-s3" in names and tgt in ("k", "ro", "st", "b", "sel", "i", "y"):
                        continue        # the history link itself would be rejected
                    corex = ename in RX_CORE_EXPRS
                    if tier == "quick":
                        core = (len(hist) == 0 and ((tgt in ("x", "i", "st", "k") and route in ("instance", "update")) or
                                                    (tgt in ("x", "st") and route == "class") or
                                                    (tgt == "y" and route == "instance") or (corex and tgt == "x"))) or \
                               (len(hist) == 1 and corex and tgt == "x" and route in ("instance", "update"))
                        if not core and (idx + seed) % 907:
                            continue
                    elif len(hist) == 2 and not (corex and tgt in ("x", "k") and route in ("instance", "update")):
                        continue
                    hs = tuple((n, s.replace("NAME", tgt)) for n, s in hist)
                    out.append((ename, expr, tgt, hs, route, tmpl.replace("NAME", tgt)))
    return out


def tasks(tier, seed):
    return [("GEN", c) for c in gen_cases(tier, seed)] + [("RXN", c) for c in rxn_cases(tier, seed)]


def bound_text(tier):
    return ("family GEN: %d generator kinds x %d holders (instance / constructor / class; Number, bounded Number, Dynamic, "
            "Integer, constant Number / Dynamic) x %d rejecting targets handed the held generator (+ the constant holder "
            "itself handed another generator / a plain value) x %d routes x time_dependent x histories of length <= 2 over %d operations (%s); "
            "family RXN: %d never-evaluated reference shapes x %d targets x %d routes x histories of length <= 2 over %d "
            "operations (%s)"
            % (len(GEN_KINDS), len(GEN_HOLDERS), len(GEN_TARGETS), len(GEN_ROUTES), len(GEN_HISTORY),
               "quick: closure function: full product over 4 holders x 4 targets x 3 routes x time_dependent x history [] / [read]; other "
               "kinds: instance holder n after one read x 4 targets x 3 routes x time_dependent; closure function, instance holder, "
               "time_dependent, histories [push] / [tfn-t] / [read,tfn-t]; rest 1 in 4001"
               if tier == "quick" else "full for histories of length <= 1 (kinds partial / lambda / numbergen expression: histories [] / [read], no constant "
               "holder; holders bounded Number, Integer, Dynamic by constructor / class, and routes other than instance / update / "
               "class: histories [] / [read] / [push] / [tfn-t]); length 2: function / numbergen, 3 holders, 3 targets on the other object, routes instance / update / class",
               len(RX_EXPRS), len(RX_TARGETS), len(RX_ROUTES), len(RX_HISTORY),
               "quick: every shape x 4 targets x instance / update (bounded Number and String also: class), every shape on the unbounded Number y, the 6 core shapes x "
               "bounded Number x every route / every single-operation history; rest 1 in 907" if tier == "quick"
               else "full for histories of length <= 1; length 2: 6 core shapes, targets x / k, routes instance / update"))


_H = None


def harness():
    global _H
    if _H is None:
        ns = {"__name__": "c02_gen_harness"}
        exec(compile(HARNESS_SRC, "<c02_gen harness>", "exec"), ns)
        _H = ns
    return _H


def run_chunk(chunk):
    import logging
    import warnings
    warnings.simplefilter("ignore")
    logging.getLogger("param").setLevel(logging.CRITICAL + 1)
    H = harness()
    out = []
    for fam, c in chunk:
        if fam == "GEN":
            kind, how, hname, td, hist, tgt, route, att, val = c
            r = H["run_gen"](kind, how, hname, td, list(hist), att, tgt[1])
        else:
            ename, expr, tgt, hist, route, att = c
            r = H["run_rxn"](expr, [s for _, s in hist], att)
        out.append((fam, c, r))
    return out


def key_of(fam, c):
    if fam == "GEN":
        kind, how, hname, td, hist, tgt, route, att, val = c
        return "family=GEN gen=%s holder=%s:%s time_dependent=%d target=%s.%s value=%s route=%s hist=[%s]" % (
            kind, how, hname, td, "other" if tgt[0] == "t" else "same", tgt[1],
            {"GEN": "held-generator", "GEN2": "other-generator"}.get(val, val), route, ",".join(hist))
    ename, expr, tgt, hist, route, att = c
    return "family=RXN expr=%s target=%s route=%s hist=[%s]" % (ename, tgt, route, ",".join(n for n, _ in hist))


def clauses_of(fam):
    return GEN_CLAUSES if fam == "GEN" else RXN_CLAUSES


def _rank(fam, c):
    """Smaller = simpler configuration (the one reported for a class of failing cases)."""
    if fam == "GEN":
        kind, how, hname, td, hist, tgt, route, att, val = c
        return (len(hist), GEN_HOLDERS.index((how, hname)), GEN_KINDS.index(kind), val != "GEN",
                GEN_TARGETS.index(tgt) if tgt in GEN_TARGETS else 99,
                [r for r, _ in GEN_ROUTES].index(route), td, hist)
    ename, expr, tgt, hist, route, att = c
    return (len(hist), [e for e, _ in RX_EXPRS].index(ename), RX_TARGETS.index(tgt),
            [r for r, _ in RX_ROUTES].index(route), tuple(n for n, _ in hist))


def make_replay(fam, c, clause, witness):
    head = REPLAY_HEADER.format(prop="C02", name="replay_c02.py", clause=clause, witness=witness)
    if fam == "GEN":
        kind, how, hname, td, hist, tgt, route, att, val = c
        body = '''
kind, how, hname, td, history, attempt, tname = %r, %r, %r, %r, %r, %r, %r
r = run_gen(kind, how, hname, td, history, attempt, tname)
print('generator kind %%s, held by parameter %%r (%%s), Dynamic.time_dependent=%%s' %% (kind, hname, how, bool(td)))
print('history :', history)
print('attempt :', attempt, '-> status', r['status'], r.get('exc', ''))
''' % (kind, how, hname, td, list(hist), att, tgt[1])
    else:
        ename, expr, tgt, hist, route, att = c
        body = '''
expr, history, attempt = %r, %r, %r
r = run_rxn(expr, history, attempt)
print('E = ' + expr + '    (never evaluated)')
print('history :', history)
print('attempt :', attempt, '-> status', r['status'], r.get('exc', ''))
''' % (expr, [s for _, s in hist], att)
    tail = '''
eff = {k: v for k, v in r.get('effects', {}).items() if not k.startswith('@')}
for k, v in eff.items():
    print('   ', k, ':', v)
if r['status'] == 'checked' and %r in eff:
    print('REPRODUCED: the rejected assignment had observable effects:', ', '.join(eff)); sys.exit(1)
print('NOT-REPRODUCED'); sys.exit(0)
''' % clause
    return head + HARNESS_SRC + body + tail


def reports(results):
    """results: list of (fam, case, r) -> [(clause, witness, detail, replay, count)]; one report per class of failing
    cases (clause x route class [x kind of exception])."""
    groups = {}
    for fam, c, r in results:
        if r["status"] != "checked":
            continue
        for clause, text in r["effects"].items():
            if clause.startswith("@"):
                continue
            if fam == "GEN":
                kind, how, hname, td, hist, tgt, route, att, val = c
                cls = (clause, "GEN", "class" if route.startswith("class") else "instance")
            else:
                ename, expr, tgt, hist, route, att = c
                # ValueError / TypeError: the rejections the statement talks about; anything else is kept apart
                cls = (clause, "RXN", "class" if route == "class" else "instance",
                       "rejected" if r["exc"] in ("ValueError", "TypeError") else r["exc"])
            cur = groups.get(cls)
            rk = _rank(fam, c)
            if cur is None:
                groups[cls] = [rk, fam, c, text, 1]
            else:
                cur[4] += 1
                if rk < cur[0]:
                    cur[0:4] = [rk, fam, c, text]
    out = []
    for cls in sorted(groups, key=repr):
        rk, fam, c, text, count = groups[cls]
        clause = cls[0]
        witness = key_of(fam, c) + " class=" + ":".join(str(x) for x in cls[2:])
        out.append((clause, witness, "%d cases in this class; simplest shown. %s" % (count, text),
                    make_replay(fam, c, clause, witness), count))
    return out
