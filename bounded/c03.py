"""Bounded stand-in of C03 - each change reaches each watcher exactly once with true old/new values.

Families

  CMP   Comparator.is_equal on all ordered pairs of a value lattice with subtle equality
        (soundness: True => Python-equal; completeness on the domain D named by the statement).
  EQ    the same pairs pushed through the real setter: instance value / class value / slot, with a
        changes-only args watcher, an every-set args watcher and a changes-only kwargs watcher.
  D1    EXHAUSTIVE: every single-watcher configuration x every program of <= 2 operations.
  DN    sampled product: 1..3 watchers x programs of <= 3 operations (instance, class and mixed
        worlds), compared token by token with the reference model of ``c03_common``.

Only clauses of C03 are reported here; a difference that lies in the batched part of an
``update``/``trigger`` operation belongs to C04 and is reported by ``bounded/c04.py``.
"""
import hashlib
import itertools
import multiprocessing
import random
import sys
import time

import os as _os
_REPO = _os.environ.get('PYVC_REPO', '/repo')
if _REPO not in sys.path:
    sys.path.insert(0, _REPO)

from bounded._api import Bounded, REPLAY_HEADER
from bounded import c03_common as cm
from bounded import c03_inherit as inh

# ---------------------------------------------------------------------------------------------
# value lattice with subtle equality (sources, so that replays can rebuild them)
# ---------------------------------------------------------------------------------------------
LATTICE = [
    '0', '1', 'True', 'False', '1.0', '0.0', '-0.0', '2', 'NAN', 'float("nan")', 'float("inf")',
    'None', "'x'", "''", "b'x'", '2**70', 'float(2**70)', 'decimal.Decimal(1)',
    'decimal.Decimal("NaN")', 'fractions.Fraction(1, 1)', 'fractions.Fraction(1, 2)', '0.5',
    '(1+0j)', 'dt.date(2020, 1, 1)', 'dt.date(2020, 1, 2)', 'dt.datetime(2020, 1, 1)',
    'dt.datetime(2020, 1, 1, 0, 0, 0, 1)', 'dt.datetime(2020, 1, 1, tzinfo=dt.timezone.utc)',
    'dt.datetime(2020, 1, 1, 1, tzinfo=dt.timezone(dt.timedelta(hours=1)))',
    '[1, 2]', '[1, 2.0]', '[True, 2]', '[1, 2, 3]', '[1]', '[]', '()', '(1, 2)', '(1, 2, 3)',
    '[1, [2, 3]]', '[1, [2, 4]]', '[1, [2, 3, 4]]', '[1, (2, 3)]', '[[1, 2]]',
    "{'k': [1]}", "{'k': [1.0]}", "{'k': [2]}", "{'k': [1], 'j': 2}", "{'j': 2, 'k': [1]}", '{}',
    "{1: 'a'}", "{True: 'a'}", "{'k': {'m': (1, 2)}}", "{'k': {'m': (1, 3)}}",
    '[NAN]', '[float("nan")]', "(1, 'x', None)", "[1, 'x', None]", '[dt.date(2020, 1, 1)]',
    '[dt.date(2020, 1, 2)]', '{0, 8}', '{8, 0}', '{1, 2}', '{1, 3}', 'set()', 'frozenset([1])',
    'collections.OrderedDict(k=[1])', 'OBJ', 'object()',
]

ENV_SRC = '''import datetime as dt, decimal, fractions, collections
NAN = float("nan")
OBJ = object()
'''


def _env():
    ns = {}
    exec(ENV_SRC, ns)
    return ns


def _hash(text):
    return int.from_bytes(hashlib.blake2b(text.encode(), digest_size=8).digest(), 'big') >> 1


# ---------------------------------------------------------------------------------------------
# CMP : Comparator.is_equal directly
# ---------------------------------------------------------------------------------------------
CMP_REPLAY = '''import param
from param.parameterized import Comparator
''' + ENV_SRC + '''
a = %s
b = %s
r = Comparator.is_equal(a, b)
try:
    pe = bool(a == b)
except Exception:
    pe = None
print('is_equal ->', r, ' python == ->', pe)
if %s:
    print('REPRODUCED: %s')
    sys.exit(1)
print('NOT-REPRODUCED')
'''


class _FirstPerClause:
    """records only the first witness of a clause (lattice order) and counts the rest"""
    def __init__(self, B):
        self.B = B
        self.n = {}

    def violation(self, clause, witness, detail='', replay=None):
        if clause not in self.n:
            self.n[clause] = [witness, 0]
            self.B.violation(clause, witness, detail, replay)
        self.n[clause][1] += 1
        self.B._seen[(clause, self.n[clause][0])]['count'] = self.n[clause][1]

    def case(self, **kw):
        self.B.case(**kw)

    def checked(self, *a):
        self.B.checked(*a)


def family_cmp(B):
    from param.parameterized import Comparator
    env = _env()
    n = 0
    B = _FirstPerClause(B)
    for sa in LATTICE:
        for sb in LATTICE:
            a = eval(sa, env)
            b = eval(sb, env)
            B.case(key=_hash('cmp|%s|%s' % (sa, sb)))
            n += 1
            try:
                r = Comparator.is_equal(a, b)
            except Exception as ex:
                B.violation('C03/Comparator.is_equal/total', 'is_equal(%s, %s) raises %s' % (sa, sb, type(ex).__name__),
                            repr(ex), None)
                continue
            pe = cm.py_eq(a, b)
            B.checked('C03/Comparator.is_equal/soundness(True=>equal)')
            if r and pe is False:
                cl = 'C03/Comparator.is_equal/soundness(True=>equal)'
                wit = 'is_equal(%s, %s) is True but the values are unequal' % (sa, sb)
                B.violation(cl, wit, 'a genuine change would be suppressed',
                            REPLAY_HEADER.format(prop='C03', name='replay.py', clause=cl, witness=wit)
                            + CMP_REPLAY % (sa, sb, 'r and pe is False', 'is_equal True for unequal values'))
            v = cm.skip_verdict(a, b)
            if v == 'skip':
                B.checked('C03/Comparator.is_equal/completeness-on-D')
                if not r:
                    cl = 'C03/Comparator.is_equal/completeness-on-D'
                    wit = 'is_equal(%s, %s) is False for equal values of D' % (sa, sb)
                    B.violation(cl, wit, '', REPLAY_HEADER.format(prop='C03', name='replay.py', clause=cl, witness=wit)
                                + CMP_REPLAY % (sa, sb, 'not r and pe', 'is_equal False for equal values'))
            elif v == 'skip[set]':
                B.checked('C03/Comparator.is_equal/completeness-on-D[set]')
                if not r and LATTICE.index(sa) <= LATTICE.index(sb):
                    cl = 'C03/Comparator.is_equal/completeness-on-D[set]'
                    wit = 'is_equal(%s, %s) is False for equal sets' % (sa, sb)
                    B.violation(cl, wit, 'sets are containers of numbers; zip() pairs them in iteration order',
                                REPLAY_HEADER.format(prop='C03', name='replay.py', clause=cl, witness=wit)
                                + CMP_REPLAY % (sa, sb, 'not r and pe', 'is_equal False for equal sets'))
    return n


# ---------------------------------------------------------------------------------------------
# EQ : the pairs through the real setter
# ---------------------------------------------------------------------------------------------
EQ_REPLAY = '''import param
''' + ENV_SRC + '''
ROUTE = %r
u = %s
v = %s
class P(param.Parameterized):
    a = param.Parameter(default=0)
log = []
def rec(tag):
    def cb(*evs, **kw):
        tgt = P if ROUTE == 'class' else o
        shown = tgt.param['a'].doc if ROUTE == 'slot' else tgt.a
        log.append((tag, [(e.name, e.what, e.old is u, e.new is v, e.type) for e in evs],
                    {k: (x is v) for k, x in kw.items()}, shown is v))
    return cb
o = P()
if ROUTE == 'inst':
    o.a = u
    o.param.watch(rec('changes-only'), 'a'); o.param.watch(rec('every-set'), 'a', onlychanged=False)
    o.param.watch_values(rec('changes-only-kwargs'), 'a')
    o.a = v
elif ROUTE == 'class':
    P.a = u
    P.param.watch(rec('changes-only'), 'a'); P.param.watch(rec('every-set'), 'a', onlychanged=False)
    P.param.watch_values(rec('changes-only-kwargs'), 'a')
    P.a = v
else:
    o.param['a'].doc = u
    o.param.watch(rec('changes-only'), 'a', what='doc'); o.param.watch(rec('every-set'), 'a', what='doc', onlychanged=False)
    o.param['a'].doc = v
for l in log: print(l)
tags = [l[0] for l in log]
'''


def _eq_expected(route, verdict):
    """acceptable tag sequences (registration order, each at most once)."""
    base = ['changes-only', 'every-set'] + (['changes-only-kwargs'] if route != 'slot' else [])
    if verdict == 'call':
        return [base]
    skip = ['every-set']
    if verdict in ('skip',):
        return [skip]
    return [base, skip]          # 'may' and (for the main clause) 'skip[set]'


def eq_case(route, su, sv, env):
    """-> list of (clause, witness, detail, replaytext); also list of checked clause names."""
    import param
    u = eval(su, env)
    v = eval(sv, env)
    P = type('P', (param.Parameterized,), {'a': param.Parameter(default=0)})
    log = []
    o = P()
    tgt = P if route == 'class' else o

    def rec(tag):
        def cb(*evs, **kw):
            shown = tgt.param['a'].doc if route == 'slot' else tgt.a
            log.append((tag, [(e.name, e.what, e.old is u, e.new is v, e.type) for e in evs],
                        {k: (x is v) for k, x in kw.items()}, shown is v))
        return cb
    if route == 'slot':
        o.param['a'].doc = u
        o.param.watch(rec('changes-only'), 'a', what='doc')
        o.param.watch(rec('every-set'), 'a', what='doc', onlychanged=False)
        o.param['a'].doc = v
        what = 'doc'
    else:
        setattr(tgt, 'a', u)
        tgt.param.watch(rec('changes-only'), 'a')
        tgt.param.watch(rec('every-set'), 'a', onlychanged=False)
        tgt.param.watch_values(rec('changes-only-kwargs'), 'a')
        setattr(tgt, 'a', v)
        what = 'value'
    verdict = cm.skip_verdict(u, v)
    tags = [l[0] for l in log]
    out = []
    checked = ['C03/%s/every-set-watcher-once-with-true-old-new' % route]

    def viol(clause, wit, cond, msg):
        rp = (REPLAY_HEADER.format(prop='C03', name='replay.py', clause=clause, witness=wit)
              + EQ_REPLAY % (route, su, sv)
              + "if %s:\n    print('REPRODUCED: %s')\n    sys.exit(1)\nprint('NOT-REPRODUCED')\n" % (cond, msg))
        out.append((clause, wit, 'log=%r' % (log,), rp))

    # every-set watcher: exactly once, true old/new, type 'set', object already shows the new value
    es = [l for l in log if l[0] == 'every-set']
    good = [('every-set', [('a', what, True, True, 'set')], {}, True)]
    if es != good:
        viol('C03/%s/every-set-watcher-once-with-true-old-new' % route,
             'route=%s old=%s new=%s every-set watcher got %d calls / wrong event' % (route, su, sv, len(es)),
             "[l for l in log if l[0] == 'every-set'] != [('every-set', [('a', %r, True, True, 'set')], {}, True)]" % what,
             'every-set watcher not called exactly once with the true old/new objects')
    # changes-only watchers
    co = [t for t in tags if t != 'every-set']
    full = ['changes-only'] + (['changes-only-kwargs'] if route != 'slot' else [])
    if verdict == 'call':
        checked.append('C03/%s/onlychanged/genuine-change-never-suppressed' % route)
        if co != full:
            viol('C03/%s/onlychanged/genuine-change-never-suppressed' % route,
                 'route=%s old=%s new=%s changes-only watcher not called for a genuine change' % (route, su, sv),
                 "[t for t in tags if t != 'every-set'] != %r" % (full,), 'genuine change suppressed')
        else:
            bad = [l for l in log if l[0] == 'changes-only' and l[1] != [('a', what, True, True, 'changed')]]
            bad += [l for l in log if l[0] == 'changes-only-kwargs' and (l[1] or l[2] != {'a': True})]
            if bad:
                viol('C03/%s/event/old-new-type' % route,
                     'route=%s old=%s new=%s changes-only watcher got a wrong event' % (route, su, sv),
                     "[l for l in log if l[0] == 'changes-only' and l[1] != [('a', %r, True, True, 'changed')]]" % what,
                     'wrong event content')
    elif verdict == 'skip':
        checked.append('C03/%s/onlychanged/skipped-for-equal-values-of-D' % route)
        if co:
            viol('C03/%s/onlychanged/skipped-for-equal-values-of-D' % route,
                 'route=%s old=%s new=%s changes-only watcher called for equal values' % (route, su, sv),
                 "[t for t in tags if t != 'every-set']", 'changes-only watcher called although new equals old')
    elif verdict == 'skip[set]':
        checked.append('C03/%s/onlychanged/skipped-for-equal-values-of-D[set]' % route)
        if co and LATTICE.index(su) <= LATTICE.index(sv):
            viol('C03/%s/onlychanged/skipped-for-equal-values-of-D[set]' % route,
                 'route=%s old=%s new=%s changes-only watcher called for equal sets' % (route, su, sv),
                 "[t for t in tags if t != 'every-set']", 'changes-only watcher called although the sets are equal')
    else:
        if co not in ([], full):
            viol('C03/%s/set/each-watcher-exactly-once' % route,
                 'route=%s old=%s new=%s changes-only watchers disagree with each other' % (route, su, sv),
                 "[t for t in tags if t != 'every-set'] not in ([], %r)" % (full,), 'inconsistent filtering')
    # order of calls = registration order
    order = [t for t in ['changes-only', 'every-set', 'changes-only-kwargs'] if t in tags]
    if tags != order and route != 'slot':
        viol('C03/%s/set/registration-order' % route, 'route=%s old=%s new=%s calls out of order' % (route, su, sv),
             'tags != %r' % (order,), 'calls out of registration order')
    return out, checked


@cm.silenced
def work_eq(job):
    route, rows = job
    env = _env()
    lg, old = cm.quiet()
    res = {'keys': [], 'checked': {}, 'viol': []}
    try:
        for su in rows:
            for sv in LATTICE:
                res['keys'].append(_hash('eq|%s|%s|%s' % (route, su, sv)))
                out, checked = eq_case(route, su, sv, env)
                for c in checked:
                    res['checked'][c] = res['checked'].get(c, 0) + 1
                res['viol'].extend(out)
    finally:
        lg.setLevel(old)
    return res


# ---------------------------------------------------------------------------------------------
# dispatch programs
# ---------------------------------------------------------------------------------------------
def W(names, what='value', oc=True, q=False, p=0, mode='args', act=(), lvl='i', fault=0):
    return (tuple(names), what, oc, q, p, mode, tuple(act), lvl, fault)


def watcher_variants(idx, lvl='i', rich=True):
    """All watcher configurations offered at registration position ``idx``."""
    k1, k2 = 'k10%d' % (idx + 1), 'k10%d' % ((idx + 1) % 3 + 1)
    acts = {
        ('a',): [(), (('b', k1),), (('c', k1),), (('b', k1), ('c', k2))],
        ('b',): [(), (('c', k1),)],
        ('a', 'b'): [(), (('c', k1),)],
        ('c',): [()],
        ('e',): [(), (('c', k1),)],
    }
    out = []
    for names in [('a',), ('b',), ('a', 'b'), ('c',), ('e',)]:
        for oc in (True, False):
            for q in (False, True):
                for p in (0, 1):
                    for mode in ('args', 'kwargs'):
                        for act in acts[names]:
                            out.append(W(names, 'value', oc, q, p, mode, act, lvl))
    # slot watchers
    for (names, what) in [(('a',), 'label'), (('n',), 'bounds')]:
        for oc in (True, False):
            for q in (False, True):
                for act in [(), (('c', k1),)]:
                    out.append(W(names, what, oc, q, 0, 'args', act, lvl))
    return out


def op_alphabet(nw, world, wspecs=None):
    ops = [('set', 'a', 'i1'), ('set', 'a', 'i0'), ('set', 'a', 'T'), ('set', 'a', 'L12'),
           ('set', 'b', 'i1'), ('set', 'b', 'i0'),
           ('upd', (('a', 'i1'),)), ('upd', (('a', 'i1'), ('b', 'i1'))), ('upd', (('b', 'i1'), ('a', 'i0'))),
           ('trig', ('a',)), ('trig', ('a', 'b')), ('trig', ('e',)),
           ('ev',), ('slot', 'a', 'label', 'lab1'), ('slot', 'a', 'label', 'lab2'),
           ('slot', 'n', 'bounds', 'bd1')]
    if world != 'cls':
        ops.append(('cset', 'a', 'i2'))
        ops.append(('cset', 'b', 'i1'))
    for i in range(nw):
        if wspecs is not None and wspecs[i][7] == 'c' and world != 'cls':
            ops.append(('unw', i, 'c'))
        else:
            ops.append(('unw', i))
    return ops


def needs_slot(prog, wspecs):
    """slot operations are only meaningful (and only modelled) when the slot is watched."""
    watched = {(n, s[1]) for s in wspecs if s[1] != 'value' for n in s[0]}
    for op in cm.walk_ops(prog):
        if op[0] == 'slot' and (op[1], op[2]) not in watched:
            return False
    return True


def usable(world, wspecs, prog):
    if not needs_slot(prog, wspecs):
        return False
    if cm.has_op(prog, ('trig',)) and any(s[6] for s in wspecs):
        return False        # cascades under trigger: the statements do not decide their typing
    return True


C03_PREFIX = 'C03/'


def run_dispatch_case(world, wspecs, prog, acc, prop='C03', keep=('C03/',)):
    """Run one case and fold the result into ``acc``."""
    txt = cm.case_text(world, wspecs, prog)
    r = cm.check_case(world, wspecs, prog)
    st = r['status']
    if st == 'skip':
        acc['skipped'] += 1
        return
    acc['keys'].append(_hash(txt))
    for k, n in r['checked'].items():
        name = cm.CHECK_NAMES[k]
        acc['checked'][name] = acc['checked'].get(name, 0) + n
    if st == 'ok':
        if len(acc['samples']) < 2:
            acc['samples'].append({'case': txt, 'trace': [cm.tok_text(t) for t in r['act']][:40]})
        return
    if st == 'tolerated':
        acc['tolerated'][r['clause']] = acc['tolerated'].get(r['clause'], 0) + 1
        return
    clause = r['clause']
    if not clause.startswith(keep):
        acc['foreign'][clause] = acc['foreign'].get(clause, 0) + 1
        return
    kinds = {op[0] for op in cm.walk_ops(prog)}
    sig = (clause, world, tuple(sorted(kinds & {'trig', 'disc', 'uctx', 'slot', 'ev', 'cset', 'unw', 'batch'})),
           any(s[6] for s in wspecs), any(s[3] for s in wspecs), any(s[1] != 'value' for s in wspecs))
    ent = acc['sigs'].get(sig)
    if ent is None:
        acc['sigs'][sig] = {'n': 1, 'case': (world, wspecs, prog), 'txt': txt}
    else:
        ent['n'] += 1
        if (len(txt), txt) < (len(ent['txt']), ent['txt']):
            ent['case'] = (world, wspecs, prog)
            ent['txt'] = txt


@cm.silenced
def work_shrink(job):
    prop, clause, world, wspecs, prog, txt = job
    lg, old = cm.quiet()
    try:
        wo2, w2, p2, best = cm.shrink(world, wspecs, prog, clause)
        if best['status'] != 'violation':          # not reproducible in this process: report unshrunk
            return None
        cl, wit, det, rp = cm.make_violation(prop, wo2, w2, p2, best)
        return (cl, wit, 'found at: %s\n%s' % (txt, det), rp, cm.group_key(wo2, w2, p2, cl))
    finally:
        lg.setLevel(old)


def new_acc():
    return {'keys': [], 'checked': {}, 'viol': [], 'tolerated': {}, 'foreign': {}, 'skipped': 0,
            'samples': [], 'sigs': {}}


def d1_cases():
    """single watcher x programs <= 2, instance world and class world (exhaustive list)."""
    for world, lvl in (('inst', 'i'), ('cls', 'c')):
        for s in watcher_variants(0, lvl):
            ws = (s,)
            ops = op_alphabet(1, world, ws)
            for n in (1, 2):
                for prog in itertools.product(ops, repeat=n):
                    if usable(world, ws, prog):
                        yield world, ws, prog


@cm.silenced
def work_d1(job):
    part, nparts, stride, offset = job
    lg, old = cm.quiet()
    acc = new_acc()
    try:
        for i, (world, ws, prog) in enumerate(d1_cases()):
            if i % nparts != part:
                continue
            if (i // nparts) % stride != offset % stride:
                continue
            run_dispatch_case(world, ws, prog, acc)
    finally:
        lg.setLevel(old)
    return acc


def random_case(rng):
    r = rng.random()
    world = 'inst' if r < 0.75 else 'cls'
    lvl = 'c' if world == 'cls' else 'i'
    nw = rng.choice((1, 2, 2, 3, 3, 3))
    ws = []
    for i in range(nw):
        l = lvl
        if world == 'inst' and rng.random() < 0.12:
            l = 'c'
        vs = watcher_variants(i, l)
        s = rng.choice(vs)
        if l == 'c' and world == 'inst':
            s = W(s[0], 'value', s[2], s[3], s[4], s[5], (), 'c')   # class watchers in a mixed world: record only
        ws.append(s)
    ws = tuple(ws)
    ops = op_alphabet(nw, world, ws)
    # bias towards operations that concern what is watched
    n = rng.choice((1, 2, 3, 3, 3))
    prog = tuple(rng.choice(ops) for _ in range(n))
    return world, ws, prog


@cm.silenced
def work_rand(job):
    seed, n = job
    rng = random.Random(seed)
    lg, old = cm.quiet()
    acc = new_acc()
    try:
        done = 0
        tries = 0
        while done < n and tries < 20 * n:
            tries += 1
            world, ws, prog = random_case(rng)
            if not usable(world, ws, prog):
                continue
            done += 1
            run_dispatch_case(world, ws, prog, acc)
    finally:
        lg.setLevel(old)
    return acc


def fold(B, acc, stats):
    for k in acc['keys']:
        B.case(key=k)
    for c, n in acc['checked'].items():
        B.checked(c, n)
    sigs = stats.setdefault('sigs', {})
    for sig, ent in acc.get('sigs', {}).items():
        cur = sigs.get(sig)
        if cur is None:
            sigs[sig] = dict(ent)
        else:
            cur['n'] += ent['n']
            if (len(ent['txt']), ent['txt']) < (len(cur['txt']), cur['txt']):
                cur['case'], cur['txt'] = ent['case'], ent['txt']
    for name in ('tolerated', 'foreign'):
        for c, n in acc.get(name, {}).items():
            stats[name][c] = stats[name].get(c, 0) + n
    stats['skipped'] += acc.get('skipped', 0)
    for s in acc.get('samples', []):
        B.sample(s)


def emit_groups(B, stats, pool, prop):
    """Shrink the smallest failing case of every signature (in the pool), then report one violation
    per witness class (smallest witness), in deterministic order."""
    sigs = stats.get('sigs', {})
    order = sorted(sigs, key=repr)
    jobs = [(prop, sig[0]) + tuple(sigs[sig]['case']) + (sigs[sig]['txt'],) for sig in order]
    results = pool.map(work_shrink, jobs, 1) if jobs else []
    groups = {}
    for sig, res in zip(order, results):
        n = sigs[sig]['n']
        if res is None:
            B.note('a failing case could not be re-run for shrinking: %s %s' % (sig[0], sigs[sig]['txt']))
            continue
        cl, wit, det, rp, gk = res
        cur = groups.get(gk)
        if cur is None:
            groups[gk] = [cl, wit, det, rp, n]
        else:
            cur[4] += n
            if (len(wit), wit) < (len(cur[1]), cur[1]):
                cur[0:4] = [cl, wit, det, rp]
    for gk in sorted(groups):
        cl, wit, det, rp, n = groups[gk]
        B.violation(cl, wit, det, rp)
        B._seen[(cl, wit)]['count'] = n
    stats['n_failing'] = sum(e['n'] for e in sigs.values())


@cm.silenced
def work_inh_x1(job):
    return inh.work_x1(job)


@cm.silenced
def work_inh_rand(job):
    return inh.work_rand(job)


@cm.silenced
def run(tier, seed):
    B = Bounded(
        'C03',
        rule=('CMP/EQ: every ordered pair of a %d-value lattice (1/True/1.0, -0.0, NaN shared and fresh, '
              'Decimal/Fraction/complex, dates, aware datetimes, nested list/tuple/dict, sets, non-D objects) through '
              'Comparator.is_equal and through the real setter on 3 routes (instance value, class value, slot); '
              'D1: every single-watcher configuration (names x onlychanged x queued x precedence x args/kwargs x '
              'cascading assignment, value and slot watchers, instance and class) x every program of <= 2 operations; '
              'DN: sampled product of 1..3 watchers x programs of <= 3 operations from {set, set-same, set-equal-other-type, '
              'update, trigger, Event set, slot set, class-level set, unwatch}; a case is distinct by its canonical text; '
              'real trace compared token-wise with the reference model (disp / flush_calls of DESIGN 7); '
              'INH: class-level value and slot watchers of a Parameter inherited by a child, a sibling and a grandchild class: '
              'histories over {watch through any class (value/bounds, onlychanged, precedence), class-level assignment '
              'through any class (new / equal value), slot assignment through any class, unwatch through any class, '
              'instance assignment}; exactly-once for the registering class, never twice, never after unwatch, true event'
              % len(LATTICE)),
        bound=('lattice %d values; <= 3 watchers over parameters {a,b,c,e} + slots {a.label,n.bounds}; precedence in {0,1}; '
               'cascades a->b->c (depth 2); programs <= 3 operations (D1 exhaustive at <= 2); '
               'INH: classes A<S<G, A<T; 1 watcher: <= 2 + 1 + 3 operations, 2..3 watchers: '
               '<= 12 operations (sampled)' % len(LATTICE)))
    t0 = time.time()
    stats = {'tolerated': {}, 'foreign': {}, 'skipped': 0}
    lg, old = cm.quiet()
    try:
        family_cmp(B)
    finally:
        lg.setLevel(old)
    ctx = multiprocessing.get_context('fork')
    nproc = 16
    with ctx.Pool(nproc) as pool:
        # EQ
        jobs = []
        for route in ('inst', 'class', 'slot'):
            for i in range(0, len(LATTICE), 6):
                jobs.append((route, LATTICE[i:i + 6]))
        eq_async = pool.map_async(work_eq, jobs)
        # D1
        if tier == 'quick':
            stride = 16
            d1_jobs = [(p, nproc, stride, seed) for p in range(nproc)]
            n_rand = 1000
        else:
            d1_jobs = [(p, nproc * 4, 1, 0) for p in range(nproc * 4)]
            n_rand = 6000
        d1_async = pool.map_async(work_d1, d1_jobs)
        rand_jobs = [(seed * 1000003 + 7919 * j + (0 if tier == 'quick' else 500000), n_rand)
                     for j in range(nproc * (1 if tier == 'quick' else 4))]
        rand_async = pool.map_async(work_rand, rand_jobs)
        # INH : class-level watchers of an inherited Parameter (bounded/c03_inherit.py)
        inh_x1_jobs, inh_rand_jobs = inh.jobs(tier, seed, nproc)
        inh_x1_async = pool.map_async(work_inh_x1, inh_x1_jobs, 1)
        inh_rand_async = pool.map_async(work_inh_rand, inh_rand_jobs, 1)
        eq_first = {}
        for res in eq_async.get():
            for k in res['keys']:
                B.case(key=k)
            for c, n in res['checked'].items():
                B.checked(c, n)
            for (cl, wit, det, rp) in res['viol']:
                if cl not in eq_first:
                    eq_first[cl] = [cl, wit, det, rp, 0]
                eq_first[cl][4] += 1
        for cl in sorted(eq_first):            # one witness per clause (first pair in lattice order)
            _, wit, det, rp, n = eq_first[cl]
            B.violation(cl, wit, det, rp)
            B._seen[(cl, wit)]['count'] = n
        for acc in d1_async.get():
            fold(B, acc, stats)
        for acc in rand_async.get():
            fold(B, acc, stats)
        emit_groups(B, stats, pool, 'C03')
        lg, old = cm.quiet()
        try:
            inh_stats = inh.fold(B, inh_x1_async.get() + inh_rand_async.get())
        finally:
            lg.setLevel(old)
    B.exhaustive = False
    B.note('CMP and EQ are exhaustive over the lattice; D1 is %s; DN is a seeded sample of the product.'
           % ('exhaustive' if tier != 'quick' else 'a 1/16 slice chosen by the seed'))
    B.note('INH (class-level watchers of a Parameter inherited by S(A), T(A), G(S)): %d histories, %d failing; %s'
           % (inh_stats['cases'], inh_stats['failing'],
              'single-watcher histories [<= 2 copy-making assignments; watch; <= 3 operations] over 4 classes: in full '
              'except a 1/8 slice of the 3-operation suffixes that go through G; plus sampled histories with 2..3 watchers'
              if tier != 'quick' else
              'single-watcher histories over A,S,T: suffix <= 2 in full, a 1/16 slice of suffix 3; plus sampled histories '
              'with 2..3 watchers over 4 classes'))
    if stats['foreign']:
        B.note('differences inside the batched part of update/trigger (C04 clauses, reported by bounded/c04.py, '
               'not counted here): %r' % (stats['foreign'],))
    if stats['tolerated']:
        B.note('cases stopped at a difference the statement tolerates: %r' % (stats['tolerated'],))
    if stats.get('n_failing'):
        B.note('%d explored cases fail in total; each violation reports the smallest shrunk witness of its class, '
               '`count` = number of failing cases of that class' % stats['n_failing'])
    if stats['skipped']:
        B.note('%d generated cases left the decided part of the semantics and were not counted' % stats['skipped'])
    return B.result()
