"""Shared machinery of the bounded stand-ins of C03, C04 and C05 (watcher dispatch).

Three parts

* ``RUNTIME_SRC``  - source text of the *driver*: builds a fresh Parameterized class, registers
  recording watchers on the REAL param code, interprets a small program language and records a
  flat list of tokens.  The same text is ``exec``-ed here and pasted verbatim into every replay
  script, so that a replay runs exactly the driver that found the violation (and imports nothing
  from /verif).
* ``Model``        - the reference semantics written from the statements of C03/C04
  (``qualifies / typed / disp / flush_calls / last_per_key`` of DESIGN.md section 7).  It never
  looks at the real code; it produces the *expected* token list, with explicit alternatives
  (``('|', ...)`` / ``'*'``) wherever the statements leave a choice (lenient readings).
* comparison / classification / shrinking / replay generation.

Token language (all plain tuples of str/int, so that ``repr`` is a literal)

    ('op', path, kind)                       an operation of the program starts
    ('body_end', path)                       body of a context manager finished normally
    ('end', path, outcome, values)           operation finished; outcome 'ok' or exception class
    ('caught', path, excname)                a ``try`` op swallowed an exception
    ('call', wid, depth, events, snapshot)   watcher ``wid`` entered at callback nesting ``depth``
    ('ret', wid, depth)                      watcher returned (or raised)

``events``  : tuple of (name, what, oldR, newR, type) sorted by name;  ``R(v)`` is the
type-qualified repr (``int:1`` / ``bool:True`` / ``float:1.0`` differ).
"""
import itertools
import numbers
import datetime as dt
import decimal
import fractions

RUNTIME_SRC = r'''
import sys, warnings, logging, datetime as dt, decimal, fractions
import param
from param.parameterized import batch_call_watchers, discard_events, edit_constant

warnings.simplefilter('ignore')

VALS = {
    'i0': '0', 'i1': '1', 'i2': '2', 'i3': '3', 'i7': '7', 'i8': '8', 'T': 'True', 'F': 'False',
    'f1': '1.0', 'L12': '[1, 2]', 'N': 'None', 'sx': "'x'",
    'k101': '101', 'k102': '102', 'k103': '103',
    'lab1': "'L1'", 'lab2': "'L2'", 'bd1': '(0, 5)', 'bd2': '(0, 6)',
    'bad': '-1', 'n2': '2', 'n3': '3',
    'p1': '11', 'p2': '12', 'p3': '13', 'u1': '21', 'u2': '22', 'q1': '31',
}


def val(code):
    return eval(VALS[code], {'dt': dt, 'decimal': decimal, 'fractions': fractions})


def R(v):
    return type(v).__name__ + ':' + repr(v)


class Boom(Exception):
    pass


class WatcherBoom(Boom):
    pass


class BodyBoom(Boom):
    pass


SNAP = ('a', 'b', 'c', 'e', 'n', 'k')


def make_class(name='P'):
    return type(name, (param.Parameterized,), dict(
        a=param.Parameter(default=0), b=param.Parameter(default=0),
        c=param.Parameter(default=0), e=param.Event(),
        n=param.Number(default=1, bounds=(0, 10)),
        k=param.Parameter(default=5, constant=True)))


class Driver:
    """Runs a program on the real code and records tokens.

    wspecs: tuple of watcher specs
        (names, what, onlychanged, queued, precedence, mode, act, lvl, fault)
        act   : tuple of (param, valuecode) assigned by the callback, in order
        lvl   : 'i' registered on the instance, 'c' on the class
        fault : 0 never raises; k>0 raises Boom at its k-th invocation (after its assignments)
    world : 'inst' (operations on an instance) or 'cls' (operations on the class itself)
    """

    def __init__(self, wspecs, world='inst', init=None, cls=None):
        self.P = cls if cls is not None else make_class()
        self.world = world
        self.obj = self.P(**(init or {})) if world == 'inst' else None
        self.target = self.obj if world == 'inst' else self.P
        self.tok = []
        self.depth = 0
        self.armed = True
        self.counts = {}
        self.ws = []
        for i, s in enumerate(wspecs):
            self.ws.append(self.watch(i, s))

    # -- recording -------------------------------------------------------------------
    def values(self):
        return tuple((p, R(getattr(self.target, p))) for p in SNAP)

    def watch(self, i, s):
        names, what, oc, queued, prec, mode, act, lvl, fault = s
        fn = self.mkcb(i, mode, act, fault)
        ns = (self.P if lvl == 'c' else self.target).param
        if mode == 'kwargs':
            return ns.watch_values(fn, list(names), 'value', oc, queued, prec)
        return ns.watch(fn, list(names), what, oc, queued, prec)

    def mkcb(self, i, mode, act, fault):
        def cb(*evs, **kw):
            self.counts[i] = self.counts.get(i, 0) + 1
            if mode == 'kwargs':
                ev = tuple(sorted((k, 'value', '?', R(v), '?') for k, v in kw.items()))
                if evs:
                    ev = ev + (('BAD-POSITIONAL-ARGS',),)
            else:
                ev = tuple(sorted((e.name, e.what, R(e.old), R(e.new), str(e.type)) for e in evs))
                if kw:
                    ev = ev + (('BAD-KEYWORD-ARGS',),)
            self.tok.append(('call', i, self.depth, ev, self.values()))
            self.depth += 1
            try:
                for (p, code) in act:
                    setattr(self.target, p, val(code))
                if fault and self.armed and self.counts[i] == fault:
                    raise WatcherBoom('watcher %d' % i)
            finally:
                self.depth -= 1
                self.tok.append(('ret', i, self.depth))
        return cb

    # -- program interpreter ---------------------------------------------------------
    def run_top(self, prog):
        for j, op in enumerate(prog):
            path = (j,)
            self.tok.append(('op', path, op[0]))
            try:
                self.do(op, path)
                out = 'ok'
            except Exception as ex:
                out = type(ex).__name__
            self.tok.append(('end', path, out, self.values()))
        return self.tok

    def run(self, prog, path):
        for j, op in enumerate(prog):
            p = path + (j,)
            self.tok.append(('op', p, op[0]))
            self.do(op, p)
            self.tok.append(('end', p, 'ok', self.values()))

    def do(self, op, path):
        k = op[0]
        t = self.target
        if k == 'set':
            setattr(t, op[1], val(op[2]))
        elif k == 'same':            # assign the value the object currently shows
            setattr(t, op[1], getattr(t, op[1]))
        elif k == 'cset':
            setattr(self.P, op[1], val(op[2]))
        elif k == 'slot':
            setattr(t.param[op[1]], op[2], val(op[3]))
        elif k == 'upd':
            t.param.update(**{p: val(c) for p, c in op[1]})
        elif k == 'updbad':          # unknown key -> ValueError path of update
            t.param.update(dict([(p, val(c)) for p, c in op[1]]))
        elif k == 'trig':
            t.param.trigger(*op[1])
        elif k == 'ev':
            setattr(t, 'e', True)
        elif k == 'unw':
            ns = (self.P if op[2:] and op[2] == 'c' else t).param
            ns.unwatch(self.ws[op[1]])
        elif k == 'batch':
            with batch_call_watchers(t):
                self.run(op[1], path)
                self.tok.append(('body_end', path))
        elif k == 'disc':
            with discard_events(t):
                self.run(op[1], path)
                self.tok.append(('body_end', path))
        elif k == 'uctx':
            with t.param.update(**{p: val(c) for p, c in op[1]}):
                self.run(op[2], path)
                self.tok.append(('body_end', path))
        elif k == 'econst':
            with edit_constant(t):
                self.run(op[1], path)
                self.tok.append(('body_end', path))
        elif k == 'kset':            # assignment to the constant parameter
            setattr(t, 'k', val(op[1]))
        elif k == 'raise':
            raise BodyBoom('body')
        elif k == 'try':
            try:
                self.run(op[1], path)
            except Exception as ex:
                self.tok.append(('caught', path, type(ex).__name__))
        else:
            raise RuntimeError('unknown op %r' % (op,))


def tok_match(e, a):
    """expected field vs actual field: '*' wildcard, ('|', alt, ...) alternatives, tuples recursive."""
    if e == '*':
        return True
    if isinstance(e, tuple) and e and e[0] == '|':
        return any(tok_match(x, a) for x in e[1:])
    if isinstance(e, tuple):
        return isinstance(a, tuple) and len(e) == len(a) and all(tok_match(x, y) for x, y in zip(e, a))
    return e == a


def first_diff(exp, act):
    for i in range(max(len(exp), len(act))):
        if i >= len(exp) or i >= len(act) or not tok_match(exp[i], act[i]):
            return i
    return None


def quiet():
    lg = param.parameterized.get_logger()
    old = lg.level
    lg.setLevel(logging.CRITICAL + 10)
    return lg, old
'''

import functools
import warnings as _warnings

_ns = {}
_saved_filters = _warnings.filters[:]
exec(compile(RUNTIME_SRC, '<c03_common.RUNTIME_SRC>', 'exec'), _ns)
_warnings.filters[:] = _saved_filters        # the replay text silences warnings globally; the layer must not


def silenced(fn):
    """run ``fn`` with Python warnings ignored and param's logger muted, restoring both afterwards"""
    @functools.wraps(fn)
    def wrapper(*a, **kw):
        lg, old = _ns['quiet']()
        try:
            with _warnings.catch_warnings():
                _warnings.simplefilter('ignore')
                return fn(*a, **kw)
        finally:
            lg.setLevel(old)
    return wrapper
Driver = _ns['Driver']
val = _ns['val']
R = _ns['R']
VALS = _ns['VALS']
Boom = _ns['Boom']
tok_match = _ns['tok_match']
first_diff = _ns['first_diff']
make_class = _ns['make_class']
quiet = _ns['quiet']
SNAP = _ns['SNAP']

EVENT_PARAMS = ('e',)

# =====================================================================================
# equality of the statement
# =====================================================================================
_ATOM_TYPES = (int, bool, float, complex, decimal.Decimal, fractions.Fraction, str, bytes,
               type(None), dt.date, dt.datetime)


def in_D(x, sets=False):
    """The domain on which the statement promises that equal values are skipped."""
    if type(x) in _ATOM_TYPES:
        return True
    if type(x) in (list, tuple):
        return all(in_D(e, sets) for e in x)
    if type(x) is dict:
        return all(type(k) in _ATOM_TYPES and in_D(v, sets) for k, v in x.items())
    if sets and type(x) is set:
        return all(in_D(e, sets) for e in x)
    return False


def _family(x):
    if isinstance(x, numbers.Number):
        return 'num'
    if isinstance(x, dt.date):
        return 'date'
    return type(x).__name__


def deep_eq(a, b):
    """Element-wise equality (no identity short-cut): the strict reading of 'equal' used for
    the MUST-skip direction."""
    ta, tb = type(a), type(b)
    if ta in _ATOM_TYPES and tb in _ATOM_TYPES:
        if _family(a) != _family(b):
            return False
        try:
            return bool(a == b)
        except Exception:
            return False
    if ta is tb and ta in (list, tuple):
        return len(a) == len(b) and all(deep_eq(x, y) for x, y in zip(a, b))
    if ta is tb and ta is dict:
        if len(a) != len(b):
            return False
        for k in a:
            if k not in b or not deep_eq(a[k], b[k]):
                return False
        return True
    if ta is tb and ta is set:
        return a == b and all(any(deep_eq(x, y) for y in b) for x in a)
    return False


def py_eq(a, b):
    """Python's own ``==`` (True / False / None when it cannot be evaluated)."""
    try:
        return bool(a == b)
    except Exception:
        return None


def skip_verdict(old, new):
    """'call' : a changes-only watcher MUST run (genuine change);
       'skip' : it MUST be skipped (equal values of the domain D);
       'skip[set]' : must be skipped only if sets count as 'containers of these';
       'may'  : the statement does not decide."""
    pe = py_eq(old, new)
    if pe is False and old is not new:
        return 'call'
    if in_D(old) and in_D(new) and deep_eq(old, new):
        return 'skip'
    if in_D(old, True) and in_D(new, True) and deep_eq(old, new):
        return 'skip[set]'
    return 'may'


# =====================================================================================
# the reference model
# =====================================================================================
class Ev:
    __slots__ = ('name', 'what', 'old', 'new', 'trig', 'deferred')

    def __init__(self, name, what, old, new, trig, deferred):
        self.name, self.what, self.old, self.new = name, what, old, new
        self.trig, self.deferred = trig, deferred


class _Disp:
    def __init__(self):
        self.table = []       # watcher ids in registration order
        self.batch = 0        # number of open batching scopes (contexts + queued callbacks)
        self.ctx = 0          # number of open *context managers* (subset of batch)
        self.trigger = False
        self.queue = []       # (Ev, wid) in arrival order
        self.qw = []          # wids in order of first qualifying event


class ModelSkip(Exception):
    """The case leaves the part of the semantics the statements decide (not counted)."""


class Model:
    def __init__(self, wspecs, world, init_vals, init_slots=None):
        self.ws = wspecs
        self.world = world
        self.lvl = 'c' if world == 'cls' else 'i'
        self.cv = dict(init_vals)          # class defaults
        self.iv = {}                       # instance's own values
        if world == 'inst':
            self.iv['k'] = init_vals['k']
        self.slots = dict(init_slots or {})
        self.D = {'i': _Disp(), 'c': _Disp()}
        for i, s in enumerate(wspecs):
            self.D[s[7]].table.append(i)
        self.tok = []
        self.meta = []
        self.depth = 0
        self.round = 0
        self.qcb = 0
        self.cur_round = None
        self.trig_deferred = False

    # -- helpers ---------------------------------------------------------------------
    def shown(self, lvl, p):
        if lvl == 'c':
            return self.cv[p]
        return self.iv.get(p, self.cv[p])

    def values(self):
        return tuple((p, R(self.shown(self.lvl, p))) for p in SNAP)

    def emit(self, t, **m):
        self.tok.append(t)
        m.setdefault('round', self.cur_round)
        m.setdefault('batch_open', self.D[self.lvl].ctx > 0)
        m.setdefault('in_queued_cb', self.qcb > 0)
        self.meta.append(m)

    def qualifies(self, w, e):
        if e.trig or not self.ws[w][2]:
            return True
        v = skip_verdict(e.old, e.new)
        if v == 'call':
            return True
        if v == 'skip':
            return False
        raise ModelSkip('undecided equality in a dispatch program')

    def wtype(self, w):
        return 'changed' if self.ws[w][2] else 'set'

    # -- operations ------------------------------------------------------------------
    def do_set(self, lvl, p, what, new, silent=False):
        D = self.D[lvl]
        if what == 'value':
            old = self.shown(lvl, p)
            if lvl == 'c':
                self.cv[p] = new
            else:
                self.iv[p] = new
        else:
            old = self.slots[(p, what)]
            self.slots[(p, what)] = new
        if silent:
            return
        if D.trigger and self.depth > 0:
            raise ModelSkip('assignment inside a callback run by trigger')
        e = Ev(p, what, old, new, D.trigger, D.trigger and self.trig_deferred)
        ws = [w for w in D.table if self.ws[w][1] == what and p in self.ws[w][0]]
        if what == 'value':
            ws = sorted(ws, key=lambda w: self.ws[w][4])
        if D.batch > 0:
            for w in ws:
                if self.qualifies(w, e):
                    D.queue.append((e, w))
                    if w not in D.qw:
                        D.qw.append(w)
            return
        self.round += 1
        rid = (self.round, 'imm' if what == 'value' else 'slot')
        for w in ws:
            if self.qualifies(w, e):
                ty = 'triggered' if e.trig else self.wtype(w)
                self.call(lvl, w, [(e.name, e.what, R(e.old), R(e.new), ty)], rid)
        # Events queued by queued callbacks are delivered when an assignment that has watchers
        # finishes its own dispatch outside any batching scope (the statement only says they are
        # not dispatched while the queued callback runs; the end of the outer assignment is the
        # latest point, an earlier watched assignment made by a later callback may also deliver).
        if D.batch == 0 and ws:
            self.flush(lvl, 'qflush')

    def call(self, lvl, w, evs, rid):
        D = self.D[lvl]
        s = self.ws[w]
        if s[5] == 'kwargs':
            evs = [(n, 'value', '?', new, '?') for (n, wh, old, new, ty) in evs]
        self.cur_round = rid
        self.emit(('call', w, self.depth, tuple(sorted(evs, key=lambda x: x[0])), self.values()),
                  round=rid, wid=w)
        self.depth += 1
        if s[3]:
            D.batch += 1
            self.qcb += 1
        for (p, code) in s[6]:
            self.do_set(self.lvl, p, 'value', val(code))
        if s[3]:
            D.batch -= 1
            self.qcb -= 1
        self.depth -= 1
        self.cur_round = rid
        self.emit(('ret', w, self.depth), round=rid, wid=w, in_queued_cb=bool(s[3]) or self.qcb > 0)

    def flush(self, lvl, kind):
        D = self.D[lvl]
        while D.queue:
            q, qw = D.queue, D.qw
            D.queue, D.qw = [], []
            self.round += 1
            rid = (self.round, kind)
            for w in sorted(qw, key=lambda w: self.ws[w][4]):
                s = self.ws[w]
                evs = []
                for n in s[0]:
                    own = [e for (e, ww) in q if ww == w and e.name == n and e.what == s[1]]
                    if not own:
                        continue
                    allk = []
                    for (e, ww) in q:
                        if e.name == n and e.what == s[1] and not any(e is x for x in allk):
                            allk.append(e)
                    final = allk[-1].new
                    news = sorted({R(e.new) for e in allk
                                   if R(e.new) == R(final) or py_eq(e.new, final)})
                    olds = sorted({R(e.old) for e in allk})
                    types = set()
                    for e in allk:
                        if e.trig:
                            types.add('triggered')
                            if e.deferred:
                                # lenient: a trigger issued inside an open batch and delivered by
                                # the later flush may carry the watcher's own type
                                types.add(self.wtype(w))
                        else:
                            types.add(self.wtype(w))
                    evs.append((n, s[1], ('|',) + tuple(olds), ('|',) + tuple(news),
                                ('|',) + tuple(sorted(types))))
                self.call(lvl, w, evs, rid)

    def update(self, lvl, kws, kind='uflush'):
        D = self.D[lvl]
        D.batch += 1
        D.ctx += 1
        evp = [p for p, _ in kws if p in EVENT_PARAMS]
        for p, v in kws:
            self.do_set(lvl, p, 'value', v)
        D.batch -= 1
        D.ctx -= 1
        if D.batch == 0:
            self.flush(lvl, kind)
        for p in evp:
            self.do_set(lvl, p, 'value', False, silent=True)

    def trigger(self, lvl, names):
        D = self.D[lvl]
        if self.depth > 0:
            raise ModelSkip('trigger inside a callback')
        D.trigger = True
        self.trig_deferred = D.ctx > 0      # issued inside an open context: delivered by a later flush
        kws = [(n, True if n in EVENT_PARAMS else self.shown(lvl, n)) for n in names]
        self.update(lvl, kws, 'tflush')
        D.trigger = False

    def run_top(self, prog):
        for j, op in enumerate(prog):
            path = (j,)
            self.cur_round = None
            self.emit(('op', path, op[0]), top=j)
            self.do(op, path)
            self.cur_round = None
            self.emit(('end', path, 'ok', self.values()), top=j, opkind=op[0])
        return self.tok

    def run(self, prog, path):
        for j, op in enumerate(prog):
            p = path + (j,)
            self.cur_round = None
            self.emit(('op', p, op[0]))
            self.do(op, p)
            self.cur_round = None
            self.emit(('end', p, 'ok', self.values()), opkind=op[0])

    def do(self, op, path):
        k = op[0]
        lvl = self.lvl
        D = self.D[lvl]
        if k == 'set':
            self.do_set(lvl, op[1], 'value', val(op[2]))
        elif k == 'cset':
            self.do_set('c', op[1], 'value', val(op[2]))
        elif k == 'slot':
            self.do_set(lvl, op[1], op[2], val(op[3]))
        elif k == 'upd':
            self.update(lvl, [(p, val(c)) for p, c in op[1]])
        elif k == 'trig':
            self.trigger(lvl, op[1])
        elif k == 'ev':
            self.do_set(lvl, 'e', 'value', True)
            self.do_set(lvl, 'e', 'value', False, silent=True)
        elif k == 'unw':
            l2 = op[2] if op[2:] else lvl
            if op[1] in self.D[l2].table:
                self.D[l2].table.remove(op[1])
        elif k == 'batch':
            D.batch += 1
            D.ctx += 1
            self.run(op[1], path)
            self.cur_round = None
            self.emit(('body_end', path))
            D.batch -= 1
            D.ctx -= 1
            if D.batch == 0:
                self.flush(lvl, 'bflush')
        elif k == 'disc':
            saved = (list(D.queue), list(D.qw))
            D.batch += 1
            D.ctx += 1
            self.run(op[1], path)
            self.cur_round = None
            self.emit(('body_end', path))
            D.batch -= 1
            D.ctx -= 1
            D.queue, D.qw = saved
        elif k == 'uctx':
            restore = [(p, self.shown(lvl, p)) for p, _ in op[1]]
            self.update(lvl, [(p, val(c)) for p, c in op[1]])
            self.run(op[2], path)
            self.cur_round = None
            self.emit(('body_end', path))
            self.update(lvl, restore, 'rflush')
        else:
            raise RuntimeError('model: unknown op %r' % (op,))


# =====================================================================================
# canonical text of a case
# =====================================================================================
def w_text(i, s):
    names, what, oc, queued, prec, mode, act, lvl, fault = s
    t = 'w%d[%s;%s;%s;%s;p%d;%s' % (i, ','.join(names), what, 'oc' if oc else 'all',
                                    'queued' if queued else 'direct', prec, mode)
    if act:
        t += ';does ' + ','.join('%s=%s' % (p, VALS[c]) for p, c in act)
    if lvl == 'c':
        t += ';class'
    if fault:
        t += ';raises@%d' % fault
    return t + ']'


def op_text(op):
    k = op[0]
    if k == 'set':
        return 'set(%s=%s)' % (op[1], VALS[op[2]])
    if k == 'same':
        return 'set(%s=<current>)' % op[1]
    if k == 'cset':
        return 'classset(%s=%s)' % (op[1], VALS[op[2]])
    if k == 'slot':
        return 'slot(%s.%s=%s)' % (op[1], op[2], VALS[op[3]])
    if k in ('upd', 'updbad'):
        return 'update(%s)' % ','.join('%s=%s' % (p, VALS[c]) for p, c in op[1])
    if k == 'trig':
        return 'trigger(%s)' % ','.join(op[1])
    if k == 'ev':
        return 'set(e=True)'
    if k == 'unw':
        return 'unwatch(w%d)' % op[1]
    if k == 'batch':
        return 'batch{%s}' % prog_text(op[1])
    if k == 'disc':
        return 'discard{%s}' % prog_text(op[1])
    if k == 'econst':
        return 'edit_constant{%s}' % prog_text(op[1])
    if k == 'uctx':
        return 'with_update(%s){%s}' % (','.join('%s=%s' % (p, VALS[c]) for p, c in op[1]),
                                        prog_text(op[2]))
    if k == 'kset':
        return 'set(k=%s)' % VALS[op[1]]
    if k == 'raise':
        return 'raise'
    if k == 'try':
        return 'try{%s}' % prog_text(op[1])
    return repr(op)


def prog_text(prog):
    return ';'.join(op_text(o) for o in prog)


def case_text(world, wspecs, prog):
    return 'world=%s watchers=%s prog=%s' % (
        world, ' '.join(w_text(i, s) for i, s in enumerate(wspecs)) or '-', prog_text(prog))


def tok_text(t):
    if t is None:
        return 'END-OF-TRACE'
    if t[0] == 'call':
        def f(x):
            if isinstance(x, tuple) and x and x[0] == '|':
                return '|'.join(x[1:])
            return str(x)
        evs = ','.join('%s.%s:%s>%s:%s' % (e[0], e[1], f(e[2]), f(e[3]), f(e[4])) if len(e) == 5
                       else str(e) for e in t[3])
        return 'call(w%d depth=%d %s)' % (t[1], t[2], evs)
    if t[0] == 'ret':
        return 'return(w%d)' % t[1]
    if t[0] == 'end':
        return 'end%s:%s' % ('.'.join(map(str, t[1])), t[2])
    if t[0] == 'op':
        return 'start%s:%s' % ('.'.join(map(str, t[1])), t[2])
    if t[0] == 'body_end':
        return 'bodyend%s' % '.'.join(map(str, t[1]))
    return str(t)


# =====================================================================================
# run one case, compare, classify
# =====================================================================================
def walk_ops(prog):
    for op in prog:
        yield op
        if op[0] in ('batch', 'disc', 'econst', 'try'):
            yield from walk_ops(op[1])
        elif op[0] == 'uctx':
            yield from walk_ops(op[2])


def has_op(prog, kinds):
    return any(op[0] in kinds for op in walk_ops(prog))


_CLS_CACHE = []


def _class_is_pristine(P):
    st = P._param__private.parameters_state
    if st['BATCH_WATCH'] or st['TRIGGER'] or st['events'] or st['watchers']:
        return False
    for p, dflt in (('a', 0), ('b', 0), ('c', 0), ('e', False), ('n', 1), ('k', 5)):
        po = P.param[p]
        if po.default is not dflt and po.default != dflt:
            return False
        if po.watchers:
            return False
    return P.param['k'].constant is True and P.param['e']._mode == 'set-reset'


def run_real(world, wspecs, prog):
    # A fresh class per case whenever class-level state is involved; otherwise the class of the
    # previous instance-only case is reused after checking that nothing leaked into it.
    reuse = (world == 'inst' and all(s[7] == 'i' for s in wspecs)
             and not has_op(prog, ('cset', 'cons')))
    cls = None
    if reuse:
        if _CLS_CACHE and _class_is_pristine(_CLS_CACHE[0]):
            cls = _CLS_CACHE[0]
        else:
            del _CLS_CACHE[:]
            cls = make_class()
            _CLS_CACHE.append(cls)
    d = Driver(wspecs, world, cls=cls)
    init = {p: getattr(d.target, p) for p in SNAP}
    slots = {}
    for s in wspecs:
        if s[1] != 'value':
            for n in s[0]:
                slots[(n, s[1])] = getattr(d.target.param[n], s[1])
    d.run_top(prog)
    return d.tok, init, slots


def run_model(world, wspecs, prog, init, slots):
    m = Model(wspecs, world, init, slots)
    m.run_top(prog)
    return m


def _events_by_name(evs):
    return {e[0]: e for e in evs if len(e) == 5}


def classify(m, act, i, wspecs):
    """Name the violated clause for the first differing token."""
    exp = m.tok
    E = exp[i] if i < len(exp) else None
    A = act[i] if i < len(act) else None
    meta = m.meta[i] if i < len(m.meta) else m.meta[-1]
    rid = meta.get('round')
    rkind = rid[1] if rid else None
    batched = rkind in ('bflush', 'uflush', 'tflush', 'rflush')
    # ---- both are calls of the same watcher at the same depth: content differs
    if E and A and E[0] == 'call' and A[0] == 'call' and E[1] == A[1] and E[2] == A[2]:
        if not tok_match(E[3], A[3]):
            en, an = _events_by_name(E[3]), _events_by_name(A[3])
            if len(A[3]) != len(an) or sorted(en) != sorted(an):
                if batched:
                    return 'C04/flush/one-event-per-watched-parameter-with-a-qualifying-event'
                return 'C03/call/exactly-one-event'
            for n in sorted(en):
                e, a = en[n], an[n]
                if not tok_match(e[4], a[4]):
                    if 'triggered' in str(e[4]) or a[4] == 'triggered':
                        return 'C04/trigger/type-triggered'
                    return ('C04/flush/event-type' if batched else 'C03/event/type')
                if not tok_match(e[3], a[3]):
                    return ('C04/flush/event-carries-final-value' if batched else 'C03/event/new-is-installed-object')
                if not tok_match(e[2], a[2]):
                    return ('C03/event/old-is-replaced-object[batched]' if batched else 'C03/event/old-is-replaced-object')
            return 'C03/event/content'
        return ('C04/flush/object-state-at-entry' if batched else 'C03/call/object-shows-new-value-at-entry')
    # ---- a call was expected
    if E and E[0] == 'call':
        w = E[1]
        # is the actual token a call that the model expects later in the same round?
        later = [t[1] for t, mm in zip(exp[i + 1:], m.meta[i + 1:])
                 if t[0] == 'call' and mm.get('round') == rid and t[2] == E[2]]
        earlier = [t[1] for t, mm in zip(exp[:i], m.meta[:i])
                   if t[0] == 'call' and mm.get('round') == rid and t[2] == E[2]]
        if A and A[0] == 'call' and A[2] == E[2] and A[1] in earlier and A[1] not in later:
            if rkind in ('imm', 'slot'):
                return 'C03/set/each-watcher-exactly-once[duplicate]'
            if rkind == 'qflush':
                return 'C03/queued/delivered-exactly-once[duplicate]'
            return 'C04/flush/each-watcher-runs-once[duplicate]'
        if A and A[0] == 'call' and A[2] == E[2] and A[1] in later:
            # is the expected watcher merely late (order) or absent from this dispatch (missing)?
            upcoming = []
            for t in act[i:]:
                if t[0] in ('op', 'end', 'body_end', 'caught'):
                    break
                if t[0] == 'call' and t[2] == E[2] and sorted(_events_by_name(t[3])) == sorted(_events_by_name(E[3])):
                    upcoming.append(t[1])       # a later call of that watcher for the same parameter(s)
            if w not in upcoming:
                if rkind in ('imm', 'slot'):
                    if wspecs[w][2]:
                        return 'C03/onlychanged/genuine-change-never-suppressed'
                    return 'C03/set/each-watcher-exactly-once[missing]'
                if rkind == 'qflush':
                    return 'C03/queued/assignments-delivered-when-outer-assignment-ends'
                if rkind == 'tflush':
                    return 'C04/trigger/invokes-watchers'
                return 'C04/flush/each-watcher-with-qualifying-event-runs-once[missing]'
            if rkind == 'imm':
                return 'C03/set/ascending-precedence-then-registration-order'
            if rkind == 'slot':
                return 'TOLERATED/slot-order'
            pa, pe = wspecs[A[1]][4], wspecs[w][4]
            if pa == pe:
                return 'TOLERATED/flush-order-among-equal-precedence'
            return 'C04/flush/precedence-order'
        if A and A[0] == 'call' and A[2] == E[2] and A[1] not in earlier and A[1] not in later and A[1] != w:
            # a watcher that is not expected in this dispatch at all
            evs = _events_by_name(A[3])
            if wspecs[A[1]][2] and evs and all(e[2] == e[3] for e in evs.values()):
                return 'C03/onlychanged/skipped-when-new-equals-old'
            if A[1] not in m.D[wspecs[A[1]][7]].table:
                return 'C03/unwatch/removed-watcher-not-called'
            return ('C04/flush/unexpected-call' if batched else 'C03/set/unexpected-call')
        if rkind == 'imm' or rkind == 'slot':
            if A and A[0] == 'call' and A[2] > E[2]:
                return 'C03/queued/own-assignments-not-dispatched-while-callback-runs'
            if E[2] > 0 and not (A and A[0] == 'call'):
                return 'C03/nested/dispatched-depth-first-before-callback-returns'
            if wspecs[w][2]:
                return 'C03/onlychanged/genuine-change-never-suppressed'
            return 'C03/set/each-watcher-exactly-once[missing]'
        if rkind == 'qflush':
            return 'C03/queued/assignments-delivered-when-outer-assignment-ends'
        if rkind == 'tflush':
            return 'C04/trigger/invokes-watchers'
        return 'C04/flush/each-watcher-with-qualifying-event-runs-once[missing]'
    # ---- no call expected but one happened
    if A and A[0] == 'call':
        w = A[1]
        if meta.get('batch_open'):
            return 'C04/batch/no-watcher-runs-while-context-open'
        if meta.get('in_queued_cb'):
            return 'C03/queued/own-assignments-not-dispatched-while-callback-runs'
        # find the round of the previous expected token
        prev_round = None
        for j in range(i - 1, -1, -1):
            if m.meta[j].get('round'):
                prev_round = m.meta[j]['round']
                break
            if exp[j][0] in ('op', 'end', 'body_end'):
                break
        if prev_round:
            same = [t[1] for t, mm in zip(exp[:i], m.meta[:i])
                    if t[0] == 'call' and mm.get('round') == prev_round]
            pk = prev_round[1]
            if w in same:
                if pk in ('imm', 'slot'):
                    return 'C03/set/each-watcher-exactly-once[duplicate]'
                if pk == 'qflush':
                    return 'C03/queued/delivered-exactly-once[duplicate]'
                return 'C04/flush/each-watcher-runs-once[duplicate]'
        evs = _events_by_name(A[3])
        if wspecs[w][2] and evs and all(e[2] == e[3] for e in evs.values()):
            return 'C03/onlychanged/skipped-when-new-equals-old'
        lvl = wspecs[w][7]
        if w not in m.D[lvl].table:
            return 'C03/unwatch/removed-watcher-not-called'
        ek = E[0] if E else None
        if ek == 'end' and E[1] and len(E[1]) >= 1 and prev_round and prev_round[1] in ('bflush', 'uflush', 'tflush', 'rflush'):
            return 'C04/flush/unexpected-call'
        return 'C03/set/unexpected-call'
    # ---- markers differ
    if E and A and E[0] == 'end' and A[0] == 'end':
        if E[2] != A[2]:
            return 'C03/op/completes-without-exception'
        ok = meta.get('opkind')
        if ok == 'uctx':
            return 'C04/update-context/restores-values-on-exit'
        if ok == 'trig':
            return 'C04/trigger/values-unchanged-except-transient-event'
        if ok == 'ev':
            return 'C04/event/transient-true-then-reset'
        if ok in ('batch', 'disc', 'upd'):
            return 'C04/batch/values-after-context'
        return 'C03/set/value-stored'
    if E and E[0] == 'ret' and A and A[0] != 'ret':
        return 'C03/trace/structure'
    return 'C03/trace/structure'


def check_case(world, wspecs, prog):
    """-> dict(status='ok'|'skip'|'tolerated'|'violation', clause, idx, exp, act, model, checked)"""
    try:
        act, init, slots = run_real(world, wspecs, prog)
    except Exception as ex:                                    # the driver itself failed
        return {'status': 'violation', 'clause': 'C03/setup/registration-raises',
                'detail': repr(ex), 'idx': -1, 'exp': None, 'act': None, 'checked': {}}
    try:
        m = run_model(world, wspecs, prog, init, slots)
    except ModelSkip as ex:
        return {'status': 'skip', 'why': str(ex), 'checked': {}}
    checked = {}
    for t, mm in zip(m.tok, m.meta):
        if t[0] == 'call':
            k = mm['round'][1]
            checked[k] = checked.get(k, 0) + 1
        elif t[0] == 'end':
            checked['end'] = checked.get('end', 0) + 1
    i = first_diff(m.tok, act)
    if i is None:
        return {'status': 'ok', 'checked': checked, 'act': act}
    clause = classify(m, act, i, wspecs)
    st = 'tolerated' if clause.startswith('TOLERATED') else 'violation'
    return {'status': st, 'clause': clause, 'idx': i,
            'exp': m.tok[i] if i < len(m.tok) else None,
            'act': act[i] if i < len(act) else None,
            'exp_tokens': m.tok, 'act_tokens': act, 'checked': checked}


CHECK_NAMES = {
    'imm': 'C03/__set__/trace==disp(sorted_prec(table))',
    'slot': 'C03/Parameter.__setattr__/one-call-per-slot-watcher',
    'qflush': 'C03/__set__/flush-part-after-queued-callbacks',
    'bflush': 'C04/batch_call_watchers/exit/flush_calls(last_per_key)',
    'uflush': 'C04/update/flush_calls(last_per_key)',
    'rflush': 'C04/update-context/exit/flush_calls(restore)',
    'tflush': 'C04/trigger/flush_calls(TR=True)',
    'end': 'C03-C04/op/values-and-outcome-after-operation',
}


# =====================================================================================
# shrinking
# =====================================================================================
def _prog_variants(prog):
    """Smaller / simpler programs (one step)."""
    for i in range(len(prog)):
        yield prog[:i] + prog[i + 1:]
    for i, op in enumerate(prog):
        k = op[0]
        if k in ('batch', 'disc', 'econst', 'try'):
            yield prog[:i] + tuple(op[1]) + prog[i + 1:]
            for sub in _prog_variants(tuple(op[1])):
                if sub:
                    yield prog[:i] + ((k, sub),) + prog[i + 1:]
        elif k == 'uctx':
            yield prog[:i] + tuple(op[2]) + prog[i + 1:]
            yield prog[:i] + (('upd', op[1]),) + tuple(op[2]) + prog[i + 1:]
            for sub in _prog_variants(tuple(op[2])):
                yield prog[:i] + ((k, op[1], sub),) + prog[i + 1:]
            if len(op[1]) > 1:
                for j in range(len(op[1])):
                    yield prog[:i] + ((k, op[1][:j] + op[1][j + 1:], op[2]),) + prog[i + 1:]
        elif k == 'upd' and len(op[1]) > 1:
            for j in range(len(op[1])):
                yield prog[:i] + ((k, op[1][:j] + op[1][j + 1:]),) + prog[i + 1:]
        elif k == 'trig' and len(op[1]) > 1:
            for j in range(len(op[1])):
                yield prog[:i] + ((k, op[1][:j] + op[1][j + 1:]),) + prog[i + 1:]
        if k == 'set' and op[2] != 'i1':
            yield prog[:i] + (('set', op[1], 'i1'),) + prog[i + 1:]
        if k == 'upd':
            for j, (p, c) in enumerate(op[1]):
                if c != 'i1' and p != 'e':
                    yield prog[:i] + ((k, op[1][:j] + ((p, 'i1'),) + op[1][j + 1:]),) + prog[i + 1:]


def _drop_watcher(wspecs, prog, i):
    def fix(pr):
        out = []
        for op in pr:
            if op[0] == 'unw':
                if op[1] == i:
                    continue
                if op[1] > i:
                    op = ('unw', op[1] - 1) + tuple(op[2:])
            elif op[0] in ('batch', 'disc', 'econst', 'try'):
                op = (op[0], fix(op[1]))
            elif op[0] == 'uctx':
                op = (op[0], op[1], fix(op[2]))
            out.append(op)
        return tuple(out)
    return wspecs[:i] + wspecs[i + 1:], fix(prog)


def _w_variants(s):
    names, what, oc, queued, prec, mode, act, lvl, fault = s
    if act:
        yield (names, what, oc, queued, prec, mode, (), lvl, fault)
        if len(act) > 1:
            for j in range(len(act)):
                yield (names, what, oc, queued, prec, mode, act[:j] + act[j + 1:], lvl, fault)
    if len(names) > 1:
        for j in range(len(names)):
            yield (names[:j] + names[j + 1:], what, oc, queued, prec, mode, act, lvl, fault)
    if mode != 'args':
        yield (names, what, oc, queued, prec, 'args', act, lvl, fault)
    if queued:
        yield (names, what, oc, False, prec, mode, act, lvl, fault)
    if prec:
        yield (names, what, oc, queued, 0, mode, act, lvl, fault)
    if not oc:
        yield (names, what, True, queued, prec, mode, act, lvl, fault)


def _map_prog(prog, f):
    out = []
    for op in prog:
        if op[0] in ('batch', 'disc', 'econst', 'try'):
            op = (op[0], _map_prog(op[1], f))
        elif op[0] == 'uctx':
            op = f(('uctx', op[1], _map_prog(op[2], f)))
        else:
            op = f(op)
        out.append(op)
    return tuple(out)


def _swap_ab(world, wspecs, prog):
    sw = {'a': 'b', 'b': 'a'}
    def fw(s):
        return (tuple(sorted(sw.get(n, n) for n in s[0])),) + tuple(s[1:6]) + \
               (tuple((sw.get(p, p), c) for p, c in s[6]),) + tuple(s[7:])
    def fo(op):
        k = op[0]
        if k in ('set', 'cset'):
            return (k, sw.get(op[1], op[1]), op[2])
        if k in ('upd', 'updbad'):
            return (k, tuple((sw.get(p, p), c) for p, c in op[1]))
        if k == 'uctx':
            return (k, tuple((sw.get(p, p), c) for p, c in op[1]), op[2])
        if k == 'trig':
            return (k, tuple(sw.get(n, n) for n in op[1]))
        return op
    if any(s[1] != 'value' for s in wspecs):
        return None
    return world, tuple(fw(s) for s in wspecs), _map_prog(prog, fo)


def _canon_variants(world, wspecs, prog):
    """Semantics-changing but canonicalising rewrites (accepted only if the same clause still fails)."""
    if world == 'cls':
        yield 'inst', tuple(s[:7] + ('i',) + s[8:] for s in wspecs), prog
    # single-key update -> plain assignment
    def f(op):
        if op[0] == 'upd' and len(op[1]) == 1 and op[1][0][0] not in EVENT_PARAMS:
            return ('set', op[1][0][0], op[1][0][1])
        return op
    p2 = _map_prog(prog, f)
    if p2 != prog:
        yield world, wspecs, p2
    # simpler values
    for code in ('i2', 'i3', 'L12', 'T', 'i7', 'i8'):
        def g(op, code=code):
            if op[0] in ('set', 'cset') and op[2] == code:
                return (op[0], op[1], 'i1')
            if op[0] in ('upd', 'uctx'):
                kws = tuple((p, 'i1' if c == code else c) for p, c in op[1])
                return (op[0], kws) + tuple(op[2:])
            return op
        p3 = _map_prog(prog, g)
        if p3 != prog:
            yield world, wspecs, p3
    sw = _swap_ab(world, wspecs, prog)
    if sw is not None and case_text(*sw) < case_text(world, wspecs, prog):
        yield sw


def shrink(world, wspecs, prog, clause, budget=260):
    """Greedy one-step reductions keeping the same violated clause."""
    wspecs, prog = tuple(wspecs), tuple(prog)
    best = check_case(world, wspecs, prog)
    runs = 0
    changed = True
    while changed and runs < budget:
        changed = False
        cands = []
        for i in range(len(wspecs)):
            cands.append((world,) + _drop_watcher(wspecs, prog, i))
        for p2 in _prog_variants(prog):
            cands.append((world, wspecs, tuple(p2)))
        for i, s in enumerate(wspecs):
            for s2 in _w_variants(s):
                cands.append((world, wspecs[:i] + (s2,) + wspecs[i + 1:], prog))
        cands.extend(_canon_variants(world, wspecs, prog))
        for (wo2, w2, p2) in cands:
            runs += 1
            if not p2:
                continue
            try:
                r = check_case(wo2, w2, p2)
            except Exception:
                continue
            if r['status'] == 'violation' and r['clause'] == clause:
                world, wspecs, prog, best = wo2, tuple(w2), tuple(p2), r
                changed = True
                break
    return world, wspecs, prog, best


def group_key(world, wspecs, prog, clause):
    """Witness class: one reported witness (the smallest) per class."""
    kinds = tuple(sorted(op[0] for op in walk_ops(prog)))
    dims = tuple((s[1], s[2], s[3], s[4], s[5], bool(s[6]), s[7], len(s[0])) for s in wspecs)
    return repr((clause, world, kinds, dims))


# =====================================================================================
# replay text
# =====================================================================================
def replay_text(prop, clause, witness, world, wspecs, prog, exp_tokens, extra_comment=''):
    from bounded._api import REPLAY_HEADER
    head = REPLAY_HEADER.format(prop=prop, name='replay.py', clause=clause, witness=witness)
    body = '''
WORLD = %r
WATCHERS = %r
# (names, what, onlychanged, queued, precedence, mode, assignments-made-by-callback, level, fault)
PROGRAM = %r
# expected trace according to the property statement; ('|', a, b) = either is accepted, '*' = anything
EXPECTED = %r
%s
lg, old = quiet()
d = Driver(WATCHERS, WORLD)
actual = d.run_top(PROGRAM)
lg.setLevel(old)
i = first_diff(EXPECTED, actual)
if i is None:
    print('NOT-REPRODUCED')
    sys.exit(0)
print('trace of the real code:')
for t in actual:
    print('   ', t)
print('first difference at token', i)
print('   expected:', EXPECTED[i] if i < len(EXPECTED) else 'END-OF-TRACE')
print('   actual  :', actual[i] if i < len(actual) else 'END-OF-TRACE')
print('REPRODUCED: %s')
sys.exit(1)
''' % (world, tuple(wspecs), tuple(prog), list(exp_tokens), extra_comment, clause)
    return head + RUNTIME_SRC + body


def make_violation(prop, world, wspecs, prog, res):
    """-> (clause, witness, detail, replay) of a (shrunk) violating case."""
    clause = res['clause']
    witness = '%s at=%d expected=%s actual=%s' % (
        case_text(world, wspecs, prog), res['idx'], tok_text(res['exp']), tok_text(res['act']))
    detail = 'expected tokens: %r\nactual tokens  : %r' % (res.get('exp_tokens'), res.get('act_tokens'))
    rp = replay_text(prop, clause, witness, world, wspecs, prog, res['exp_tokens'])
    return clause, witness, detail, rp
