"""C03, family INH - class-level watchers of a Parameter that subclasses inherit.

World (fresh per case)

    class A(param.Parameterized): x = param.Number(default=0, bounds=(0, 1000))
    class S(A), class T(A), class G(S)          (child, sibling, grandchild; no class re-declares x;
                                                 T and G exist only when the history goes through them)
    one instance of A and one of S, created before the history starts

History = sequence of operations

    watch(K:value|bounds:oc|all:pN)   wI = K.param.watch(cb_I, 'x', what=..., onlychanged=..., precedence=N)
    K.x=chg | K.x=eq                  class-level assignment of a new number / of an equal number of another type
    K.x.bounds=chg | K.x.bounds=eq    K.param['x'].bounds = new tuple / a fresh equal tuple
    K.unwatch(wI)                     K.param.unwatch(wI)   (through any class of the family)
    inst(K).x=chg                     assignment on the instance of K

The first class-level assignment through a subclass gives that subclass its own copy of the Parameter
(``ParameterizedMetaclass.__setattr__``); what the layer checks is stated over the history only.

Oracle (from the statement of C03, lenient where the statement is silent)

  * registered for it: a watcher registered through class K for x.<what> is *registered for* the
    assignments of x.<what> made through K (before and after K got its own copy).  For these: exactly one
    call per assignment, a changes-only watcher exactly none when the new value equals the old one
    (equal numbers / equal tuples of numbers).  Whether assignments through ANOTHER class of the family
    or on an instance reach the watcher is not decided by the statement: 0 or 1 call is accepted.
  * never twice: no watcher is called more than once for one assignment, whoever made it.
  * removed: after ``R.param.unwatch(w)`` through the class R the watcher was registered through, or after
    an ``unwatch`` through another class of the family that the library accepted (no 'No such watcher'
    warning), the watcher is not called for ANY later assignment (class of the family or instance).
    An unwatch through another class that the library refused (warning) leaves the expectation unchanged.
  * not registered for it: a value watcher is not called for a slot assignment and vice versa.
  * event: one event, name 'x', what as registered, ``old`` is the object the assigning class/instance showed
    before, ``new`` is the assigned object, type 'changed' (changes-only) or 'set', and at the time of the call
    the assigning class/instance already shows the new object.
  * order: among the value watchers registered through the assigning class, ascending precedence then
    registration order.
"""
import hashlib
import itertools
import random

from bounded._api import REPLAY_HEADER

# ---------------------------------------------------------------------------------------------
# the driver + oracle (also the body of every replay script)
# ---------------------------------------------------------------------------------------------
DRIVER_SRC = r'''
import logging, warnings
warnings.simplefilter('ignore')
import param

PARENT = {'A': None, 'S': 'A', 'T': 'A', 'G': 'S'}
HIERARCHY = 'A<S<G,A<T'


class _Cap(logging.Handler):
    def __init__(self):
        logging.Handler.__init__(self, level=logging.DEBUG)
        self.msgs = []

    def emit(self, rec):
        try:
            self.msgs.append(rec.getMessage())
        except Exception:
            self.msgs.append(str(rec.msg))


def _unwatch_capturing(cls, w):
    """cls.param.unwatch(w) -> True when the library refused it ('No such watcher ...' warning)."""
    lg = param.parameterized.get_logger()
    old_level, old_handlers, old_prop = lg.level, lg.handlers[:], lg.propagate
    cap = _Cap()
    lg.handlers[:] = [cap]
    lg.propagate = False
    lg.setLevel(logging.WARNING)
    try:
        cls.param.unwatch(w)
    finally:
        lg.setLevel(old_level)
        lg.handlers[:] = old_handlers
        lg.propagate = old_prop
    return any('No such watcher' in m for m in cap.msgs)


def op_text(op):
    k = op[0]
    if k == 'w':
        return 'watch(%s:%s:%s:p%d)' % (op[1], op[2], 'oc' if op[3] else 'all', op[4])
    if k == 'set':
        return '%s.x=%s' % (op[1], op[2])
    if k == 'slot':
        return '%s.x.bounds=%s' % (op[1], op[2])
    if k == 'unw':
        return '%s.unwatch(w%d)' % (op[1], op[2])
    if k == 'iset':
        return 'inst(%s).x=%s' % (op[1], op[2])
    raise ValueError(op)


def prog_text(prog):
    return ';'.join(op_text(o) for o in prog)


def run_history(prog):
    """Run the history on fresh classes.  -> (violations, n_checked) with violations a list of
    (clause, position, text); evaluation stops at the first operation that violates something."""
    class A(param.Parameterized):
        x = param.Number(default=0, bounds=(0, 1000))

    class S(A):
        pass

    C = {'A': A, 'S': S}
    used = {op[1] for op in prog}
    if 'T' in used:                      # classes no operation goes through are not created
        class T(A):
            pass
        C['T'] = T
    if 'G' in used:
        class G(S):
            pass
        C['G'] = G
    I = {'A': A(), 'S': S()}
    ws = []            # [handle, reg-class, what, onlychanged, precedence, state]
    log = []
    cur = {}
    counter = [0]
    checked = {}

    def mk_cb(i):
        def cb(*evs, **kw):
            tgt = cur.get('target')
            try:
                if cur.get('kind') == 'bounds':
                    shown = tgt.param['x'].bounds
                else:
                    shown = tgt.x
            except Exception as ex:          # pragma: no cover
                shown = ex
            log.append((i, tuple(evs), dict(kw), shown is cur.get('val')))
        return cb

    def chk(name):
        checked[name] = checked.get(name, 0) + 1

    out = []
    for pos, op in enumerate(prog):
        k = op[0]
        here = 'op%d[%s]' % (pos, op_text(op))
        if k == 'w':
            _, R, what, oc, prec = op
            i = len(ws)
            try:
                h = C[R].param.watch(mk_cb(i), 'x', what=what, onlychanged=oc, precedence=prec)
            except Exception as ex:
                out.append(('C03/class-inherited/op-outcome', pos, '%s raises %s' % (here, type(ex).__name__)))
                break
            ws.append([h, R, what, oc, prec, 'on'])
            continue
        if k == 'unw':
            _, K, i = op
            try:
                refused = _unwatch_capturing(C[K], ws[i][0])
            except Exception as ex:
                out.append(('C03/class-inherited/op-outcome', pos, '%s raises %s' % (here, type(ex).__name__)))
                break
            if K == ws[i][1] or not refused:
                ws[i][5] = 'off'
            continue
        # ---- assignments -----------------------------------------------------------------
        K, mode = op[1], op[2]
        tgt = I[K] if k == 'iset' else C[K]
        kind = 'bounds' if k == 'slot' else 'value'
        counter[0] += 1
        if kind == 'bounds':
            prev = tgt.param['x'].bounds
            val = (0, 1000 + counter[0]) if mode == 'chg' else tuple(list(prev))
        else:
            prev = tgt.x
            val = counter[0] if mode == 'chg' else (float(prev) if not isinstance(prev, float) else int(prev))
        equal = (mode == 'eq')
        cur.clear()
        cur.update(target=tgt, kind=kind, val=val)
        del log[:]
        try:
            if kind == 'bounds':
                tgt.param['x'].bounds = val
            else:
                tgt.x = val
        except Exception as ex:
            out.append(('C03/class-inherited/op-outcome', pos, '%s raises %s' % (here, type(ex).__name__)))
            break
        calls = list(log)
        cur.clear()
        for i, (h, R, what, oc, prec, state) in enumerate(ws):
            mine = [c for c in calls if c[0] == i]
            n = len(mine)
            tag = 'w%d(%s:%s:%s:p%d)' % (i, R, what, 'oc' if oc else 'all', prec)
            if state == 'off':
                chk('C03/class-inherited/unwatched-watcher-not-called')
                if n:
                    out.append(('C03/class-inherited/unwatched-watcher-not-called', pos,
                                '%s: %s called %d time(s) after it was unwatched' % (here, tag, n)))
                continue
            chk('C03/class-inherited/never-twice')
            if n > 1:
                out.append(('C03/class-inherited/never-twice', pos, '%s: %s called %d times' % (here, tag, n)))
                continue
            if what != kind:
                chk('C03/class-inherited/not-registered-for-it')
                if n:
                    out.append(('C03/class-inherited/not-registered-for-it', pos,
                                '%s: %s called for a %s assignment' % (here, tag, kind)))
                continue
            if oc and equal:
                chk('C03/class-inherited/onlychanged/skipped-for-equal')
                if n:
                    out.append(('C03/class-inherited/onlychanged/skipped-for-equal', pos,
                                '%s: changes-only %s called although new equals old' % (here, tag)))
                continue
            if k != 'iset' and R == K:
                chk('C03/class-inherited/each-watcher-exactly-once')
                if n != 1:
                    out.append(('C03/class-inherited/each-watcher-exactly-once', pos,
                                '%s: %s (registered through %s, not unwatched) called %d times' % (here, tag, K, n)))
                    continue
            if n == 1:
                chk('C03/class-inherited/event/old-new-type-shown')
                _, evs, kw, shown_ok = mine[0]
                bad = None
                if len(evs) != 1 or kw:
                    bad = 'got %d events, %d keywords' % (len(evs), len(kw))
                else:
                    e = evs[0]
                    if e.name != 'x' or e.what != what:
                        bad = 'event for %s.%s' % (e.name, e.what)
                    elif e.new is not val:
                        bad = 'new is %r, assigned %r' % (e.new, val)
                    elif e.old is not prev:
                        bad = 'old is %r, replaced %r' % (e.old, prev)
                    elif e.type != ('changed' if oc else 'set'):
                        bad = 'type %r' % (e.type,)
                    elif not shown_ok:
                        bad = 'the assigning %s did not show the new object yet' % ('instance' if k == 'iset' else 'class')
                if bad:
                    out.append(('C03/class-inherited/event/old-new-type-shown', pos, '%s: %s %s' % (here, tag, bad)))
        if kind == 'value' and k != 'iset' and not out:
            own = [c[0] for c in calls if c[0] < len(ws) and ws[c[0]][1] == K and ws[c[0]][2] == 'value'
                   and ws[c[0]][5] == 'on']
            if len(own) > 1:
                chk('C03/class-inherited/order(precedence,registration)')
            if own != sorted(own, key=lambda i: (ws[i][4], i)):
                out.append(('C03/class-inherited/order(precedence,registration)', pos,
                            '%s: watchers registered through %s ran in order %s' % (here, K, ['w%d' % i for i in own])))
        if out:
            break
    return out, checked
'''

_ns = {}
import warnings as _warnings
_saved_filters = _warnings.filters[:]
exec(compile(DRIVER_SRC, '<c03_inherit.DRIVER_SRC>', 'exec'), _ns)
_warnings.filters[:] = _saved_filters
run_history = _ns['run_history']
prog_text = _ns['prog_text']
op_text = _ns['op_text']
HIERARCHY = _ns['HIERARCHY']

CLAUSES = (
    'C03/class-inherited/each-watcher-exactly-once',
    'C03/class-inherited/never-twice',
    'C03/class-inherited/unwatched-watcher-not-called',
    'C03/class-inherited/not-registered-for-it',
    'C03/class-inherited/onlychanged/skipped-for-equal',
    'C03/class-inherited/event/old-new-type-shown',
    'C03/class-inherited/order(precedence,registration)',
    'C03/class-inherited/op-outcome',
)


# ---------------------------------------------------------------------------------------------
# enumeration
# ---------------------------------------------------------------------------------------------
def _assigns(prog, kind):
    for op in prog:
        if kind == 'value' and op[0] in ('set', 'iset'):
            return True
        if kind == 'bounds' and op[0] == 'slot':
            return True
    return False


def x1_universe(classes, maxlen):
    """single watcher: (<= 2 copy-making class assignments) ; watch ; (suffix of 1..maxlen operations)."""
    nonroot = [k for k in classes if k != 'A']
    prefixes = [()] + [(('set', k, 'chg'),) for k in nonroot]
    prefixes += [(('set', k1, 'chg'), ('set', k2, 'chg')) for k1 in nonroot for k2 in nonroot if k1 != k2]
    for kind in ('value', 'bounds'):
        if kind == 'value':
            alpha = [('set', k, m) for k in classes for m in ('chg', 'eq')]
            alpha += [('unw', k, 0) for k in classes]
            alpha += [('iset', k, 'chg') for k in ('A', 'S')]
        else:
            alpha = [('set', k, 'chg') for k in nonroot]
            alpha += [('slot', k, m) for k in classes for m in ('chg', 'eq')]
            alpha += [('unw', k, 0) for k in classes]
        for n in range(1, maxlen + 1):
            for suffix in itertools.product(alpha, repeat=n):
                if not _assigns(suffix, kind):
                    continue
                if suffix[-1][0] == 'unw':
                    continue                      # nothing observes a trailing unwatch
                for pre in prefixes:
                    for R in classes:
                        for oc in (True, False):
                            yield len(suffix), pre + (('w', R, kind, oc, 0),) + suffix


def random_history(rng, classes):
    """2..3 watchers (value and slot, precedence 0/1), 4..9 operations."""
    nw = rng.choice((2, 2, 3))
    n = rng.randint(4, 9)
    prog = []
    reg = 0
    kinds = []
    # positions of the registrations: early, but not necessarily first
    for step in range(n + nw):
        want_w = reg < nw and (rng.random() < 0.45 or (n + nw - step) <= (nw - reg))
        if want_w:
            kind = rng.choice(('value', 'value', 'bounds'))
            prog.append(('w', rng.choice(classes), kind, rng.random() < 0.5,
                         rng.choice((0, 0, 1)) if kind == 'value' else 0))
            kinds.append(kind)
            reg += 1
            continue
        r = rng.random()
        if reg and r < 0.22:
            prog.append(('unw', rng.choice(classes), rng.randrange(reg)))
        elif r < 0.62 or 'bounds' not in kinds:
            if rng.random() < 0.12:
                prog.append(('iset', rng.choice(('A', 'S')), 'chg'))
            else:
                prog.append(('set', rng.choice(classes), 'chg' if rng.random() < 0.75 else 'eq'))
        else:
            prog.append(('slot', rng.choice(classes), 'chg' if rng.random() < 0.75 else 'eq'))
    return tuple(prog)


# ---------------------------------------------------------------------------------------------
# workers
# ---------------------------------------------------------------------------------------------
def _hash(text):
    return int.from_bytes(hashlib.blake2b(text.encode(), digest_size=8).digest(), 'big') >> 1


def _new_acc():
    return {'keys': [], 'checked': {}, 'fail': {}, 'n_fail': 0, 'samples': []}


def _run_into(prog, acc, hashf):
    txt = prog_text(prog)
    acc['keys'].append(hashf('inh|' + txt))
    out, checked = run_history(prog)
    for c, n in checked.items():
        acc['checked'][c] = acc['checked'].get(c, 0) + n
    if not out:
        if len(acc['samples']) < 1 and len(prog) >= 4:
            acc['samples'].append({'family': 'INH', 'classes': HIERARCHY, 'history': txt})
        return
    acc['n_fail'] += 1
    for clause in sorted({o[0] for o in out}):
        kinds = tuple(sorted({op[2] for op in prog if op[0] == 'w'}))
        sig = (clause, kinds, _cross_unwatch(prog))
        ent = acc['fail'].get(sig)
        if ent is None:
            acc['fail'][sig] = {'n': 1, 'prog': prog, 'txt': txt}
        else:
            ent['n'] += 1
            if (len(prog), len(txt), txt) < (len(ent['prog']), len(ent['txt']), ent['txt']):
                ent['prog'], ent['txt'] = prog, txt


def _cross_unwatch(prog):
    """does the history unwatch through a class other than the one the watcher was registered through?"""
    regs = [op[1] for op in prog if op[0] == 'w']
    return any(op[0] == 'unw' and regs[op[2]] != op[1] for op in prog)


def work_x1(job):
    """job = (tier, part, nparts, offset).  quick: classes A,S,T - every history with a suffix of <= 2 operations,
    a 1/16 slice of the suffixes of 3.  thorough: classes A,S,T,G - every suffix of <= 2, every suffix of 3 that does
    not go through G, a 1/8 slice of those that do."""
    tier, part, nparts, offset = job
    classes = ('A', 'S', 'T') if tier == 'quick' else ('A', 'S', 'T', 'G')
    acc = _new_acc()
    j = 0
    for i, (slen, prog) in enumerate(x1_universe(classes, 3)):
        if i % nparts != part:
            continue
        if slen > 2:
            if tier == 'quick':
                stride = 16
            else:
                stride = 8 if any(o[1] == 'G' for o in prog) else 1
            if stride > 1:
                j += 1
                if j % stride != offset % stride:
                    continue
        _run_into(prog, acc, _hash)
    return acc


def work_rand(job):
    seed, n, classes = job
    rng = random.Random(seed)
    acc = _new_acc()
    for _ in range(n):
        _run_into(random_history(rng, classes), acc, _hash)
    return acc


# ---------------------------------------------------------------------------------------------
# shrinking, witnesses, replays
# ---------------------------------------------------------------------------------------------
def _drop(prog, j):
    """history without operation j (watcher indices renumbered); None when it makes no sense."""
    op = prog[j]
    if op[0] != 'w':
        return prog[:j] + prog[j + 1:]
    idx = sum(1 for o in prog[:j] if o[0] == 'w')
    out = []
    for q, o in enumerate(prog):
        if q == j:
            continue
        if o[0] == 'unw':
            if o[2] == idx:
                continue
            if o[2] > idx:
                o = ('unw', o[1], o[2] - 1)
        out.append(o)
    return tuple(out)


def _simpler_ops(op):
    if op[0] == 'w':
        if op[4] != 0:
            yield op[:4] + (0,)
        if not op[3]:
            yield op[:3] + (True,) + op[4:]
    if op[0] in ('set', 'slot', 'iset', 'unw', 'w'):
        order = ('A', 'S', 'T', 'G')
        for k in order[:order.index(op[1])]:
            yield (op[0], k) + op[2:]
    if op[0] in ('set', 'slot') and op[2] == 'eq':
        yield (op[0], op[1], 'chg')


def _renamings(prog):
    """histories obtained by renaming one class into an earlier one everywhere (or swapping two)"""
    order = ('A', 'S', 'T', 'G')
    used = {o[1] for o in prog}
    for x in reversed(order):
        if x not in used:
            continue
        for y in order[:order.index(x)]:
            for swap in (True, False):
                m = {x: y, y: x} if swap else {x: y}
                cand = tuple((o[0], m.get(o[1], o[1])) + tuple(o[2:]) for o in prog)
                if any(o[0] == 'iset' and o[1] not in ('A', 'S') for o in cand):
                    continue
                if [order.index(o[1]) for o in cand] < [order.index(o[1]) for o in prog]:
                    yield cand


def _fails(prog, clause):
    out, _ = run_history(prog)
    for o in out:
        if o[0] == clause:
            return o
    return None


def shrink(prog, clause):
    best = _fails(prog, clause)
    if best is None:
        return None, None
    cross = _cross_unwatch(prog)
    if cross:                       # prefer the reading-independent form: unwatch through the registering class
        regs = [op[1] for op in prog if op[0] == 'w']
        cand = tuple(('unw', regs[o[2]], o[2]) if o[0] == 'unw' else o for o in prog)
        r = _fails(cand, clause)
        if r is not None:
            prog, best = cand, r
    changed = True
    while changed:
        changed = False
        for j in range(len(prog)):
            cand = _drop(prog, j)
            if cand is None or not any(o[0] == 'w' for o in cand):
                continue
            r = _fails(cand, clause)
            if r is not None:
                prog, best, changed = cand, r, True
                break
        if changed:
            continue
        for cand in _renamings(prog):            # the same history through 'earlier' classes of the family
            if _cross_unwatch(cand) and not _cross_unwatch(prog):
                continue
            r = _fails(cand, clause)
            if r is not None:
                prog, best, changed = cand, r, True
                break
        if changed:
            continue
        for j in range(len(prog)):
            for alt in _simpler_ops(prog[j]):
                cand = prog[:j] + (alt,) + prog[j + 1:]
                if _cross_unwatch(cand) and not _cross_unwatch(prog):
                    continue
                r = _fails(cand, clause)
                if r is not None:
                    prog, best, changed = cand, r, True
                    break
            if changed:
                break
    return prog, best


REPLAY_TAIL = '''
PROGRAM = %r
CLAUSE = %r
print('classes', HIERARCHY)
print('history', prog_text(PROGRAM))
out, _ = run_history(PROGRAM)
for o in out:
    print(o)
hit = [o for o in out if o[0] == CLAUSE]
if hit:
    print('REPRODUCED: ' + hit[0][2])
    sys.exit(1)
print('NOT-REPRODUCED')
'''


def plain_form(prog):
    """the history as plain statements (comment block of the replay)"""
    lines = ['class A(param.Parameterized): x = param.Number(default=0, bounds=(0, 1000))',
             'class S(A): pass;  class T(A): pass;  class G(S): pass;  a, s = A(), S()']
    nw = 0
    n = 0
    for op in prog:
        k = op[0]
        if k == 'w':
            lines.append("w%d = %s.param.watch(cb%d, 'x', what=%r, onlychanged=%r, precedence=%d)"
                         % (nw, op[1], nw, op[2], op[3], op[4]))
            nw += 1
        elif k == 'unw':
            lines.append('%s.param.unwatch(w%d)' % (op[1], op[2]))
        else:
            n += 1
            tgt = {'A': 'a', 'S': 's'}[op[1]] if k == 'iset' else op[1]
            if k == 'slot':
                rhs = '(0, %d)' % (1000 + n) if op[2] == 'chg' else "tuple(list(%s.param['x'].bounds))   # equal, fresh" % tgt
                lines.append("%s.param['x'].bounds = %s" % (tgt, rhs))
            else:
                rhs = '%d' % n if op[2] == 'chg' else 'float(%s.x)   # int(...) when it is a float: an equal number of the other type' % tgt
                lines.append('%s.x = %s' % (tgt, rhs))
    return ''.join('#   %s\n' % l for l in lines)


def make_violation(prog, clause, hit):
    witness = 'family=inherit classes=%s prog=%s fails=%s' % (HIERARCHY, prog_text(prog), hit[2])
    replay = (REPLAY_HEADER.format(prop='C03', name='replay.py', clause=clause, witness=witness)
              + '# the history in plain form:\n' + plain_form(prog)
              + DRIVER_SRC + REPLAY_TAIL % (prog, clause))
    return clause, witness, replay


# ---------------------------------------------------------------------------------------------
# entry point used by bounded/c03.py
# ---------------------------------------------------------------------------------------------
def jobs(tier, seed, nproc):
    """-> (x1_jobs, rand_jobs)"""
    if tier == 'quick':
        x1 = [('quick', p, nproc, seed) for p in range(nproc)]
        rnd = [(seed * 1000003 + 104729 * j + 11, 220, ('A', 'S', 'T', 'G')) for j in range(nproc)]
    else:
        x1 = [('thorough', p, nproc * 2, seed) for p in range(nproc * 2)]
        rnd = [(seed * 1000003 + 104729 * j + 700001, 800, ('A', 'S', 'T', 'G')) for j in range(nproc * 4)]
    return x1, rnd


def fold(B, accs):
    """fold worker results into the recorder; -> stats"""
    fail = {}
    n_fail = 0
    n_cases = 0
    for acc in accs:
        n_cases += len(acc['keys'])
        for k in acc['keys']:
            B.case(key=k)
        for c, n in acc['checked'].items():
            B.checked(c, n)
        for s in acc['samples']:
            B.sample(s, limit=8)
        n_fail += acc['n_fail']
        for sig, ent in acc['fail'].items():
            cur = fail.get(sig)
            if cur is None:
                fail[sig] = dict(ent)
            else:
                cur['n'] += ent['n']
                if (len(ent['prog']), len(ent['txt']), ent['txt']) < (len(cur['prog']), len(cur['txt']), cur['txt']):
                    cur['prog'], cur['txt'] = ent['prog'], ent['txt']
    groups = {}
    for sig in sorted(fail, key=repr):
        ent = fail[sig]
        prog, hit = shrink(ent['prog'], sig[0])
        if prog is None:
            B.note('INH: a failing history could not be re-run for shrinking: %s %s' % (sig[0], ent['txt']))
            continue
        cl, wit, rp = make_violation(prog, sig[0], hit)
        cur = groups.get((cl, wit))
        if cur is None:
            groups[(cl, wit)] = [rp, ent['n'], ent['txt']]
        else:
            cur[1] += ent['n']
    for (cl, wit) in sorted(groups):
        rp, n, txt = groups[(cl, wit)]
        B.violation(cl, wit, 'found at: %s' % txt, rp)
        B._seen[(cl, wit)]['count'] = n
    return {'cases': n_cases, 'failing': n_fail}
