"""Bounded stand-in of C04 - batched dispatch defers, coalesces and delivers once on outermost exit.

Families

  N1    EXHAUSTIVE: every nesting (depth <= 3) of {batch_call_watchers, discard_events,
        `with update(...)`} around ONE leaf operation x every single-watcher configuration.
  NN    sampled product: nestings to depth 3 around <= 3 leaf operations (set / same-value set /
        repeated set of the same parameter / update / trigger / Event set / slot set) x 1..3
        watchers (multi-parameter watchers, mixed onlychanged, queued, precedence, args/kwargs,
        cascading callbacks, instance and class worlds).
  CORE  EXHAUSTIVE: 14 hand-picked watcher tables (the multi-parameter / mixed-onlychanged /
        precedence shapes) x every forest with <= 2 leaves of a reduced leaf alphabet.
  T3    EXHAUSTIVE: 3 tables on one parameter x every forest (depth <= 2 of batch/discard) over 3 leaves
        from {set a=1, a=0 (same), a=2, trigger(a)} - repeated assignments and trigger/discard interplay.
  REF   `with obj.param.update(...)` restores values AND links (allow_refs parameters), in every
        nesting of batch/update to depth 2, with and without re-linking inside the body.

The real trace is compared token by token with the reference model of ``c03_common`` (no watcher
runs while a context is open; at the outermost exit ``flush_calls(last_per_key)``; discard
restores exactly the queue at entry; trigger = flush with TR=True; values after every operation).
Only clauses of C04 are reported here (C03 clauses are reported by ``bounded/c03.py``).
"""
import itertools
import multiprocessing
import random
import sys
import time

import os as _os
_REPO = _os.environ.get('PYVC_REPO', '/repo')
if _REPO not in sys.path:
    sys.path.insert(0, _REPO)

from bounded._api import Bounded, REPLAY_HEADER
from bounded import c03_common as cm
from bounded.c03 import W, watcher_variants, usable, run_dispatch_case, new_acc, fold, emit_groups, _hash

LEAVES = [
    ('set', 'a', 'i1'), ('set', 'a', 'i2'), ('set', 'a', 'i0'), ('set', 'a', 'L12'),
    ('set', 'b', 'i1'), ('set', 'b', 'i0'),
    ('upd', (('a', 'i1'), ('b', 'i1'))), ('upd', (('a', 'i2'),)), ('upd', (('b', 'i0'), ('a', 'i1'))),
    ('upd', (('e', 'T'), ('a', 'i1'))),
    ('trig', ('a',)), ('trig', ('b',)), ('trig', ('a', 'b')), ('trig', ('e',)),
    ('ev',), ('slot', 'a', 'label', 'lab1'),
]
CORE_LEAVES = [
    ('set', 'a', 'i1'), ('set', 'a', 'i2'), ('set', 'a', 'i0'), ('set', 'b', 'i1'), ('set', 'b', 'i0'),
    ('upd', (('a', 'i1'), ('b', 'i0'))), ('trig', ('a',)), ('trig', ('b',)), ('ev',),
]
CTX = [('batch',), ('disc',), ('uctx', (('a', 'i3'),)), ('uctx', (('b', 'i3'), ('a', 'i1')))]
CORE_CTX = [('batch',), ('disc',), ('uctx', (('a', 'i3'),))]


def wrap(kind, body):
    if kind[0] == 'uctx':
        return ('uctx', kind[1], tuple(body))
    return (kind[0], tuple(body))


def forests(leaves, depth, ctxs):
    """All forests over the given leaf sequence with contexts nested at most ``depth`` deep."""
    if not leaves:
        yield ()
        return
    # first node is the bare first leaf
    for rest in forests(leaves[1:], depth, ctxs):
        yield (leaves[0],) + rest
    if depth > 0:
        for j in range(1, len(leaves) + 1):
            for body in forests(leaves[:j], depth - 1, ctxs):
                for rest in forests(leaves[j:], depth, ctxs):
                    for k in ctxs:
                        yield (wrap(k, body),) + rest


def rand_forest(rng, leaves, depth):
    out = []
    i = 0
    while i < len(leaves):
        if depth > 0 and rng.random() < 0.6:
            j = rng.randint(i + 1, len(leaves))
            out.append(wrap(rng.choice(CTX), rand_forest(rng, leaves[i:j], depth - 1)))
            i = j
        else:
            out.append(leaves[i])
            i += 1
    return tuple(out)


CORE_TABLES = [
    (W(('a',)),),
    (W(('a', 'b')),),
    (W(('a', 'b'), oc=False),),
    (W(('a', 'b')), W(('b',), oc=False)),
    (W(('a', 'b'), oc=False), W(('b',))),
    (W(('a',), p=1), W(('b',), p=0)),
    (W(('a',), p=1), W(('a', 'b'), p=0, mode='kwargs')),
    (W(('a',)), W(('a',), oc=False), W(('b',))),
    (W(('a',), q=True, act=(('b', 'k101'),)), W(('b',))),
    (W(('a',), act=(('b', 'k101'),)), W(('b',), oc=False)),
    (W(('a', 'b'), p=1), W(('a',), p=0, act=(('c', 'k102'),)), W(('c',))),
    (W(('e',)), W(('a', 'e'), oc=False)),
    (W(('a',), mode='kwargs'), W(('a', 'b'), mode='kwargs', oc=False)),
    (W(('a',), 'label'), W(('a',))),
]

KEEP = ('C04/',)


_SHAPES = {}


def shapes(n, depth, ctxs):
    key = (n, depth, tuple(ctxs))
    if key not in _SHAPES:
        _SHAPES[key] = list(forests(tuple(('L', i) for i in range(n)), depth, ctxs))
    return _SHAPES[key]


def subst(prog, leaves):
    out = []
    for op in prog:
        if op[0] == 'L':
            out.append(leaves[op[1]])
        elif op[0] == 'uctx':
            out.append(('uctx', op[1], subst(op[2], leaves)))
        else:
            out.append((op[0], subst(op[1], leaves)))
    return tuple(out)


def n1_jobs():
    jobs = []
    for world, lvl in (('inst', 'i'), ('cls', 'c')):
        vs = n1_variants(lvl)
        for i in range(0, len(vs), 4):
            jobs.append((world, lvl, i, min(i + 4, len(vs))))
    return jobs


def n1_variants(lvl):
    """all single-watcher configurations; the args/kwargs dimension only without a cascading callback
    (the mode does not influence dispatch)"""
    return [s for s in watcher_variants(0, lvl) if s[5] == 'args' or not s[6]]


@cm.silenced
def work_n1(job):
    (world, lvl, lo, hi), stride, offset = job
    lg, old = cm.quiet()
    acc = new_acc()
    cnt = offset
    try:
        vs = n1_variants(lvl)
        for s in vs[lo:hi]:
            ws = (s,)
            for leaf in LEAVES:
                for sh in shapes(1, 3, CORE_CTX):
                    if sh == (('L', 0),):
                        continue
                    cnt += 1
                    if cnt % stride:
                        continue
                    prog = subst(sh, (leaf,))
                    if usable(world, ws, prog):
                        run_dispatch_case(world, ws, prog, acc, prop='C04', keep=KEEP)
    finally:
        lg.setLevel(old)
    return acc


def core_jobs():
    jobs = []
    for ti in range(len(CORE_TABLES)):
        jobs.append((ti, 1, None))
        for l0 in range(len(CORE_LEAVES)):
            jobs.append((ti, 2, l0))
    return jobs


@cm.silenced
def work_core(job):
    (ti, n, l0), stride, offset = job
    lg, old = cm.quiet()
    acc = new_acc()
    cnt = offset
    ws = CORE_TABLES[ti]
    try:
        if n == 1:
            seqs = [(l,) for l in CORE_LEAVES]
            shs = shapes(1, 3, CORE_CTX)
        else:
            seqs = [(CORE_LEAVES[l0], l1) for l1 in CORE_LEAVES]
            shs = shapes(2, 2, CORE_CTX)
        for leaves in seqs:
            for sh in shs:
                cnt += 1
                if cnt % stride:
                    continue
                prog = subst(sh, leaves)
                if usable('inst', ws, prog):
                    run_dispatch_case('inst', ws, prog, acc, prop='C04', keep=KEEP)
    finally:
        lg.setLevel(old)
    return acc


T3_TABLES = [(W(('a',)),), (W(('a',), oc=False),), (W(('a',)), W(('a',), oc=False, p=1, mode='kwargs'))]
T3_LEAVES = [('set', 'a', 'i1'), ('set', 'a', 'i0'), ('set', 'a', 'i2'), ('trig', ('a',))]
T3_CTX = [('batch',), ('disc',)]


def t3_jobs():
    return [(ti, l0) for ti in range(len(T3_TABLES)) for l0 in range(len(T3_LEAVES))]


@cm.silenced
def work_t3(job):
    (ti, l0), stride, offset = job
    lg, old = cm.quiet()
    acc = new_acc()
    cnt = offset
    ws = T3_TABLES[ti]
    try:
        for l1 in T3_LEAVES:
            for l2 in T3_LEAVES:
                for sh in shapes(3, 2, T3_CTX):
                    cnt += 1
                    if cnt % stride:
                        continue
                    prog = subst(sh, (T3_LEAVES[l0], l1, l2))
                    run_dispatch_case('inst', ws, prog, acc, prop='C04', keep=KEEP)
    finally:
        lg.setLevel(old)
    return acc


def random_case(rng):
    world = 'inst' if rng.random() < 0.8 else 'cls'
    lvl = 'c' if world == 'cls' else 'i'
    nw = rng.choice((1, 2, 2, 3, 3))
    if rng.random() < 0.3:
        ws = rng.choice(CORE_TABLES)
        if world == 'cls':
            ws = tuple(s[:7] + ('c', 0) for s in ws)
    else:
        ws = tuple(rng.choice(watcher_variants(i, lvl)) for i in range(nw))
    n = rng.choice((1, 2, 2, 3, 3, 3))
    leaves = tuple(rng.choice(LEAVES) for _ in range(n))
    prog = rand_forest(rng, leaves, 3)
    return world, ws, prog


@cm.silenced
def work_rand(job):
    seed, n = job
    rng = random.Random(seed)
    lg, old = cm.quiet()
    acc = new_acc()
    try:
        done = tries = 0
        while done < n and tries < 20 * n:
            tries += 1
            world, ws, prog = random_case(rng)
            if not usable(world, ws, prog):
                continue
            if not any(op[0] in ('batch', 'disc', 'uctx', 'upd', 'trig') for op in cm.walk_ops(prog)):
                continue
            done += 1
            run_dispatch_case(world, ws, prog, acc, prop='C04', keep=KEEP)
    finally:
        lg.setLevel(old)
    return acc


# ---------------------------------------------------------------------------------------------
# REF : update(...) as a context manager restores values and links
# ---------------------------------------------------------------------------------------------
REF_SRC = '''import param
from param.parameterized import batch_call_watchers

class S(param.Parameterized):
    x = param.Parameter(default=1)

class T(param.Parameterized):
    r = param.Parameter(default=0, allow_refs=True)
    a = param.Parameter(default=0)

def scenario(shape, keys, relink):
    """shape: nesting of 'B' (batch) and 'U' (with update) - the innermost U is the one under test."""
    s, s2 = S(), S(x=50)
    t = T(r=s.param.x)
    seen = {}
    kw = {}
    for k in keys:
        kw[k] = {'r': 5, 'a': 7}[k]
    def innermost():
        if relink == 'raise':
            try:
                with t.param.update(**kw):
                    seen['inside'] = (t.r, t.a)
                    raise KeyError('body')
            except KeyError:
                pass
            return
        with t.param.update(**kw):
            seen['inside'] = (t.r, t.a)
            if relink == 'relink':
                t.r = s2.param.x
            elif relink == 'plain':
                t.r = 77
            elif relink == 'source':
                s.x = 3
    def nest(i):
        if i == len(shape):
            innermost()
        elif shape[i] == 'B':
            with batch_call_watchers(t):
                nest(i + 1)
        else:
            with t.param.update(a=100 + i):
                nest(i + 1)
    nest(0)
    seen['after'] = (t.r, t.a)
    s.x = 9
    seen['follows'] = t.r
    s2.x = 60
    seen['ignores_other'] = t.r
    return seen
'''
_ref_ns = {}


def ref_expected(shape, keys, relink):
    inside_r = 5 if 'r' in keys else 1
    outer_a = 0
    for i, c in enumerate(shape):
        if c == 'U':
            outer_a = 100 + i
    inside_a = 7 if 'a' in keys else outer_a
    src = 3 if relink == 'source' else 1
    if 'r' in keys:
        after_r = src            # value and link restored: shows the source's current value
    else:
        after_r = {'relink': 50, 'plain': 77, 'source': 3, 'none': 1, 'raise': 1}[relink]
    after = (after_r, 0)
    if 'r' in keys or relink in ('none', 'source', 'raise'):
        follows, ignores = 9, 9
    elif relink == 'relink':
        follows, ignores = 50, 60
    else:
        follows, ignores = 77, 77
    return {'inside': (inside_r, inside_a), 'after': after, 'follows': follows, 'ignores_other': ignores}


def family_ref(B):
    if not _ref_ns:
        exec(REF_SRC, _ref_ns)
    shapes = ['', 'B', 'U', 'BB', 'BU', 'UB', 'UU']
    n = 0
    first = {}
    for shape in shapes:
        for keys in (('r',), ('a',), ('r', 'a'), ('a', 'r')):
            for relink in ('none', 'relink', 'plain', 'source', 'raise'):
                B.case(key=_hash('ref|%s|%s|%s' % (shape, keys, relink)))
                n += 1
                exp = ref_expected(shape, keys, relink)
                try:
                    got = _ref_ns['scenario'](shape, keys, relink)
                except Exception as ex:
                    got = {'exception': repr(ex)}
                for field, clause in (('inside', 'C04/update-context/values-inside'),
                                      ('after', 'C04/update-context/restores-values-on-exit'),
                                      ('follows', 'C04/update-context/restores-links-on-exit'),
                                      ('ignores_other', 'C04/update-context/restores-links-on-exit')):
                    B.checked(clause)
                    if got.get(field) != exp[field]:
                        wit = 'shape=%s keys=%s body=%s field=%s expected=%r actual=%r' % (
                            shape or '-', ','.join(keys), relink, field, exp[field], got.get(field, got))
                        rp = (REPLAY_HEADER.format(prop='C04', name='replay.py', clause=clause, witness=wit)
                              + REF_SRC + '''
got = scenario(%r, %r, %r)
print(got)
if got.get(%r) != %r:
    print('REPRODUCED: %s')
    sys.exit(1)
print('NOT-REPRODUCED')
''' % (shape, keys, relink, field, exp[field], clause))
                        cur = first.get((clause, field))
                        if cur is None:
                            first[(clause, field)] = [clause, wit, 'got=%r expected=%r' % (got, exp), rp, 1]
                        else:
                            cur[4] += 1
                        break
    for key in sorted(first):                  # one witness per clause and observed field (first scenario)
        clause, wit, det, rp, cnt = first[key]
        B.violation(clause, wit, det, rp)
        B._seen[(clause, wit)]['count'] = cnt
    return n


@cm.silenced
def run(tier, seed):
    B = Bounded(
        'C04',
        rule=('N1: every nesting (depth <= 3) of batch_call_watchers / discard_events / `with update()` around one '
              'of %d leaf operations x every single-watcher configuration (instance and class); CORE: %d hand-picked watcher '
              'tables (multi-parameter, mixed onlychanged, precedence, queued, cascades, kwargs, Event, slot) x every forest '
              'with 1 leaf (depth <= 3) or 2 leaves (depth <= 2) of a 9-leaf alphabet; NN: seeded sample of forests with <= 3 leaves (repeats of the same parameter) x 1..3 watchers; '
              'REF: update-context restore of values and links in 7 nestings x 4 key sets x 5 body kinds (incl. a raising body); cases distinct by '
              'canonical text; real trace compared token-wise with the reference model' % (len(LEAVES), len(CORE_TABLES))),
        bound='context nesting depth <= 3; <= 3 leaf operations; <= 3 watchers over {a,b,c,e} + slot a.label; precedence {0,1}')
    stats = {'tolerated': {}, 'foreign': {}, 'skipped': 0}
    lg, old = cm.quiet()
    try:
        family_ref(B)
    finally:
        lg.setLevel(old)
    ctx = multiprocessing.get_context('fork')
    nproc = 16
    with ctx.Pool(nproc) as pool:
        if tier == 'quick':
            j1 = [(j, 40, seed + i) for i, j in enumerate(n1_jobs())]
            j2 = [(j, 30, seed + i) for i, j in enumerate(core_jobs())]
            j3 = [(j, 12, seed + i) for i, j in enumerate(t3_jobs())]
            rand_jobs = [(seed * 1000003 + 104729 * j, 450) for j in range(nproc * 2)]
        else:
            j1 = [(j, 1, 0) for j in n1_jobs()]
            j2 = [(j, 1, 0) for j in core_jobs()]
            j3 = [(j, 1, 0) for j in t3_jobs()]
            rand_jobs = [(seed * 1000003 + 104729 * j + 500000, 2000) for j in range(nproc * 8)]
        asyncs = [pool.map_async(work_n1, j1, 1), pool.map_async(work_core, j2, 1), pool.map_async(work_t3, j3, 1),
                  pool.map_async(work_rand, rand_jobs, 1)]
        for a in asyncs:
            for acc in a.get():
                fold(B, acc, stats)
        emit_groups(B, stats, pool, 'C04')
    B.exhaustive = False
    B.note('REF is exhaustive; N1 and CORE are %s; NN is a seeded sample.'
           % ('exhaustive' if tier != 'quick' else '1/40 slices chosen by the seed'))
    if stats['foreign']:
        B.note('differences classified under C03 clauses (reported by bounded/c03.py, not counted here): %r' % (stats['foreign'],))
    if stats['tolerated']:
        B.note('cases stopped at a difference the statement tolerates: %r' % (stats['tolerated'],))
    if stats.get('n_failing'):
        B.note('%d explored cases fail in total; each violation reports the smallest shrunk witness of its class, '
               '`count` = number of failing cases of that class' % stats['n_failing'])
    if stats['skipped']:
        B.note('%d generated cases left the decided part of the semantics and were not counted' % stats['skipped'])
    return B.result()
