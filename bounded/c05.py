"""Bounded stand-in of C05 - failures never corrupt the dispatch state.

Every scenario = watcher table (one watcher armed to raise at its k-th invocation, possibly queued
and/or assigning before it raises) x a fault operation (watcher raising during set / update /
trigger / Event set / batch flush / update-context / slot set; update rejecting its k-th key,
unknown key, constant key; exception in the body of batch_call_watchers / discard_events /
edit_constant / `with update()` at depth 1 and 2; rejected plain set; constructor rejection) x a
surrounding (top level; caught inside a batch / discard / update-context / nested batch, or escaping
through it) x an optional earlier assignment; plus all pairs of two consecutive faults.

Oracles (all taken from the statement, none from the code)

  probe==fresh-twin   after the faulty program the object is probed (fresh changes-only watcher,
        same-value set, changing set, batch, Event parameter, constant flag, edit_constant, trigger,
        update) and the recorded probe trace must equal the probe trace of a twin built fresh (new
        class, constructor) with equal values and the same watchers.
  still-deferred      after a fault that was caught inside a surrounding batch/discard, no watcher
        runs before that context exits.
  delivered-at-exit   an assignment made after such a fault is delivered exactly once when the
        surrounding batch exits.
  announced-by-raise  changes applied by `update` before the rejected key are delivered by the time
        the call has raised (or, inside a batch, by the time the surrounding batch has exited).
"""
import itertools
import multiprocessing
import sys

import os as _os
_REPO = _os.environ.get('PYVC_REPO', '/repo')
if _REPO not in sys.path:
    sys.path.insert(0, _REPO)

from bounded._api import Bounded, REPLAY_HEADER
from bounded import c03_common as cm
from bounded.c03 import W, _hash

C05_SRC = r'''
PROBE = (('same', 'a'), ('set', 'a', 'p1'), ('batch', (('set', 'a', 'p2'), ('set', 'b', 'p1'))), ('ev',),
         ('kset', 'p1'), ('econst', (('kset', 'p2'),)), ('kset', 'p3'), ('trig', ('a',)),
         ('upd', (('a', 'p3'), ('b', 'p3'))), ('set', 'b', 'p2'))
PROBE_NAMES = ('same-value-set', 'changing-set', 'batch', 'event-parameter', 'constant-set', 'edit_constant',
               'constant-set-again', 'trigger', 'update', 'final-set')


class CatchingMixin:
    """subclass constructor that swallows the rejection of a constructor argument"""
    def __init__(self, **kw):
        try:
            super().__init__(**kw)
        except (ValueError, TypeError):
            pass


def run_probe(d):
    d.armed = False
    start = len(d.tok)
    d.tok.append(('probe-start', d.values()))
    for wid, names in ((90, ('a', 'b')), (91, ('e',))):
        try:
            d.ws.append(d.watch(wid, (names, 'value', True, False, 0, 'args', (), 'i', 0)))
        except Exception as ex:
            d.tok.append(('probe-watch-failed', wid, type(ex).__name__))
    d.run_top(PROBE)
    return d.tok[start:]


def current_values(d):
    return {p: getattr(d.obj, p) for p in ('a', 'b', 'c', 'n', 'k')}


def op_at(prog, path):
    op = None
    cur = prog
    for j in path:
        op = cur[j]
        cur = op[2] if op[0] == 'uctx' else (op[1] if op[0] in ('batch', 'disc', 'econst', 'try') else ())
    return op


def step_of(tokens, i):
    name = 'initial-values'
    for t in tokens[:i + 1]:
        if t[0] == 'op' and len(t[1]) == 1:
            name = PROBE_NAMES[t[1][0]]
        elif t[0] == 'probe-watch-failed':
            name = 'register-fresh-watcher'
    return name


def has_event(tok, name, newr):
    return tok[0] == 'call' and any(len(e) == 5 and e[0] == name and e[3] == newr for e in tok[3])


def c05_check(wspecs, prog, rec, init=None, catching=False):
    """-> dict(findings=[(kind, step, expected, actual)], faulted=bool, fault_tokens, probe, twin_probe)"""
    cls = None
    if catching:
        base = make_class('Base')
        cls = type('P', (CatchingMixin, base), {})
    d = Driver(wspecs, 'inst', init=init, cls=cls)
    d.run_top(prog)
    ft = list(d.tok)
    kinds = {t[1]: t[2] for t in ft if t[0] == 'op'}
    findings = []
    faulted = catching or any((t[0] == 'end' and t[2] != 'ok') or t[0] == 'caught' for t in ft)

    # a raising watcher legitimately pre-empts the watchers after it: delivery to the recording watcher is
    # only demanded when no watcher raised anywhere in the program
    watcher_raised = any((t[0] == 'end' and t[2] == 'WatcherBoom') or (t[0] == 'caught' and t[2] == 'WatcherBoom') for t in ft)

    def index(pred, start=0):
        for i in range(start, len(ft)):
            if pred(ft[i]):
                return i
        return None

    # ---- still deferred inside a surrounding batch / discard after a caught fault
    for i, t in enumerate(ft):
        if t[0] != 'caught':
            continue
        path = t[1]
        enc = [path[:k] for k in range(len(path) - 1, 0, -1) if kinds.get(path[:k]) in ('batch', 'disc')]
        if not enc:
            continue
        P = enc[0]
        end = index(lambda x: x[0] == 'body_end' and x[1] == P, i)
        if end is None:
            end = len(ft)
        calls = [x for x in ft[i + 1:end] if x[0] == 'call']
        if calls:
            findings.append(('still-deferred-inside-surrounding-batch', 'after-caught-fault', 'no watcher call', calls[0]))
        # ---- later assignment delivered exactly once at the exit of the outermost batch
        chain = [kinds.get(path[:k]) for k in range(1, len(path))]
        if 'disc' in chain or 'batch' not in chain or watcher_raised:
            continue
        top_end = index(lambda x: x[0] == 'end' and x[1] == path[:1], i)
        if top_end is None or ft[top_end][2] != 'ok':
            continue
        q = index(lambda x: x[0] == 'op' and x[2] == 'set' and op_at(prog, x[1]) == ('set', 'a', 'q1'), i)
        if q is None or q > top_end:
            continue
        got = [x for x in ft[q:top_end] if x[0] == 'call' and x[1] == rec and has_event(x, 'a', 'int:31')]
        if len(got) < 1:            # (exactly-once is C04's business: trigger inside a batch duplicates)
            findings.append(('later-assignment-delivered-at-batch-exit', 'batch-exit',
                             'a call of the recording watcher with a=31', 'none'))
    # ---- changes applied before the rejected key of update are announced by the time it has raised
    done = False
    for i, t in enumerate(ft):
        if t[0] != 'op' or t[2] not in ('upd', 'updbad', 'uctx') or done or watcher_raised:
            continue
        op = op_at(prog, t[1])
        keys = op[1]
        bad = [j for j, (p, c) in enumerate(keys) if (p == 'n' and c == 'bad') or p in ('zz', 'k')]
        if not bad or ('a', 'u1') not in keys[:bad[0]]:
            continue
        done = True
        path = t[1]
        chain = [kinds.get(path[:k]) for k in range(1, len(path))]
        if 'disc' in chain:
            continue
        before = None                       # value of a shown before the update: must differ from 21
        for x in reversed(ft[:i]):
            if x[0] in ('end', 'call'):
                before = dict(x[3] if x[0] == 'end' else x[4]).get('a')
                break
        if before == 'int:21':
            continue
        if 'batch' in chain or not (len(path) > 1 and kinds.get(path[:-1]) == 'try'):
            dl = index(lambda x: x[0] == 'end' and x[1] == path[:1], i)
        else:
            dl = index(lambda x: x[0] == 'caught' and x[1] == path[:-1], i)
        if dl is None:
            continue
        # inside a batch the event may be coalesced with the later assignment a=31
        got = [x for x in ft[i:dl] if x[0] == 'call' and x[1] == rec
               and (has_event(x, 'a', 'int:21') or ('batch' in chain and has_event(x, 'a', 'int:31')))]
        if not got:
            findings.append(('applied-changes-announced-by-the-time-update-has-raised', 'failing-update',
                             'a call of the recording watcher announcing a=21 before the deadline', 'none'))
    # ---- probe against a fresh twin
    vals = current_values(d)            # the values the object shows after the faulty program
    p1 = run_probe(d)
    tw = Driver(wspecs, 'inst', init=vals)   # fresh class, fresh instance, equal values, same watchers
    p2 = run_probe(tw)
    i = first_diff(p2, p1)
    if i is not None:
        findings.append(('probe==fresh-twin', step_of(p1 if i < len(p1) else p2, i),
                         p2[i] if i < len(p2) else None, p1[i] if i < len(p1) else None))
    return {'findings': findings, 'faulted': faulted, 'fault_tokens': ft, 'probe': p1, 'twin_probe': p2}
'''

_ns = dict(cm._ns)
exec(compile(C05_SRC, '<c05.C05_SRC>', 'exec'), _ns)
c05_check = _ns['c05_check']

REC = W(('a', 'b'))
RECE = W(('e',))


def tables():
    out = [('no-faulty-watcher', (REC, RECE))]
    for k in range(3):
        ws = [W(('a',)) for _ in range(3)]
        ws[k] = W(('a',), fault=1)
        out.append(('watcher%d-of-3' % (k + 1), tuple(ws) + (REC, RECE)))
    out.append(('precedence', (W(('a',), p=1, fault=1), W(('a',), p=0), REC, RECE)))
    out.append(('multi', (W(('a', 'b'), fault=1), REC, RECE)))
    out.append(('on-b', (W(('b',), fault=1), REC, RECE)))
    out.append(('queued', (W(('a',), q=True, fault=1), REC, RECE)))
    out.append(('queued-assigns', (W(('a',), q=True, act=(('b', 'k101'),), fault=1), REC, RECE)))
    out.append(('direct-assigns', (W(('a',), act=(('b', 'k101'),), fault=1), REC, RECE)))
    out.append(('every-set', (W(('a',), oc=False, fault=1), REC, RECE)))
    out.append(('kwargs', (W(('a',), mode='kwargs', fault=1), REC, RECE)))
    out.append(('on-event', (W(('e',), fault=1), REC, RECE)))
    out.append(('on-a-and-event', (W(('a', 'e'), fault=1), REC, RECE)))
    out.append(('second-invocation', (W(('a',), fault=2), REC, RECE)))
    out.append(('slot', (W(('a',), 'label', fault=1), REC, RECE)))
    return out


CTXK = [('batch',), ('disc',), ('econst',), ('uctx', (('c', 'i3'),))]


def _wrap(k, body):
    return ('uctx', k[1], tuple(body)) if k[0] == 'uctx' else (k[0], tuple(body))


def fault_ops():
    F = [
        ('watcher-raises-during-set', ('set', 'a', 'u1')),
        ('watcher-raises-during-update', ('upd', (('a', 'u1'), ('b', 'u2')))),
        ('watcher-raises-during-update', ('upd', (('e', 'T'), ('a', 'u1')))),
        ('watcher-raises-during-trigger', ('trig', ('a',))),
        ('watcher-raises-during-trigger', ('trig', ('e',))),
        ('watcher-raises-during-trigger', ('trig', ('a', 'e'))),
        ('watcher-raises-during-event-set', ('ev',)),
        ('watcher-raises-during-batch-flush', ('batch', (('set', 'a', 'u1'), ('set', 'b', 'u2')))),
        ('watcher-raises-during-update-context', ('uctx', (('a', 'u1'),), (('set', 'b', 'u2'),))),
        ('watcher-raises-during-slot-set', ('slot', 'a', 'label', 'lab1')),
        ('update-rejects-value', ('upd', (('n', 'bad'),))),
        ('update-rejects-value', ('upd', (('a', 'u1'), ('n', 'bad')))),
        ('update-rejects-value', ('upd', (('a', 'u1'), ('b', 'u2'), ('n', 'bad')))),
        ('update-rejects-value', ('upd', (('a', 'u1'), ('n', 'bad'), ('b', 'u2')))),
        ('update-rejects-value', ('upd', (('e', 'T'), ('n', 'bad')))),
        ('update-rejects-value', ('upd', (('a', 'u1'), ('e', 'T'), ('n', 'bad')))),
        ('update-unknown-key', ('updbad', (('a', 'u1'), ('zz', 'i1')))),
        ('update-constant-key', ('upd', (('a', 'u1'), ('k', 'i7')))),
        ('update-context-rejects-value', ('uctx', (('a', 'u1'), ('n', 'bad')), (('set', 'b', 'u2'),))),
        ('set-rejects-value', ('set', 'n', 'bad')),
        ('constant-set-rejected', ('kset', 'i7')),
        ('constructor-rejects-value(other-instance)', ('cons', (('a', 'u1'), ('n', 'bad')))),
    ]
    names = {'batch': 'batch', 'disc': 'discard', 'econst': 'edit_constant', 'uctx': 'update-context'}
    for k in CTXK:
        body = (('kset', 'i7'), ('raise',)) if k[0] == 'econst' else (('set', 'a', 'u1'), ('raise',))
        F.append(('body-raises-in-%s' % names[k[0]], _wrap(k, body)))
    for k1 in CTXK:
        for k2 in CTXK:
            body = (('set', 'a', 'u1'), ('raise',))
            F.append(('body-raises-in-%s/%s' % (names[k1[0]], names[k2[0]]), _wrap(k1, (_wrap(k2, body),))))
    return F


def surround(F, X):
    """(name, program, path of the fault operation inside the program)"""
    pre = (X,) if X else ()
    n = len(pre)
    Q = ('set', 'a', 'q1')
    T = ('try', (F,))
    yield 'top-level', pre + (F,), (n,)
    yield 'caught-in-batch', (('batch', pre + (T, Q)),), (0, n, 0)
    yield 'escapes-batch', (('batch', pre + (F,)),), (0, n)
    yield 'caught-in-discard', (('disc', pre + (T, Q)),), (0, n, 0)
    yield 'escapes-discard', (('disc', pre + (F,)),), (0, n)
    yield 'caught-in-update-context', (('uctx', (('c', 'i2'),), pre + (T, Q)),), (0, n, 0)
    yield 'escapes-update-context', (('uctx', (('c', 'i2'),), pre + (F,)),), (0, n)
    yield 'caught-in-batch-in-batch', (('batch', (('batch', pre + (T, Q)),)),), (0, 0, n, 0)
    yield 'escapes-inner-batch-caught-in-outer', (('batch', (('try', (('batch', pre + (F,)),)), Q)),), (0, 0, 0, n)
    yield 'escapes-edit_constant', (('econst', pre + (F,)),), (0, n)
    yield 'caught-in-discard-in-batch', (('batch', pre + (('disc', (T,)), Q)),), (0, n, 0, 0)


PRE = [None, ('set', 'a', 'i1'), ('set', 'b', 'i1')]


def scenarios():
    """(fault list [(label, path)], surrounding, table tag, wspecs, prog).  Watcher faults are combined with
    every table, the other faults with the table without a faulty watcher (mixtures: see pair_scenarios)."""
    T = tables()
    F = fault_ops()
    for ttag, ws in T:
        for label, f in F:
            if not label.startswith('watcher-raises') and ttag != 'no-faulty-watcher':
                continue
            for X in PRE:
                for sname, prog, fpath in surround(f, X):
                    yield [(label, fpath)], sname, ttag, ws, tuple(prog)


PAIR_FAULTS = [0, 1, 3, 6, 7, 11, 15, 16, 17, 22, 23, 24]      # indices into fault_ops()
PAIR_TABLES = ['no-faulty-watcher', 'watcher2-of-3', 'queued-assigns', 'on-a-and-event', 'second-invocation']


def pair_scenarios():
    """two consecutive faults; a finding is reported under the two-faults label only when neither fault alone
    (same table, same surrounding) produces a finding of the same signature"""
    T = dict(tables())
    F = fault_ops()
    Q = ('set', 'a', 'q1')
    for ttag in PAIR_TABLES:
        ws = T[ttag]
        for i in PAIR_FAULTS:
            for j in PAIR_FAULTS:
                f1, f2 = F[i][1], F[j][1]
                yield ([(F[i][0], (0,)), (F[j][0], (1,))], 'top-level', ttag, ws, (f1, f2),
                       [(f1,), (f2,)])
                yield ([(F[i][0], (0, 0, 0)), (F[j][0], (0, 1, 0))], 'caught-in-batch', ttag, ws,
                       (('batch', (('try', (f1,)), ('try', (f2,)), Q)),),
                       [(('batch', (('try', (f1,)), Q)),), (('batch', (('try', (f2,)), Q)),)])


PHASE = {'set': 'set', 'upd': 'update', 'updbad': 'update', 'trig': 'trigger', 'ev': 'event-set',
         'batch': 'batch-flush', 'uctx': 'update-context', 'slot': 'slot-set', 'disc': 'discard',
         'econst': 'edit_constant', 'kset': 'set', 'cons': 'constructor'}


def outcome_of(ft, fpath):
    """exception class name with which the operation at ``fpath`` ended, or None (completed / never started)"""
    start = None
    for i, t in enumerate(ft):
        if t[0] == 'op' and t[1] == fpath:
            start = i
            break
    if start is None:
        return None
    for t in ft[start + 1:]:
        if t[0] == 'end' and t[1] == fpath:
            return None if t[2] == 'ok' else t[2]
        if t[0] == 'caught':
            return t[2]
        if t[0] == 'end' and t[2] != 'ok' and fpath[:len(t[1])] == t[1]:
            return t[2]
    return None


def scenario_label(flist, ws, prog, ft):
    parts = []
    faulty = [s for s in ws if s[8]]
    pre = ''
    if faulty and faulty[0][6]:
        pre = 'queued-assigning-' if faulty[0][3] else 'assigning-'
    for label, fpath in flist:
        out = outcome_of(ft, fpath)
        if out is None:
            continue
        kind = _ns['op_at'](prog, fpath)[0]
        if out == 'WatcherBoom':
            parts.append(pre + 'watcher-raises-during-' + PHASE[kind])
        elif label.startswith('watcher-raises'):
            parts.append('unexpected-%s-during-%s' % (out, PHASE[kind]))
        else:
            parts.append(label)
    if not parts:
        # no designated operation raised, but some other operation of the program did
        # (e.g. the flush at the exit of the surrounding batch ran the faulty watcher)
        kinds = {t[1]: t[2] for t in ft if t[0] == 'op'}
        for t in ft:
            if t[0] == 'end' and t[2] != 'ok':
                k = kinds.get(t[1])
            elif t[0] == 'caught':
                k = 'try'
            else:
                continue
            out = t[2]
            if out == 'WatcherBoom':
                return pre + 'watcher-raises-during-' + PHASE.get(k, k)
            return 'unexpected-%s-during-%s' % (out, PHASE.get(k, k))
        return None
    if len(parts) == 1:
        return parts[0]
    return 'two-faults(%s+%s)' % tuple(parts[:2])


# the 'cons' operation (constructor of ANOTHER instance rejects a value) lives in the driver of C05 only
_DRIVER_PATCH = r'''
_orig_do = Driver.do
def _do(self, op, path):
    if op[0] == 'cons':
        self.P(**{p: val(c) for p, c in op[1]})
    else:
        _orig_do(self, op, path)
Driver.do = _do
'''
exec(_DRIVER_PATCH, _ns)
_old_op_text = cm.op_text


def _op_text(op):
    if op[0] == 'cons':
        return 'construct(%s)' % ','.join('%s=%s' % (p, cm.VALS[c]) for p, c in op[1])
    return _old_op_text(op)


cm.op_text = _op_text


def constructor_scenarios():
    """the object itself comes out of a constructor that rejected a value (swallowed by a subclass __init__)"""
    for kws in ((('n', 'bad'),), (('a', 'u1'), ('n', 'bad')), (('n', 'bad'), ('a', 'u1')),
                (('a', 'u1'), ('b', 'u2'), ('n', 'bad')), (('k', 'i7'), ('n', 'bad')), (('e', 'T'), ('n', 'bad'))):
        yield kws


def replay_text(clause, witness, wspecs, prog, rec, init, catching, kind, step):
    head = REPLAY_HEADER.format(prop='C05', name='replay.py', clause=clause, witness=witness)
    body = '''
WATCHERS = %r
# (names, what, onlychanged, queued, precedence, mode, assignments-made-by-callback, level, raises-at-invocation)
PROGRAM = %r
INIT = %r          # constructor arguments (values given as codes of VALS); CATCHING: subclass __init__ swallows the rejection
CATCHING = %r
lg, old = quiet()
init = {p: val(c) for p, c in INIT} if INIT else None
res = c05_check(WATCHERS, PROGRAM, %r, init=init, catching=CATCHING)
lg.setLevel(old)
print('trace of the faulty program:')
for t in res['fault_tokens']:
    print('   ', t)
hits = [f for f in res['findings'] if f[0] == %r]
for f in res['findings']:
    print('finding:', f[0], '| at', f[1])
    print('    expected (fresh twin / statement):', f[2])
    print('    actual                           :', f[3])
if hits:
    print('REPRODUCED: %s')
    sys.exit(1)
print('NOT-REPRODUCED')
''' % (tuple(wspecs), tuple(prog), init, catching, rec, kind, clause)
    return head + cm.RUNTIME_SRC + _DRIVER_PATCH + C05_SRC + body


def _tok(t):
    if t is None:
        return 'END-OF-TRACE'
    if isinstance(t, tuple):
        if t[0] == 'end':
            vals = ','.join('%s=%s' % (p, r.split(':', 1)[1]) for p, r in t[3])
            return 'end(%s;%s)' % (t[2], vals)
        if t[0] == 'probe-start':
            return 'start(%s)' % ','.join('%s=%s' % (p, r.split(':', 1)[1]) for p, r in t[1])
        return cm.tok_text(t)
    return str(t)


def finding_sig(f):
    kind, step, exp, act = f
    return (kind, step, exp[0] if isinstance(exp, tuple) else str(exp), act[0] if isinstance(act, tuple) else str(act))


_SINGLE_CACHE = {}


def single_sigs(ws, prog):
    key = (ws, prog)
    if key not in _SINGLE_CACHE:
        if len(_SINGLE_CACHE) > 5000:
            _SINGLE_CACHE.clear()
        res = c05_check(ws, prog, len(ws) - 2)
        _SINGLE_CACHE[key] = {finding_sig(f) for f in res['findings']}
    return _SINGLE_CACHE[key]


def run_scenario(flist, sname, ttag, ws, prog, acc, init=None, catching=False, singles=None):
    rec = len(ws) - 2 if ws else -1
    try:
        res = c05_check(ws, prog, rec, init={p: cm.val(c) for p, c in init} if init else None, catching=catching)
    except Exception as ex:
        acc['crash'].append((cm.case_text('inst', ws, prog), repr(ex)))
        return
    if catching:
        label = 'constructor-rejects-value'
    else:
        label = scenario_label(flist, ws, prog, res['fault_tokens'])
    res['faulted'] = label is not None
    if label is None:
        label = 'no-exception-occurred'
    txt = 'fault=%s where=%s table=%s %s' % (label, sname, ttag, cm.case_text('inst', ws, prog))
    if init:
        txt += ' constructor(%s)' % ','.join('%s=%s' % (p, cm.VALS[c]) for p, c in init)
    acc['n'] += 1
    if res['faulted']:
        acc['keys'].append(_hash(txt))
    else:
        acc['trivial'] += 1
    for c in ('probe==fresh-twin', 'still-deferred-inside-surrounding-batch',
              'later-assignment-delivered-at-batch-exit',
              'applied-changes-announced-by-the-time-update-has-raised'):
        acc['checked'][c] = acc['checked'].get(c, 0) + 1
    if len(acc['samples']) < 1 and res['faulted'] and not res['findings']:
        acc['samples'].append({'case': txt, 'fault_trace': [cm.tok_text(t) for t in res['fault_tokens']][:30]})
    explained = set()
    if singles and res['findings']:
        for sp in singles:
            explained |= single_sigs(ws, tuple(sp))
    for (kind, step, exp, act) in res['findings']:
        if finding_sig((kind, step, exp, act)) in explained:
            acc['explained'] += 1
            continue
        clause = 'C05/%s' % kind
        wit = '%s step=%s expected=%s actual=%s' % (txt, step, _tok(exp), _tok(act))
        ekind = exp[0] if isinstance(exp, tuple) else str(exp)
        akind = act[0] if isinstance(act, tuple) else str(act)
        gk = repr((clause, label, step, ekind, akind))
        cur = acc['groups'].get(gk)
        if cur is None:
            acc['groups'][gk] = {'n': 1, 'clause': clause, 'wit': wit,
                                 'args': (tuple(ws), tuple(prog), rec, init, catching, kind, step),
                                 'detail': 'probe of the faulted object: %r\nprobe of the fresh twin  : %r'
                                           % (res['probe'], res['twin_probe'])}
        else:
            cur['n'] += 1
            if (len(wit), wit) < (len(cur['wit']), cur['wit']):
                cur['wit'] = wit
                cur['args'] = (tuple(ws), tuple(prog), rec, init, catching, kind, step)
                cur['detail'] = ('probe of the faulted object: %r\nprobe of the fresh twin  : %r'
                                 % (res['probe'], res['twin_probe']))


def new_acc():
    return {'n': 0, 'keys': [], 'trivial': 0, 'checked': {}, 'groups': {}, 'samples': [], 'crash': [], 'explained': 0}


@cm.silenced
def work(job):
    family, part, nparts, stride, offset = job
    lg, old = cm.quiet()
    acc = new_acc()
    try:
        gen = scenarios() if family == 'single' else pair_scenarios()
        for i, sc in enumerate(gen):
            if i % nparts != part:
                continue
            if (i // nparts) % stride != offset % stride:
                continue
            flist, sname, ttag, ws, prog = sc[:5]
            run_scenario(flist, sname, ttag, ws, tuple(prog), acc, singles=sc[5] if len(sc) > 5 else None)
    finally:
        lg.setLevel(old)
    return acc


@cm.silenced
def run(tier, seed):
    nt, nf = len(tables()), len(fault_ops())
    B = Bounded(
        'C05',
        rule=('%d watcher tables (k-th of 3 watchers raising, precedence, multi-parameter, queued, assigning before it raises, '
              'kwargs, Event, slot, raising at the 2nd invocation) x %d fault operations (watcher raising in set / update / '
              'trigger / Event set / batch flush / update-context / slot set; update rejecting the 1st..3rd key, unknown key, '
              'constant key; rejected set; constructor of a sibling rejecting; body raising in each of 4 managers at depth 1 '
              'and in all 16 pairs at depth 2) x 11 surroundings (top level; caught inside / escaping batch, discard, '
              'update-context, nested batch, edit_constant) x 3 earlier assignments; all pairs of 12 faults x 5 tables x 2 '
              'surroundings; constructor of the object itself rejecting (swallowed by a subclass __init__), 6 argument orders; '
              'distinct = canonical text of a scenario in which an exception really occurred; each followed by the '
              '10-step probe compared with a fresh twin' % (nt, nf)),
        bound='programs <= 3 operations, context depth <= 2 around the fault (+1 for the fault operation itself), <= 2 faults, 3+2 watchers')
    groups = {}
    lg, old = cm.quiet()
    acc0 = new_acc()
    try:
        for kws in constructor_scenarios():
            run_scenario([], 'subclass-init-swallows', 'no-watchers', (), (), acc0,
                         init=kws, catching=True)
    finally:
        lg.setLevel(old)
    ctx = multiprocessing.get_context('fork')
    nproc = 16
    if tier == 'quick':
        jobs = [('single', p, nproc, 9, seed) for p in range(nproc)] + [('pair', p, nproc, 9, seed) for p in range(nproc)]
    else:
        jobs = [('single', p, nproc * 4, 1, 0) for p in range(nproc * 4)] + [('pair', p, nproc, 1, 0) for p in range(nproc)]
    with ctx.Pool(nproc) as pool:
        accs = [acc0] + pool.map(work, jobs, 1)
    trivial = 0
    explained = 0
    for acc in accs:
        explained += acc['explained']
        for _ in range(acc['trivial']):
            B.case(key=None, nontrivial=False)
        for k in acc['keys']:
            B.case(key=k)
        trivial += acc['trivial']
        for c, n in acc['checked'].items():
            B.checked('C05/' + c, n)
        for s in acc['samples']:
            B.sample(s)
        for cr in acc['crash']:
            B.note('checker crashed on %s: %s' % cr)
        for gk, g in acc['groups'].items():
            cur = groups.get(gk)
            if cur is None:
                groups[gk] = dict(g)
            else:
                cur['n'] += g['n']
                if (len(g['wit']), g['wit']) < (len(cur['wit']), cur['wit']):
                    cur.update(wit=g['wit'], args=g['args'], detail=g['detail'])
    for gk in sorted(groups):
        g = groups[gk]
        ws, prog, rec, init, catching, kind, step = g['args']
        B.violation(g['clause'], g['wit'], g['detail'],
                    replay_text(g['clause'], g['wit'], ws, prog, rec, init, catching, kind, step))
        B._seen[(g['clause'], g['wit'])]['count'] = g['n']
    B.exhaustive = (tier != 'quick')
    B.note('%d generated scenarios raised no exception at all (fault operation without a matching faulty watcher); they are '
           'run (the probe must still equal the twin) but not counted as distinct non-trivial cases' % trivial)
    B.note('%d findings of two-fault scenarios also occur with one of the two faults alone and are reported there' % explained)
    if tier == 'quick':
        B.note('quick explores a 1/9 slice of the scenario list chosen by the seed')
    B.note('each violation reports the smallest witness of its class (clause x kind of fault x probe step x kind of difference); '
           '`count` = failing scenarios of the class')
    return B.result()
