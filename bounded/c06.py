"""Bounded stand-in layer for C06 -- `depends(watch=True)` methods run exactly once per change of
a dependency.

What is driven: the REAL metaclass / `Parameterized.__init__` / dispatcher of /repo, through
generated class families and short programs.  What is checked (oracle written from the property
statement only, never from `_depends`):

* every generated method appends its own *definition site* ("B.m1") to an invocation log;
* after each step of a program the delta of the log is compared with the expectation computed on
  a symbolic description of the family:

      resolved(K, m)  = definition of m in the first class of K.__mro__ that defines m
      watched(K, m)   = resolved(K, m) is decorated with watch=True
      deps(K, m)      = declared dependencies of resolved(K, m); a method name n among them is
                        replaced by deps(K, n) (n resolved on K as getattr would)

  one assignment / update / batch that changes >= 1 element of deps(K, m) => exactly one call of
  resolved(K, m) (and of no other definition of m); no element changed => no call; an
  undecorated resolved definition is never called; construction => exactly one call iff
  on_init.

* assigning methods (section "assigning methods" below): an `on_init=True` method whose body
  ASSIGNS a parameter during construction, other `watch=True` methods declared earlier / later /
  in a base class / in a subclass that depend on the assigned parameter (and may assign a further
  one), every declaration order: each call of an assigning method is one assignment that every
  dependent method must see exactly once, `on_init` adds exactly one call;

* fault / history family (section "fault / history family" below): a watcher that RAISES during an
  assignment / update / batch (a `watch='queued'` or `watch=True` depends method, a queued or plain
  `param.watch` callback; the caller catches the exception) and dependencies changed inside
  `param.discard_events(obj)` (also nested in a batch) -- the operations that follow must invoke
  every depends(watch=True) method exactly once iff one of ITS dependencies changed (nothing is
  demanded for the raising / discarding step itself beyond "not more often than normally");
* sub-object family: a method depending on parameters of sub-objects ('s.x', 'r.x', next to a direct
  parameter) under update / batch that replace the sub-objects: one call per update / batch.
* mixed-kind family (bounded/c06_mix.py): a method whose dependency set mixes values, slot specs of
  parameters of the same object ('x', 'z:bounds', 'x:bounds', 'z:constant') and other methods that
  reach the same parameter again, under every batching form (batch, nested batches, batch_watch,
  update inside a batch, discard_events inside / around a batch): STRICTLY one call per batch.

* deep sub-object family (bounded/c07_multi.py, shared with C07): 1-3 watch=True methods over sub-object paths of
  depth 1-3 sharing prefixes; every single operation (replacement at EVERY level by an object with equal /
  different nested values, detach, re-attach, leaf assignment) as assignment / update / batch on the owner /
  batch on the top object: exactly one call of every method whose reached value changed, none of the others.

* dependency-list family (bounded/c06_deps.py): function form with Parameter-object dependencies of three objects in
  EVERY ORDER (every permutation of every subset of 2-4 of five Parameters, 0-2 of them as keywords; interleaved
  owners) under set / update / batch on every owner: one call per operation changing a listed Parameter;  EMPTY
  dependency lists (`depends(watch=True)`, `depends(on_init=True, watch=True)`, `depends()`) and methods naming such
  methods (directly / through a further method / next to a parameter): never called after construction, exactly one
  on_init call.

Lenient readings (never demand more than the statement):

* a method hit by n >= 2 separate assignments made by other methods inside ONE top-level step
  (construction or one operation) is allowed 1..n calls for them;
* a batch that changes dependencies of two different kinds at once (a parameter *value* and a
  slot such as `p:bounds`) is allowed 1..2 calls (DESIGN.md section 7 groups by (owner, what)) in the
  class-family part; the mixed-kind family reads the statement literally (one batch = one call) and
  the pinned tree's "one call per kind of dependency changed" is the known finding C06-b07;
* when a method names another method as a dependency and that method resolves to an
  *undecorated* definition on K ("depends on everything" in param's convention) the parameters
  not otherwise declared are "either";
* a violation that exists only because a *named method dependency* is resolved on the instance's
  class (as getattr and `param.method_dependencies()` do) and not on the class where the naming
  method was written is reported under its own clause (`.../via-method`) and only if the real
  `obj.param.method_dependencies(m)` agrees with the oracle's dependency set.
"""
import itertools
import logging
import os
import random
import subprocess
import sys
import tempfile
import warnings
from concurrent.futures import ProcessPoolExecutor

from bounded._api import Bounded, REPLAY_HEADER
from bounded import c06_mix
from bounded import c06_deps
from bounded import c07_multi

# ------------------------------------------------------------------------------------------
# symbolic description of a family
# ------------------------------------------------------------------------------------------
M1_DEPS = [('a',), ('b',), ('a', 'b'), ('p:bounds',), ('a', 'p:bounds')]
M2_DEPS = [('a',), ('b',), ('a', 'b'), ('p:bounds',), ('m1',), ('m1', 'b')]
OTHER = {('a',): ('b',), ('b',): ('a',), ('a', 'b'): ('a',), ('p:bounds',): ('a',),
         ('a', 'p:bounds'): ('b',), ('m1',): ('b',), ('m1', 'b'): ('a',)}
KINDS = ['-', 'same', 'other', 'undec']          # override kinds of one method in one subclass
KINDS5 = KINDS + ['nowatch']                     # + decorated without watch (core / sampled families only)

SHAPES = {
    # name: list of (class name, base names); the first class is the root carrying the parameters
    'chain1': [('A', ())],
    'chain2': [('A', ()), ('B', ('A',))],
    'chain3': [('A', ()), ('B', ('A',)), ('C', ('B',))],
    'chain4': [('A', ()), ('B', ('A',)), ('C', ('B',)), ('D', ('C',))],
    'diamond': [('A', ()), ('P1', ('A',)), ('P2', ('A',)), ('D', ('P1', 'P2'))],
    'vee': [('A', ()), ('R', ()), ('D', ('A', 'R'))],      # two independent Parameterized roots
}

OPS = ['sa', 'sa=', 'sb', 'sv', 'sp', 'sp=', 'uab', 'ua=b', 'u==', 'ub', 'bab', 'b==', 'bap']
# what each op changes: set of ('value'|'bounds', name) actually changed, and its class
OP_CHANGES = {
    'sa': {('value', 'a')}, 'sa=': set(), 'sb': {('value', 'b')}, 'sv': {('value', 'p')},
    'sp': {('bounds', 'p')}, 'sp=': set(),
    'uab': {('value', 'a'), ('value', 'b')}, 'ua=b': {('value', 'b')}, 'u==': set(),
    'ub': {('value', 'b')},
    'bab': {('value', 'a'), ('value', 'b')}, 'b==': set(),
    'bap': {('value', 'a'), ('bounds', 'p')},
}
OP_CLASS = {'sa': 'set', 'sa=': 'set-same', 'sb': 'set', 'sv': 'set', 'sp': 'slot', 'sp=': 'slot-same',
            'uab': 'update', 'ua=b': 'update', 'u==': 'update-same', 'ub': 'update',
            'bab': 'batch', 'b==': 'batch-same', 'bap': 'batch-mixed'}


# fault / history operations (never part of the seeded permutations above; see "fault / history family")
#   d*: the assignments are made inside `with param.discard_events(o)`; bd*: ... nested in a batch that
#   also assigns the other parameter outside the discarding block;  x*: made while the raiser is armed
HF_DISCARD = ['da', 'db', 'dab', 'dp', 'bda', 'bdb']
HF_RAISE = ['xs', 'xu', 'xbt']           # armed: set of the raiser's own dependency / update(a, b) / batch(a, b)
for _op, _ch in (('da', {('value', 'a')}), ('db', {('value', 'b')}), ('dab', {('value', 'a'), ('value', 'b')}),
                 ('dp', {('bounds', 'p')}), ('bda', {('value', 'a'), ('value', 'b')}),
                 ('bdb', {('value', 'a'), ('value', 'b')}),
                 ('xsa', {('value', 'a')}), ('xsb', {('value', 'b')}),
                 ('xu', {('value', 'a'), ('value', 'b')}), ('xbt', {('value', 'a'), ('value', 'b')})):
    OP_CHANGES[_op] = _ch
    OP_CLASS[_op] = 'discard' if _op[0] in 'db' else 'raise'
HF_OPS = set(HF_DISCARD) | {'xsa', 'xsb', 'xu', 'xbt'}
ALL_OPS = OPS + HF_DISCARD + ['xsa', 'xsb', 'xu', 'xbt']
HF_RAISERS = [(k, d) for k in ('mq', 'mw', 'wq', 'wn') for d in ('a', 'b')]
#   mq / mw: a third method  @param.depends(d, watch='queued' / True)  def mr(self): raises when armed
#   wq / wn: o.param.watch(callback, [d], queued=True / False), the callback raises when armed


def family_spec(shape, m1, m2, ov):
    """m1 = (deps, on_init); m2 = None | (deps, on_init); ov = {cls: (kind_m1, kind_m2)}.
    Returns {cls: {'m1': None | ('dec', deps, on_init) | ('undec',), 'm2': ...}}"""
    spec = {}
    for i, (cname, _bases) in enumerate(SHAPES[shape]):
        d = {}
        if i == 0:
            d['m1'] = ('dec', m1[0], m1[1])
            d['m2'] = None if m2 is None else ('dec', m2[0], m2[1])
        else:
            k1, k2 = ov.get(cname, ('-', '-'))
            for mname, base, k in (('m1', m1, k1), ('m2', m2, k2)):
                if base is None or k == '-':
                    d[mname] = None
                elif k == 'same':
                    d[mname] = ('dec', base[0], base[1])
                elif k == 'other':
                    d[mname] = ('dec', OTHER[base[0]], base[1])
                elif k == 'nowatch':      # decorated with the same dependencies but without watch=True
                    d[mname] = ('decnw', base[0], False)
                elif k == 'undec':
                    d[mname] = ('undec',)
        spec[cname] = d
    return spec


def valid_family(shape, m1, m2, ov):
    """every method naming 'm1' must find an m1 on its own class (generator sanity, vee only)"""
    spec = family_spec(shape, m1, m2, ov)
    for c, _b in SHAPES[shape]:
        d = spec[c]['m2']
        if d is not None and d[0] in ('dec', 'decnw') and 'm1' in d[1] and resolved(shape, spec, c, 'm1')[1] is None:
            return False
    return True


def family_key(shape, m1, m2, ov):
    def ms(m):
        return '-' if m is None else '+'.join(m[0]) + ('!' if m[1] else '')
    o = ','.join('%s:%s/%s' % (c, ov[c][0], ov[c][1]) for c, _ in SHAPES[shape][1:]) or '-'
    return 'shape=%s m1=%s m2=%s ov=%s' % (shape, ms(m1), ms(m2), o)


# ------------------------------------------------------------------------------------------
# source text of a family (used both to build the real classes and in replay scripts)
# ------------------------------------------------------------------------------------------
def family_source(shape, spec, raiser=None):
    out = ["import logging, warnings", "import param",
           "warnings.simplefilter('ignore')",
           "param.parameterized.get_logger().setLevel(logging.CRITICAL)",
           "LOG = []"]
    if raiser is not None:
        out += ["ARM = [False]", "class Boom(Exception):", "    pass",
                "def RCB(*events):", "    if ARM[0]:", "        raise Boom('the watcher raises')"]
    for i, (cname, bases) in enumerate(SHAPES[shape]):
        root = not bases
        out.append("class %s(%s):" % (cname, ', '.join(bases) if bases else 'param.Parameterized'))
        body = []
        if root:
            body += ["a = param.Integer(0)", "b = param.Integer(0)",
                     "p = param.Number(1, bounds=(0, 10))"]
        for mname in ('m1', 'm2'):
            d = spec[cname][mname]
            if d is None:
                continue
            if d[0] == 'dec':
                body.append("@param.depends(%s, watch=True%s)" % (
                    ', '.join(repr(x) for x in d[1]), ', on_init=True' if d[2] else ''))
            elif d[0] == 'decnw':
                body.append("@param.depends(%s)" % ', '.join(repr(x) for x in d[1]))
            body.append("def %s(self): LOG.append('%s.%s')" % (mname, cname, mname))
        if root and raiser is not None and raiser[0] in ('mq', 'mw'):
            body.append("@param.depends(%r, watch=%s)" % (raiser[1], "'queued'" if raiser[0] == 'mq' else 'True'))
            body.append("def mr(self): RCB()")
        if not body:
            body = ["pass"]
        out += ["    " + b for b in body]
    return '\n'.join(out) + '\n'


def op_source(op, n):
    """python statements performing op number n (n makes fresh values) on object `o`."""
    fresh, fresh2 = 100 + 2 * n, 101 + 2 * n
    fb = "(0, %d)" % (20 + n)
    if op in HF_OPS:
        body = {'da': ["o.a = %d" % fresh], 'db': ["o.b = %d" % fresh],
                'dab': ["o.a = %d" % fresh, "o.b = %d" % fresh2], 'dp': ["o.param.p.bounds = %s" % fb],
                'xsa': ["o.a = %d" % fresh], 'xsb': ["o.b = %d" % fresh],
                'xu': ["o.param.update(a=%d, b=%d)" % (fresh, fresh2)],
                'xbt': ["with param.parameterized.batch_call_watchers(o):",
                        "    o.a = %d" % fresh, "    o.b = %d" % fresh2]}
        if op in ('bda', 'bdb'):
            inner, outer = ('a', 'b') if op == 'bda' else ('b', 'a')
            return ["with param.parameterized.batch_call_watchers(o):",
                    "    with param.parameterized.discard_events(o):",
                    "        o.%s = %d" % (inner, fresh),
                    "    o.%s = %d" % (outer, fresh2)]
        if op[0] == 'd':
            return ["with param.parameterized.discard_events(o):"] + ["    " + b for b in body[op]]
        return ["ARM[0] = True", "try:"] + ["    " + b for b in body[op]] + \
            ["except Boom:", "    pass", "finally:", "    ARM[0] = False"]
    return {
        'sa': ["o.a = %d" % fresh],
        'sa=': ["o.a = o.a"],
        'sb': ["o.b = %d" % fresh],
        'sv': ["o.p = o.p + 0.25 if o.p < 5 else o.p - 0.25"],
        'sp': ["o.param.p.bounds = %s" % fb],
        'sp=': ["o.param.p.bounds = tuple(o.param.p.bounds)"],
        'uab': ["o.param.update(a=%d, b=%d)" % (fresh, fresh2)],
        'ua=b': ["o.param.update(a=o.a, b=%d)" % fresh],
        'u==': ["o.param.update(a=o.a, b=o.b)"],
        'ub': ["o.param.update(b=%d)" % fresh],
        'bab': ["with param.parameterized.batch_call_watchers(o):",
                "    o.a = %d" % fresh, "    o.b = %d" % fresh2],
        'b==': ["with param.parameterized.batch_call_watchers(o):",
                "    o.a = o.a", "    o.b = o.b"],
        'bap': ["with param.parameterized.batch_call_watchers(o):",
                "    o.a = %d" % fresh, "    o.param.p.bounds = %s" % fb],
    }[op]


# ------------------------------------------------------------------------------------------
# oracle
# ------------------------------------------------------------------------------------------
import functools


@functools.lru_cache(maxsize=None)
def mro_names(shape, cname):
    """C3 linearisation restricted to the generated classes (computed here, not read from param)."""
    bases = dict(SHAPES[shape])

    def lin(c):
        bs = bases[c]
        seqs = [lin(b) for b in bs] + [list(bs)]
        res = [c]
        while any(seqs):
            for s in seqs:
                if not s:
                    continue
                h = s[0]
                if not any(h in t[1:] for t in seqs):
                    break
            else:
                raise TypeError('no MRO')
            res.append(h)
            seqs = [[x for x in s if x != h] for s in seqs]
        return res
    return tuple(lin(cname))


def resolved(shape, spec, cname, mname):
    for c in mro_names(shape, cname):
        d = spec[c][mname]
        if d is not None:
            return c, d
    return None, None


def deps_of(shape, spec, cname, mname, root_deps_only=False):
    """(set of (what, name), fuzzy, via_method)  for the method getattr(cname, mname) resolves to.
    fuzzy: a named method resolves to an undecorated definition -> 'depends on everything'."""
    c, d = resolved(shape, spec, cname, mname)
    out, fuzzy, via = set(), False, False
    if d is None or d[0] not in ('dec', 'decnw'):
        return out, fuzzy, via
    for s in d[1]:
        if s in ('m1', 'm2'):
            via = True
            c2, d2 = resolved(shape, spec, cname, s)
            if d2 is None or d2[0] not in ('dec', 'decnw'):
                fuzzy = True
            else:
                sub, f2, _ = deps_of(shape, spec, cname, s)
                out |= sub
                fuzzy = fuzzy or f2
        elif ':' in s:
            n, w = s.split(':')
            out.add((w, n))
        else:
            out.add(('value', s))
    return out, fuzzy, via


def deps_static(shape, spec, defcls, mname):
    """(deps, fuzzy) as they would be if named methods were resolved on the DEFINING class of the
    naming method (the competing reading; used only to classify a violation as 'via-method')."""
    d = spec[defcls][mname]
    out, fuzzy = set(), False
    for s in d[1]:
        if s in ('m1', 'm2'):
            c2, d2 = resolved(shape, spec, defcls, s)
            if d2 is not None and d2[0] in ('dec', 'decnw'):
                sub, f2 = deps_static(shape, spec, c2, s)
                out |= sub
                fuzzy = fuzzy or f2
            else:
                fuzzy = True
        elif ':' in s:
            n, w = s.split(':')
            out.add((w, n))
        else:
            out.add(('value', s))
    return out, fuzzy


def expected_calls(shape, spec, cname, op):
    """{definition-site: (lo, hi)} for one op on an instance of cname; sites not listed: (0, 0)."""
    exp = {}
    changed = OP_CHANGES[op]
    for mname in ('m1', 'm2'):
        c, d = resolved(shape, spec, cname, mname)
        if d is None or d[0] != 'dec':
            continue
        deps, fuzzy, via = deps_of(shape, spec, cname, mname)
        hit = deps & changed
        site = '%s.%s' % (c, mname)
        if hit:
            kinds = {w for w, _ in hit}
            exp[site] = (0 if op in HF_OPS else 1, len(kinds))
        elif fuzzy and changed:
            exp[site] = (0, len({w for w, _ in changed}))
        else:
            exp[site] = (0, 0)
    return exp


def expected_init(shape, spec, cname):
    exp = {}
    for mname in ('m1', 'm2'):
        c, d = resolved(shape, spec, cname, mname)
        if d is None or d[0] != 'dec':
            continue
        exp['%s.%s' % (c, mname)] = (1, 1) if d[2] else (0, 0)
    return exp


# ------------------------------------------------------------------------------------------
# running one family
# ------------------------------------------------------------------------------------------
def _silence():
    import param
    warnings.simplefilter('ignore')
    param.parameterized.get_logger().setLevel(logging.CRITICAL)


def compare(log, exp):
    """list of (site, got, lo, hi) discrepancies"""
    got = {}
    for s in log:
        got[s] = got.get(s, 0) + 1
    bad = []
    for s in sorted(set(got) | set(exp)):
        lo, hi = exp.get(s, (0, 0))
        g = got.get(s, 0)
        if not (lo <= g <= hi):
            bad.append((s, g, lo, hi))
    return bad


_CODE = {}


def op_code(op, i, fn=False):
    k = (op, i, fn)
    c = _CODE.get(k)
    if c is None:
        c = _CODE[k] = compile('\n'.join(fn_op_source(op, i) if fn else op_source(op, i)), '<op>', 'exec')
    return c


def run_family(task):
    """task = (shape, m1, m2, ov, programs) ; programs = {cname: [list of op tuples]} or 'perm:<seed>'
    returns (ncases, keys, clause_counts, violations)"""
    shape, m1, m2, ov, progspec = task
    _silence()
    spec = family_spec(shape, m1, m2, ov)
    fkey = family_key(shape, m1, m2, ov)
    hf = progspec[0] == 'hf'          # fault / history family: ('hf', programs, raiser or None)
    raiser = progspec[2] if hf else None
    if hf:
        fkey += ' raiser=%s' % (':'.join(raiser) if raiser else '-')
    clause_d = HF_CLAUSE if hf else 'C06/dispatch/invocations == [changed & deps(resolved method) != {}]'
    src = family_source(shape, spec, raiser)
    ns = {}
    exec(compile(src, '<family>', 'exec'), ns)
    LOG = ns['LOG']
    ncases, keys, cc, viols = 0, [], {}, []
    expcache = {}

    def chk(clause, n=1):
        cc[clause] = cc.get(clause, 0) + n

    for cname, _b in SHAPES[shape]:
        K = ns[cname]
        if progspec[0] == 'perm':
            rnd = random.Random('%s|%s|%s' % (progspec[1], fkey, cname))
            perm = OPS[:]
            rnd.shuffle(perm)
            programs = [tuple(perm)]
            for _ in range(progspec[2]):
                programs.append(tuple(rnd.choice(OPS) for _ in range(rnd.randint(2, 3))))
        else:
            programs = progspec[1]
        for ctor_kw in (False, True) if progspec[0] == 'perm' else (False,):
            for prog in programs if not ctor_kw else programs[:1]:
                ncases += 1
                keys.append('%s cls=%s ctor=%d prog=%s' % (fkey, cname, ctor_kw, ','.join(prog)))
                del LOG[:]
                o = K(a=7, b=8) if ctor_kw else K()
                if raiser is not None and raiser[0] in ('wq', 'wn'):
                    o.param.watch(ns['RCB'], [raiser[1]], queued=raiser[0] == 'wq')
                bad = compare(LOG, expected_init(shape, spec, cname))
                chk('C06/__init__/on_init calls == 1 iff on_init')
                for (site, g, lo, hi) in bad:
                    viols.append(dict(shape=shape, m1=m1, m2=m2, ov=ov, cls=cname, ctor=ctor_kw,
                                      prog=(), step=-1, op='init', site=site, got=g, lo=lo, hi=hi))
                if ctor_kw:
                    prog = prog[:4]
                env = {'o': o, 'param': ns['param'], 'ARM': ns.get('ARM'), 'Boom': ns.get('Boom')}
                for i, op in enumerate(prog):
                    del LOG[:]
                    exec(op_code(op, i), env)
                    exp = expcache.get((cname, op))
                    if exp is None:
                        exp = expcache[(cname, op)] = expected_calls(shape, spec, cname, op)
                    bad = compare(LOG, exp)
                    chk(clause_d)
                    for (site, g, lo, hi) in bad:
                        viols.append(dict(shape=shape, m1=m1, m2=m2, ov=ov, cls=cname, ctor=ctor_kw,
                                          prog=tuple(prog[:i + 1]), step=i, op=op, site=site,
                                          got=g, lo=lo, hi=hi, hf=hf, raiser=raiser))
                    if bad and hf:
                        break       # the first failing step of a fault history is the finding
                # classify via-method discrepancies (needs the live object)
                for v in viols:
                    if v.get('_done'):
                        continue
                    v['_done'] = True
                    v['via'] = False
                    mname = v['site'].split('.')[1]
                    c, d = resolved(shape, spec, v['cls'], mname)
                    if d is not None and d[0] == 'dec' and v['op'] != 'init' and \
                            v['site'] == '%s.%s' % (c, mname):
                        deps, fuzzy, via = deps_of(shape, spec, v['cls'], mname)
                        if via:
                            stat, sfuzzy = deps_static(shape, spec, c, mname)
                            exp_s = (1, 2) if stat & OP_CHANGES[v['op']] else (0, 0)
                            if sfuzzy:
                                exp_s = (0, 2)
                            if exp_s[0] <= v['got'] <= exp_s[1]:
                                # consistent with the static reading: only a 'via-method' finding,
                                # and only if param's own method_dependencies agrees with the oracle
                                try:
                                    md = {(pi.what, pi.name) for pi in o.param.method_dependencies(mname)}
                                except Exception:
                                    md = None
                                v['via'] = True
                                v['md_agrees'] = (md == deps)
    for v in viols:
        v.pop('_done', None)
    return ncases, keys, cc, viols


def run_chunk(tasks):
    res = []
    for t in tasks:
        res.append(run_family(t))
    return res


# ------------------------------------------------------------------------------------------
# function form
# ------------------------------------------------------------------------------------------
FN_DEPSETS = [
    # (label, positional deps, keyword deps) as (object, name) pairs
    ('o.a', [('o', 'a')], {}),
    ('o.b', [('o', 'b')], {}),
    ('o.a+o.b', [('o', 'a'), ('o', 'b')], {}),
    ('kw:o.a', [], {'x': ('o', 'a')}),
    ('o.a+kw:o.b', [('o', 'a')], {'x': ('o', 'b')}),
    ('o.a+q.a', [('o', 'a'), ('q', 'a')], {}),
    ('o.a+o.b+q.b', [('o', 'a'), ('o', 'b'), ('q', 'b')], {}),
    ('o.a+kw:o.a', [('o', 'a')], {'x': ('o', 'a')}),          # the same Parameter twice
]
FN_OPS = ['sa', 'sa=', 'sb', 'uab', 'ua=b', 'u==', 'bab', 'qa', 'qb', 'qa=']
FN_CHANGES = {'sa': {('o', 'a')}, 'sa=': set(), 'sb': {('o', 'b')}, 'uab': {('o', 'a'), ('o', 'b')},
              'ua=b': {('o', 'b')}, 'u==': set(), 'bab': {('o', 'a'), ('o', 'b')},
              'qa': {('q', 'a')}, 'qb': {('q', 'b')}, 'qa=': set()}


def fn_source(label):
    _, pos, kw = [d for d in FN_DEPSETS if d[0] == label][0]
    args = ['%s.param.%s' % d for d in pos] + ['%s=%s.param.%s' % (k, v[0], v[1]) for k, v in kw.items()]
    params = ['v%d' % i for i in range(len(pos))] + list(kw)
    return '\n'.join([
        "import logging, warnings", "import param", "warnings.simplefilter('ignore')",
        "param.parameterized.get_logger().setLevel(logging.CRITICAL)", "LOG = []",
        "class S(param.Parameterized):", "    a = param.Integer(0)", "    b = param.Integer(0)",
        "o = S(); q = S()",
        "@param.depends(%s, watch=True)" % ', '.join(args),
        "def f(%s): LOG.append('f')" % ', '.join(params), ""])


def fn_op_source(op, n):
    fresh, fresh2 = 100 + 2 * n, 101 + 2 * n
    if op[0] == 'q':
        return {'qa': ["q.a = %d" % fresh], 'qb': ["q.b = %d" % fresh], 'qa=': ["q.a = q.a"]}[op]
    return op_source(op, n)


def run_fn_chunk(tasks):
    _silence()
    out = []
    for label, prog in tasks:
        _, pos, kw = [d for d in FN_DEPSETS if d[0] == label][0]
        deps = set(pos) | set(kw.values())
        ns = {}
        exec(compile(fn_source(label), '<fn>', 'exec'), ns)
        LOG = ns['LOG']
        viol = None
        n = 0
        for i, op in enumerate(prog):
            del LOG[:]
            exec(op_code(op, i, True), ns)
            n += 1
            want = 1 if deps & FN_CHANGES[op] else 0
            if len(LOG) != want:
                viol = dict(label=label, prog=tuple(prog[:i + 1]), op=op, got=len(LOG), want=want)
                break
        out.append((n, viol))
    return out


# ------------------------------------------------------------------------------------------
# sub-object family: a method depending on parameters of sub-objects, under update / batch
# ------------------------------------------------------------------------------------------
# class A: a (Integer), s, r (sub-objects of class L with an Integer x); one method m1 with
# watch=True over SF_DEPSETS.  An operation changes a set of dependency specs ('a', 's.x', 'r.x': the
# value reached through the spec differs before / after the operation); the statement demands
# exactly one call of m1 for an assignment / update / batch that changes >= 1 of its dependencies and
# none otherwise.  Every batched assignment is made on the object the batch belongs to.
SF_DEPSETS = [('s.x',), ('s.x', 'r.x'), ('a', 's.x')]
SF_OPS = ['rs', 'rs=', 'ls', 'rr', 'sa', 'usr', 'us=r', 'uas', 'bss', 'bsr', 'bas', 'b==']
SF_CHANGES = {'rs': {'s.x'}, 'rs=': set(), 'ls': {'s.x'}, 'rr': {'r.x'}, 'sa': {'a'},
              'usr': {'s.x', 'r.x'}, 'us=r': {'r.x'}, 'uas': {'a', 's.x'},
              'bss': {'s.x'}, 'bsr': {'s.x', 'r.x'}, 'bas': {'a', 's.x'}, 'b==': set()}
# witness class of an operation: what one update / batch assigns
SF_SHAPE = {'usr': 'slots', 'us=r': 'slots', 'bsr': 'slots', 'b==': 'slots', 'bss': 'repeat',
            'uas': 'direct+slot', 'bas': 'direct+slot'}


def sf_source(deps):
    return '\n'.join([
        "import logging, warnings", "import param", "warnings.simplefilter('ignore')",
        "param.parameterized.get_logger().setLevel(logging.CRITICAL)", "LOG = []",
        "class L(param.Parameterized):", "    x = param.Integer(0)",
        "class A(param.Parameterized):", "    a = param.Integer(0)",
        "    s = param.Parameter(None)", "    r = param.Parameter(None)",
        "    @param.depends(%s, watch=True)" % ', '.join(repr(d) for d in deps),
        "    def m1(self): LOG.append('A.m1')",
        "o = A(s=L(), r=L())", ""])


def sf_op_source(op, n):
    f1, f2 = 100 + 2 * n, 101 + 2 * n
    bat = "with param.parameterized.batch_call_watchers(o):"
    return {'rs': ["o.s = L(x=%d)" % f1], 'rs=': ["o.s = L(x=o.s.x)"], 'ls': ["o.s.x = %d" % f1],
            'rr': ["o.r = L(x=%d)" % f1], 'sa': ["o.a = %d" % f1],
            'usr': ["o.param.update(s=L(x=%d), r=L(x=%d))" % (f1, f2)],
            'us=r': ["o.param.update(s=o.s, r=L(x=%d))" % f1],
            'uas': ["o.param.update(a=%d, s=L(x=%d))" % (f1, f2)],
            'bss': [bat, "    o.s = L(x=%d)" % f1, "    o.s = L(x=%d)" % f2],
            'bsr': [bat, "    o.s = L(x=%d)" % f1, "    o.r = L(x=%d)" % f2],
            'bas': [bat, "    o.a = %d" % f1, "    o.s = L(x=%d)" % f2],
            'b==': [bat, "    o.s = L(x=o.s.x)", "    o.r = L(x=o.r.x)"]}[op]


_SF_CODE = {}


def run_sf_chunk(tasks):
    _silence()
    out = []
    for deps, prog in tasks:
        ns = {}
        exec(compile(sf_source(deps), '<sf>', 'exec'), ns)
        LOG = ns['LOG']
        viol = None
        n = 0
        for i, op in enumerate(prog):
            del LOG[:]
            c = _SF_CODE.get((op, i))
            if c is None:
                c = _SF_CODE[(op, i)] = compile('\n'.join(sf_op_source(op, i)), '<op>', 'exec')
            exec(c, ns)
            n += 1
            want = 1 if set(deps) & SF_CHANGES[op] else 0
            if len(LOG) != want:
                viol = dict(deps=deps, prog=tuple(prog[:i + 1]), op=op, got=len(LOG), want=want)
                break
        out.append((n, viol))
    return out


SF_CLAUSE = 'C06/dispatch/sub-object dependencies: invocations == [changed & deps != {}]'
SF_CLAUSE_V = 'C06/dispatch/sub-object dependencies: invocations==deps'


def sf_replay(v, clause, witness):
    src = REPLAY_HEADER.format(prop='C06', name='replay_c06.py', clause=clause, witness=witness)
    src += sf_source(v['deps'])
    for i, op in enumerate(v['prog']):
        if i == len(v['prog']) - 1:
            src += "del LOG[:]\n"
        src += '\n'.join(sf_op_source(op, i)) + '\n'
    src += "n = len(LOG)\nif n != %d:\n" % v['want']
    src += "    print('REPRODUCED: A.m1 called %%d times, expected %d' %% n)\n    sys.exit(1)\n" % v['want']
    src += "print('NOT-REPRODUCED')\n"
    return src


# ------------------------------------------------------------------------------------------
# assigning methods: an on_init=True method whose body ASSIGNS a parameter at construction,
# combined with other watch=True methods (declared earlier / later / in a base or subclass) that
# depend on the assigned parameter
# ------------------------------------------------------------------------------------------
# A family: root class A (parameters a, d, e) and subclass B(A); up to three methods
#   mi  @depends('a', watch=True, on_init=True)        body: self.d = <fresh value> | self.d = self.d
#   mw  @depends('d', watch=True[, on_init=True])      body: nothing | self.e = <fresh value>
#   mz  @depends(<zdeps>, watch=True)                  body: nothing          (optional)
# placement of a method: 'A' (defined in A), 'B' (defined in B only), 'AB' (defined in A, overridden
# in B with the same decoration and body), 'AU' (defined in A, overridden UNDECORATED in B);
# declaration order: every permutation of the methods (the order inside each class body).
#
# Oracle (from the statement, independent of any registration order): a call of a method whose
# body assigns a fresh value is one assignment that changes the assigned parameter, so every
# method resolved on the instance's class that is decorated with watch=True and depends on that
# parameter runs once for it (recursively); on_init adds exactly one call at construction; an
# undecorated override is never called.  A method hit by n >= 2 separate assignments inside one
# top-level step (construction / one operation) is allowed 1..n calls for them (lenient: nested
# assignments may legitimately be coalesced with the enclosing batch).
AF_PLACES_I = ['A', 'B', 'AB', 'AU']
AF_PLACES_W = ['A', 'B', 'AB']
AF_PLACES_Z = ['A', 'B']
AF_ZDEPS = [('e',), ('d', 'e'), ('a', 'd')]
AF_OPS = ['sa', 'sd', 'sa=', 'uad']
AF_CHANGES = {'sa': {'a'}, 'sd': {'d'}, 'sa=': set(), 'uad': {'a', 'd'}}


def af_families(tier):
    out = []
    for pi in AF_PLACES_I:
        for pw in AF_PLACES_W:
            for i_assign in ('fresh', 'same'):
                for w_init in (False, True):
                    for w_assign in (False, True):
                        for order in itertools.permutations(('mi', 'mw')):
                            out.append((order, (pi, pw, None), i_assign, w_init, w_assign, None))
                        for pz in AF_PLACES_Z:
                            for zdeps in AF_ZDEPS:
                                for order in itertools.permutations(('mi', 'mw', 'mz')):
                                    out.append((order, (pi, pw, pz), i_assign, w_init, w_assign, zdeps))
    return out


def af_key(fam):
    order, (pi, pw, pz), i_assign, w_init, w_assign, zdeps = fam
    return 'family=assign order=%s place=mi:%s,mw:%s,mz:%s mi_assigns=%s mw_on_init=%d mw_assigns=%s zdeps=%s' % (
        '>'.join(order), pi, pw, pz or '-', i_assign, int(w_init), 'fresh' if w_assign else '-',
        '+'.join(zdeps) if zdeps else '-')


def af_methods(fam):
    """{name: (deps, on_init, assigned parameter or None, 'fresh'|'same'|None, placement)}"""
    order, (pi, pw, pz), i_assign, w_init, w_assign, zdeps = fam
    m = {'mi': (('a',), True, 'd', i_assign, pi),
         'mw': (('d',), w_init, 'e' if w_assign else None, 'fresh' if w_assign else None, pw)}
    if pz is not None:
        m['mz'] = (tuple(zdeps), False, None, None, pz)
    return m


def af_source(fam):
    order = fam[0]
    meths = af_methods(fam)
    out = ["import logging, warnings", "import param", "warnings.simplefilter('ignore')",
           "param.parameterized.get_logger().setLevel(logging.CRITICAL)", "LOG = []", "CNT = [1000]",
           "def NEXT():", "    CNT[0] += 1", "    return CNT[0]"]
    for cname in ('A', 'B'):
        out.append("class A(param.Parameterized):" if cname == 'A' else "class B(A):")
        body = []
        if cname == 'A':
            body += ["a = param.Integer(0)", "d = param.Integer(0)", "e = param.Integer(0)"]
        for name in order:
            deps, on_init, target, how, place = meths[name]
            if cname == 'A' and place == 'B':
                continue
            if cname == 'B' and place == 'A':
                continue
            if cname == 'B' and place == 'AU':
                body.append("def %s(self): LOG.append('B.%s')" % (name, name))
                continue
            body.append("@param.depends(%s, watch=True%s)" % (', '.join(repr(x) for x in deps),
                                                              ', on_init=True' if on_init else ''))
            body.append("def %s(self):" % name)
            body.append("    LOG.append('%s.%s')" % (cname, name))
            if target is not None:
                body.append("    self.%s = %s" % (target, 'NEXT()' if how == 'fresh' else 'self.' + target))
        if len(body) == 0:
            body = ["pass"]
        out += ["    " + b for b in body]
    return '\n'.join(out) + '\n'


def af_resolved(fam, cname):
    """{name: (definition site, deps, on_init, assigned parameter if the body changes it)} for the
    methods that getattr resolves on `cname` to a definition decorated with watch=True"""
    res = {}
    for name, (deps, on_init, target, how, place) in af_methods(fam).items():
        if cname == 'A':
            if place == 'B':
                continue
            site = 'A.' + name
        else:
            if place == 'AU':
                continue            # undecorated override: never called automatically
            site = ('A.' if place == 'A' else 'B.') + name
        res[name] = (site, set(deps), on_init, target if how == 'fresh' else None)
    return res


def af_expected(fam, cname, step):
    """{site: (lo, hi)}; step = 'init' or an operation of AF_OPS"""
    res = af_resolved(fam, cname)
    counts = {v[0]: [0, 0] for v in res.values()}

    def call(name, why):
        site, deps, on_init, target = res[name]
        counts[site][why] += 1
        if target is not None:
            fire({target})

    def fire(changed):
        for name in sorted(res):
            if res[name][1] & changed:
                call(name, 1)
    if step == 'init':
        for name in sorted(res):
            if res[name][2]:
                call(name, 0)
    elif AF_CHANGES[step]:
        fire(AF_CHANGES[step])
    return {site: (a + min(n, 1), a + n) for site, (a, n) in counts.items()}


def af_op_source(op, n):
    fresh, fresh2 = 100 + 2 * n, 101 + 2 * n
    return {'sa': ["o.a = %d" % fresh], 'sd': ["o.d = %d" % fresh], 'sa=': ["o.a = o.a"],
            'uad': ["o.param.update(a=%d, d=%d)" % (fresh, fresh2)]}[op]


def af_run_chunk(args):
    """returns list of (ncases, keys, clause counts, violations) per family"""
    fams, ctors = args
    _silence()
    out = []
    for fam in fams:
        ns = {}
        exec(compile(af_source(fam), '<assign family>', 'exec'), ns)
        LOG = ns['LOG']
        fkey = af_key(fam)
        ncases, keys, cc, viols = 0, [], {}, []
        for cname in ('A', 'B'):
            for ctor in ctors:
                ncases += 1
                keys.append('%s cls=%s ctor=%d prog=%s' % (fkey, cname, ctor, ','.join(AF_OPS)))
                del LOG[:]
                o = ns[cname](a=7) if ctor else ns[cname]()
                steps = [('init', list(LOG))]
                env = {'o': o, 'param': ns['param']}
                for i, op in enumerate(AF_OPS):
                    del LOG[:]
                    exec(compile('\n'.join(af_op_source(op, i)), '<op>', 'exec'), env)
                    steps.append((op, list(LOG)))
                for i, (step, log) in enumerate(steps):
                    clause = AF_CLAUSE_INIT if step == 'init' else AF_CLAUSE_OP
                    cc[clause] = cc.get(clause, 0) + 1
                    for (site, g, lo, hi) in compare(log, af_expected(fam, cname, step)):
                        viols.append(dict(fam=fam, cls=cname, ctor=ctor, step=step, nsteps=i, site=site,
                                          got=g, lo=lo, hi=hi))
        out.append((ncases, keys, cc, viols))
    return out


AF_CLAUSE_INIT = 'C06/__init__/on_init method assigning a parameter: calls == on_init + assignments seen'
AF_CLAUSE_OP = 'C06/dispatch/methods assigning parameters: invocations==deps(resolved method)'


def af_class(v):
    """(clause, kind, failing method, position of its definition relative to the definition of the
    method whose assignment it depends on)"""
    fam = v['fam']
    order = fam[0]
    name = v['site'].split('.')[1]
    res = af_resolved(fam, v['cls'])
    if v['got'] < v['lo']:
        kind = 'missed'
    elif v['hi'] == 0:
        kind = 'spurious'
    else:
        kind = 'extra'
    pos = '-'
    if name in res:
        deps = res[name][1]
        assigners = [n for n in sorted(res) if n != name and res[n][3] in deps]
        if assigners:
            a = assigners[0]
            ca, cm = res[a][0].split('.')[0], res[name][0].split('.')[0]
            if ca == cm:
                pos = 'declared-after-assigner' if order.index(name) > order.index(a) else 'declared-before-assigner'
            else:
                pos = 'in-subclass-of-assigner' if cm == 'B' else 'in-base-of-assigner'
    else:
        pos = 'not-resolved-decorated'
    clause = AF_CLAUSE_INIT if v['step'] == 'init' else AF_CLAUSE_OP
    return (clause, kind, name, pos)


def af_weight(v):
    order, places, i_assign, w_init, w_assign, zdeps = v['fam']
    return (places[2] is not None, sum(p != 'A' for p in places if p), int(w_init) + int(w_assign),
            i_assign != 'fresh', v['cls'] != 'A', v['ctor'], v['nsteps'], af_key(v['fam']))


def af_witness(v):
    clause, kind, name, pos = af_class(v)
    w = 'kind=%s method=%s pos=%s %s cls=%s ctor_kwargs=%d step=%s got=%d want=%s' % (
        kind, name, pos, af_key(v['fam']), v['cls'], v['ctor'], v['step'], v['got'],
        ('%d' % v['lo']) if v['lo'] == v['hi'] else '%d..%d' % (v['lo'], v['hi']))
    return clause, w


def af_replay(v, clause, witness):
    src = REPLAY_HEADER.format(prop='C06', name='replay_c06.py', clause=clause, witness=witness)
    src += af_source(v['fam'])
    src += "o = %s(%s)\n" % (v['cls'], 'a=7' if v['ctor'] else '')
    for i, op in enumerate(AF_OPS[:v['nsteps']]):
        src += "del LOG[:]\n" + '\n'.join(af_op_source(op, i)) + '\n'
    src += "n = LOG.count(%r)\n" % v['site']
    src += "print('log of the %s:', LOG)\n" % ('construction' if v['step'] == 'init' else 'last step')
    src += "if not (%d <= n <= %d):\n" % (v['lo'], v['hi'])
    src += "    print('REPRODUCED: %s called %%d times, expected %s' %% n)\n" % (
        v['site'], ('%d' % v['lo']) if v['lo'] == v['hi'] else '%d..%d' % (v['lo'], v['hi']))
    src += "    sys.exit(1)\nprint('NOT-REPRODUCED')\n"
    return src


# ------------------------------------------------------------------------------------------
# _parse_dependency_spec: exhaustive over specs of <= 3 path segments (DESIGN.md section 7, C06)
# ------------------------------------------------------------------------------------------
def check_parse(B):
    from param.parameterized import _parse_dependency_spec
    names = ['a', 'bb', 'param', 'x_1']
    for nseg in (1, 2, 3):
        for segs in itertools.product(names, repeat=nseg):
            for what in (None, 'bounds', 'constant'):
                for pad in ('', ' '):
                    spec = pad + '.'.join(segs) + ('' if what is None else ':' + what) + pad
                    B.case(key='parse ' + repr(spec))
                    got = _parse_dependency_spec(spec)
                    want = (('.' + '.'.join(segs[:-1])) if nseg > 1 else None, segs[-1], what or 'value')
                    B.checked('C06/_parse_dependency_spec/(path, attr, what)')
                    if got != want:
                        B.violation('C06/_parse_dependency_spec/(path, attr, what)',
                                    'spec=%r got=%r want=%r' % (spec, got, want),
                                    replay=REPLAY_HEADER.format(prop='C06', name='replay.py',
                                                                clause='parse', witness=spec) +
                                    "from param.parameterized import _parse_dependency_spec as f\n"
                                    "g = f(%r)\nif g != %r:\n    print('REPRODUCED:', g); sys.exit(1)\n"
                                    "print('NOT-REPRODUCED')\n" % (spec, want))


# ------------------------------------------------------------------------------------------
# enumeration
# ------------------------------------------------------------------------------------------
def base_configs():
    out = []
    for d1 in M1_DEPS:
        for i1 in (False, True):
            out.append(((d1, i1), None))
            for d2 in M2_DEPS:
                for i2 in (False, True):
                    out.append(((d1, i1), (d2, i2)))
    return out


def all_families(shape):
    subs = [c for c, _ in SHAPES[shape][1:]]
    for m1, m2 in base_configs():
        kinds2 = KINDS if m2 is not None else ['-']
        per_cls = [(k1, k2) for k1 in KINDS for k2 in kinds2]
        for combo in itertools.product(per_cls, repeat=len(subs)):
            yield (shape, m1, m2, dict(zip(subs, combo)))


def n_families(shape, nk=4):
    n = len(SHAPES[shape]) - 1
    return sum((nk * nk if m2 is not None else nk) ** n for _m1, m2 in base_configs())


def core_families(shape, maxpos, on_init):
    """families of `shape` with at most `maxpos` overriding (class, method) positions"""
    subs = [c for c, _ in SHAPES[shape][1:]]
    for m1, m2 in base_configs():
        if not on_init and (m1[1] or (m2 and m2[1])):
            continue
        positions = [(c, j) for c in subs for j in ((0, 1) if m2 is not None else (0,))]
        for npos in range(0, maxpos + 1):
            for pos in itertools.combinations(positions, npos):
                for kinds in itertools.product(KINDS5[1:], repeat=npos):
                    ov = {c: ['-', '-'] for c in subs}
                    for (c, j), k in zip(pos, kinds):
                        ov[c][j] = k
                    yield (shape, m1, m2, {c: tuple(v) for c, v in ov.items()})


def random_family(shape, rnd, bases):
    subs = [c for c, _ in SHAPES[shape][1:]]
    m1, m2 = rnd.choice(bases)
    ov = {c: (rnd.choice(KINDS5), rnd.choice(KINDS5) if m2 is not None else '-') for c in subs}
    return (shape, m1, m2, ov)


def family_weight(f):
    shape, m1, m2, ov = f
    return (len(SHAPES[shape]), sum(k != '-' for kk in ov.values() for k in kk),
            0 if m2 is None else 1, int(m1[1]) + (int(m2[1]) if m2 else 0))


def enumerate_tasks(tier, seed):
    """Deterministic: complete products for the small shapes, and for the big ones a core of
    families with few overriding positions (always included) + a seeded sample of the rest."""
    rnd = random.Random(1000 + seed)
    tasks, exhaustive, counts = [], True, {}
    full = {'quick': ('chain1', 'chain2'), 'thorough': ('chain1', 'chain2', 'chain3')}[tier]
    budget = {'quick': 500, 'thorough': 8000}[tier]     # sampled families per big shape
    extra = {'quick': 1, 'thorough': 2}[tier]
    bases = base_configs()
    for shape in SHAPES:
        if shape in full:
            chosen = [f for f in all_families(shape) if valid_family(*f)]
        else:
            exhaustive = False
            chosen, seen = [], set()
            for f in core_families(shape, 2 if tier == 'thorough' else 1, False):
                k = family_key(*f)
                if k not in seen and valid_family(*f):
                    seen.add(k)
                    chosen.append(f)
            # the diamond of DESIGN.md section 9 and its neighbours are always in the core
            n = 0
            while n < budget:
                f = random_family(shape, rnd, bases)
                k = family_key(*f)
                if k not in seen and valid_family(*f):
                    seen.add(k)
                    chosen.append(f)
                    n += 1
        counts[shape] = (len(chosen), n_families(shape, 4 if shape in full else 5))
        for f in chosen:
            tasks.append(f + (('perm', seed, extra),))
    return tasks, exhaustive, counts


def program_tasks(tier):
    """all programs of length <= 3 (quick: <= 2) over a core alphabet, on the chain1 families
    without on_init and on the smallest overriding families."""
    core_ops = ['sa', 'sa=', 'sb', 'sp', 'uab', 'ua=b', 'u==', 'bab', 'bap']
    L = 3 if tier == 'thorough' else 2
    progs = [p for n in range(1, L + 1) for p in itertools.product(core_ops, repeat=n)]
    fams = []
    for m1, m2 in base_configs():
        if m1[1] or (m2 and m2[1]):
            continue
        fams.append(('chain1', m1, m2, {}))
        if tier == 'thorough':
            for k in ('same', 'other', 'undec'):
                fams.append(('chain2', m1, m2, {'B': (k, '-')}))
    return [f + (('progs', progs),) for f in fams]


# ------------------------------------------------------------------------------------------
# witnesses / replay
# ------------------------------------------------------------------------------------------
def viol_class(v):
    """(clause, witness-class string, sort key of the representative)"""
    shape, spec_ov = v['shape'], v['ov']
    spec = family_spec(shape, v['m1'], v['m2'], v['ov'])
    mname = v['site'].split('.')[1]
    chain = []
    for c in mro_names(shape, v['cls']):
        d = spec[c][mname]
        if c == SHAPES[shape][0][0]:
            chain.append('%s:base' % c)
        elif d is None:
            chain.append('%s:-' % c)
        else:
            chain.append('%s:%s' % (c, spec_ov[c][0 if mname == 'm1' else 1]))
    if v['op'] == 'init':
        kind = 'init-missed' if v['got'] < v['lo'] else 'init-extra'
    elif v['got'] < v['lo']:
        kind = 'missed'
    elif v['lo'] == 0 and v['hi'] == 0:
        kind = 'spurious'
    else:
        kind = 'multiple'
    hops = [o for o in v['prog'] if o in HF_OPS]
    if v.get('hf') and hops:
        # fault / history family: one class per (kind of history operation, kind of raiser, kind,
        # failing AT the raising / discarding step or AFTER it)
        hop = hops[0]
        return HF_CLAUSE_V, 'history=%s raiser=%s kind=%s when=%s' % (
            OP_CLASS[hop], v['raiser'][0] if v['raiser'] else '-', kind, 'at' if v['op'] in HF_OPS else 'after')
    c, d = resolved(shape, spec, v['cls'], mname)
    stale = v['site'] != '%s.%s' % (c, mname)
    via = bool(v.get('via'))
    clause = 'C06/dispatch/invocations==deps(resolved method)'
    if v['op'] == 'init':
        clause = 'C06/__init__/on_init exactly once'
    if via:
        clause += '/via-method'
    if stale:
        clause += '/overridden definition called'
    if via:
        wclass = 'named-method-dependency kind=%s' % kind
    else:
        wclass = 'shape=%s mro=%s kind=%s' % (shape, '>'.join(chain), kind)
    return clause, wclass


def witness_of(v):
    clause, wclass = viol_class(v)
    fk = family_key(v['shape'], v['m1'], v['m2'], v['ov'])
    if v.get('hf') and v['op'] != 'init':
        fk += ' raiser=%s' % (':'.join(v['raiser']) if v['raiser'] else '-')
    w = '%s method=%s cls=%s ctor_kwargs=%d prog=%s got=%d want=%s | %s' % (
        wclass, v['site'].split('.')[1], v['cls'], v['ctor'], ','.join(v['prog']) or '-', v['got'],
        ('%d' % v['lo']) if v['lo'] == v['hi'] else '%d..%d' % (v['lo'], v['hi']),
        fk.split(' ', 1)[1])
    return clause, w


def rep_sortkey(v):
    fam = (v['shape'], v['m1'], v['m2'], v['ov'])
    w = family_weight(fam)
    return (w, M1_DEPS.index(v['m1'][0]), -1 if v['m2'] is None else M2_DEPS.index(v['m2'][0]),
            family_key(*fam), v['cls'], v['ctor'], len(v['prog']),
            ALL_OPS.index(v['op']) if v['op'] in ALL_OPS else -1, v['prog'],
            HF_RAISERS.index(v['raiser']) if v.get('raiser') else -1)


def minimise(v):
    """canonical shortest program showing the same discrepancy: the first operation (in the order
    of OPS) that fails alone on a fresh, keyword-less instance of the same class (run in this
    process; the stand-alone replay confirms it afterwards)."""
    if v['op'] == 'init' or v.get('hf'):
        return v
    task = (v['shape'], v['m1'], v['m2'], v['ov'], ('progs', [(op,) for op in OPS]))
    try:
        _n, _k, _c, viols = run_family(task)
    except Exception:
        return v
    same = [w for w in viols if (w['cls'], w['site']) == (v['cls'], v['site']) and w['op'] != 'init'
            and viol_class(w) == viol_class(v)]
    if same:
        return min(same, key=lambda w: OPS.index(w['op']))
    return v


def replay_of(v, clause, witness):
    spec = family_spec(v['shape'], v['m1'], v['m2'], v['ov'])
    src = REPLAY_HEADER.format(prop='C06', name='replay_c06.py', clause=clause, witness=witness)
    src += family_source(v['shape'], spec, v.get('raiser'))
    src += "o = %s(%s)\n" % (v['cls'], 'a=7, b=8' if v['ctor'] else '')
    if v.get('raiser') and v['raiser'][0] in ('wq', 'wn'):
        src += "o.param.watch(RCB, [%r], queued=%r)\n" % (v['raiser'][1], v['raiser'][0] == 'wq')
    if v['op'] == 'init':
        src += "n = LOG.count(%r)\n" % v['site']
    else:
        for i, op in enumerate(v['prog']):
            if i == len(v['prog']) - 1:
                src += "del LOG[:]\n"
            src += '\n'.join(op_source(op, i)) + '\n'
        src += "n = LOG.count(%r)\n" % v['site']
    src += "print('log of the last step:', LOG)\n"
    src += "if not (%d <= n <= %d):\n" % (v['lo'], v['hi'])
    src += "    print('REPRODUCED: %s called %%d times, expected %s' %% n)\n" % (
        v['site'], ('%d' % v['lo']) if v['lo'] == v['hi'] else '%d..%d' % (v['lo'], v['hi']))
    src += "    sys.exit(1)\nprint('NOT-REPRODUCED')\n"
    return src


def fn_replay(v, clause, witness):
    src = REPLAY_HEADER.format(prop='C06', name='replay_c06.py', clause=clause, witness=witness)
    src += fn_source(v['label'])
    for i, op in enumerate(v['prog']):
        if i == len(v['prog']) - 1:
            src += "del LOG[:]\n"
        src += '\n'.join(fn_op_source(op, i)) + '\n'
    src += "n = len(LOG)\nif n != %d:\n" % v['want']
    src += "    print('REPRODUCED: f called %%d times, expected %d' %% n)\n    sys.exit(1)\n" % v['want']
    src += "print('NOT-REPRODUCED')\n"
    return src


HF_CLAUSE = 'C06/dispatch/after a raising watcher or discarded events: invocations == [changed & deps != {}]'
HF_CLAUSE_V = 'C06/dispatch/after a raising watcher or discarded events: invocations==deps(resolved method)'


HF_CORE = ['sa', 'sb', 'uab', 'ub', 'bab']


def hf_tasks(tier, seed):
    """fault / history family: class A and (thorough: every family, quick: every fourth) B(A) overriding
    m1 with the same decoration, over every base dependency configuration without on_init; for every
    history operation h (6 discarding operations; for each of the 8 raisers its 3 armed operations) the
    programs  h ; f  for EVERY operation f (quick: for the armed update / batch only 5 core operations f)
    and  h ; f ; g  (all f, g) /  f ; h ; g  (5 core operations f, all g)  (thorough: all; quick: a seeded
    sample of 4 per h)."""
    rnd = random.Random(77 + seed)
    tasks = []
    hsets = [(None, HF_DISCARD)] + [(r, ['xs' + r[1], 'xu', 'xbt']) for r in HF_RAISERS]
    nfam = 0
    for m1, m2 in base_configs():
        if m1[1] or (m2 and m2[1]):
            continue
        nfam += 1
        for raiser, hops in hsets:
            progs = []
            for h in hops:
                fs = OPS if (tier == 'thorough' or h[:2] in ('xs', 'da', 'db', 'dp', 'bd')) else HF_CORE
                progs += [(h, f) for f in fs]
                long_ = [(h, f, g) for f in OPS for g in OPS] + [(f, h, g) for f in HF_CORE for g in OPS]
                progs += long_ if tier == 'thorough' else rnd.sample(long_, 4)
            if tier == 'thorough' or nfam % 4 == seed % 4:
                tasks.append(('chain2', m1, m2, {'B': ('same', '-')}, ('hf', progs, raiser)))
            else:
                tasks.append(('chain1', m1, m2, {}, ('hf', progs, raiser)))
    return tasks


MAX_PER_CLAUSE = 12  # witness classes reported per clause (smallest first); the rest is counted in a note
CONFIRM = True      # scratch mutation harnesses (in-memory patches) switch the confirmation off


def confirm(src):
    """run a replay script stand-alone; True iff it reproduces"""
    if not CONFIRM:
        return True
    repo = os.environ.get('PYVC_REPO', '/repo')
    if repo != '/repo':     # checking a scratch copy of the library: confirm against that copy
        src = src.replace("sys.path.insert(0, '/repo')", "sys.path.insert(0, %r)" % repo)
    with tempfile.NamedTemporaryFile('w', suffix='.py', delete=False) as f:
        f.write(src)
        path = f.name
    try:
        env = dict(os.environ, PYTHONPATH=os.environ.get('PYVC_REPO', '/repo'))
        r = subprocess.run([sys.executable, path], env=env, capture_output=True, text=True, timeout=120)
        return r.returncode == 1 and 'REPRODUCED:' in r.stdout
    except Exception:
        return False
    finally:
        os.unlink(path)


# ------------------------------------------------------------------------------------------
def _run(tier, seed):
    B = Bounded(
        "C06",
        rule=("generated class families (chains of 1-4 classes, diamond, two-root 'vee'; a subclass "
              "defining nothing = skipped level) x base dependency sets of m1/m2 over {a, b, 'p:bounds', "
              "'m1'} x on_init x per-(subclass, method) override kind {none, decorated same deps, "
              "decorated other deps, undecorated, decorated without watch}; for every class of the family an instance (plain and "
              "with constructor keywords) runs a seeded permutation of all 13 operations plus seeded "
              "programs of 2-3 operations; the smallest families run ALL programs over a 9-operation "
              "core alphabet; function form: 8 Parameter-object dependency lists x all programs; every "
              "step compares the invocation log with deps(method that getattr resolves to). Assigning "
              "methods: classes A, B(A) with an on_init=True method whose body assigns a parameter (fresh / "
              "unchanged value), a watch=True method depending on it (with / without on_init, itself assigning "
              "a further parameter or not) and an optional third method depending on the assigned parameters, x "
              "EVERY declaration order x placement of each method {A, B, A overridden in B decorated / "
              "undecorated}; construction and 4 operations are compared with: every call of an assigning "
              "method is one assignment seen exactly once by each dependent method, on_init adds exactly one "
              "call. Fault / history family: classes A, B(A) x base dependency sets x {a `watch='queued'` / "
              "watch=True depends method or a queued / plain param.watch callback on a or b that RAISES during a "
              "set / update / batch (caught by the caller); assignments inside param.discard_events(o), also "
              "nested in a batch} followed (and preceded) by every operation: each later step is compared "
              "exactly, the raising / discarding step only from above. Sub-object family: a method depending "
              "on 's.x' / 's.x','r.x' / 'a','s.x' under all programs of replace / leaf set / update / batch "
              "(two slots, one slot twice, direct parameter + slot): one call per update / batch. "
              "Mixed-kind family: class A (x, y, z) [+ B(A) empty / overriding `derived` / overriding m] with one "
              "watch=True method m over 14 dependency sets mixing values and slot specs of the same object ('x', "
              "'z:bounds', 'x:bounds', 'z:constant', a spec twice) and 8 sets naming methods `derived` / `derived2` "
              "(4 x 3 dependency sets of those, with / without watch, both declaration orders) that reach the same "
              "parameter again; operations = (form, body): body = sequence of atoms {x fresh, x same, y, z.bounds "
              "fresh / same, z.constant toggled, x.bounds} under the forms plain set, update, batch, nested batch, "
              "batch_watch, update inside a batch before / after slot assignments, discard_events inside a batch, "
              "batch inside discard_events; every operation alone on a fresh instance + a seeded permutation of all "
              "operations on one instance; oracle: exactly one call per operation changing >= 1 dependency (0..1 if "
              "only discarded assignments hit), none otherwise, for m and for the watch=True helpers. "
              "Deep sub-object family (bounded/c07_multi.py, shared with C07): 1-3 watch=True methods over paths of "
              "depth 1-3 sharing prefixes ('a.b.x', 'a.b.y', 'a.c.x', 'a.b.c.x', ...); every single operation "
              "(replacement of the object at EVERY level by a copy with equal / different nested values or by one "
              "equal to a sibling, detach, re-attach, leaf assignment) in the forms assignment / update / batch on the "
              "owner / batch on the top object: exactly one call of every method whose reached value changed, none of "
              "the others. "
              "A case = (family, class, constructor form, program); distinct by that tuple"),
        bound=("<= 4 classes, <= 2 dependent methods, dependency sets over 2 parameters + 'p:bounds' + "
               "method-on-method; programs: 13-operation permutation + programs <= 3 (sampled), all "
               "programs <= %d over 9 operations on the 1-2 class core; function form all programs <= %d "
               "over 10 operations; _parse_dependency_spec: all specs of <= 3 segments; assigning methods: "
               "<= 3 methods, 2 classes, assignment chains of length <= 2, all %d families%s; fault / "
               "history family: 1 raising or discarding step + <= 2 operations (quick: + 1, and a sample of 2); "
               "sub-object family: all programs <= %d over 12 operations; mixed-kind family: %s"
               % ((3, 3, len(af_families(tier)), '', 3, c06_mix.bound_text(tier)) if tier == 'thorough' else
                  (2, 2, len(af_families(tier)), ' (without constructor keywords)', 2, c06_mix.bound_text(tier)))))
    _silence()
    tasks, exhaustive, counts = enumerate_tasks(tier, seed)
    tasks += program_tasks(tier)
    tasks += hf_tasks(tier, seed)
    B.exhaustive = exhaustive
    if not exhaustive:
        B.note("families explored / size of the full override product per shape: %s; incomplete shapes = "
               "core with few overriding positions (always included) + seeded sample" % counts)
    # balance chunks
    chunks = [tasks[i::64] for i in range(64)]
    allv = []
    with ProcessPoolExecutor(max_workers=min(16, os.cpu_count() or 4)) as ex:
        fut_f = [ex.submit(run_chunk, c) for c in chunks if c]
        # function form
        L = 3 if tier == 'thorough' else 2
        fprogs = [p for n in range(1, L + 1) for p in itertools.product(FN_OPS, repeat=n)]
        ftasks = [(d[0], p) for d in FN_DEPSETS for p in fprogs]
        fut_n = [ex.submit(run_fn_chunk, ftasks[i::32]) for i in range(32)]
        # sub-object family
        sprogs = [p for n in range(1, L + 1) for p in itertools.product(SF_OPS, repeat=n)]
        stasks = [(d, p) for d in SF_DEPSETS for p in sprogs]
        fut_s = [ex.submit(run_sf_chunk, stasks[i::16]) for i in range(16)]
        # assigning methods (on_init method whose body assigns a parameter other methods depend on)
        afams = af_families(tier)
        actors = (False, True) if tier == 'thorough' else (False,)
        fut_a = [ex.submit(af_run_chunk, (afams[i::48], actors)) for i in range(48)]
        # mixed-kind family (values + slot specs + methods in one dependency set, all batching forms)
        mchunks, m_nops, _mfull = c06_mix.tasks(tier, seed)
        fut_m = [ex.submit(c06_mix.run_chunk, c) for c in mchunks]
        # deep sub-object paths, several methods, every form of assignment (bounded/c07_multi.py, shared with C07)
        dchunks, dtext = c07_multi.plan('C06', tier, seed)
        fut_d = [ex.submit(c07_multi.run_chunk, c) for c in dchunks]
        B.note(dtext)
        # shape of the dependency list: function form in every order / empty lists (bounded/c06_deps.py)
        fut_l = [ex.submit(c06_deps.run_chunk, c) for c in c06_deps.tasks(tier, seed)]
        B.note(c06_deps.bound_text(tier))
        for fu in fut_f:
            for ncases, keys, cc, viols in fu.result():
                for k in keys:
                    B.case(key=k)
                for c, n in cc.items():
                    B.checked(c, n)
                allv += viols
        afv = []
        for fu in fut_a:
            for ncases, keys, cc, viols in fu.result():
                for k in keys:
                    B.case(key=k)
                for c, n in cc.items():
                    B.checked(c, n)
                afv += viols
        fnv = []
        for fu, i in zip(fut_n, range(32)):
            for (n, viol), (label, prog) in zip(fu.result(), ftasks[i::32]):
                B.case(key='fn deps=%s prog=%s' % (label, ','.join(prog)))
                B.checked('C06/function form/invocations == [changed & deps != {}]', n)
                if viol:
                    fnv.append(viol)
        sfv = []
        for fu, i in zip(fut_s, range(16)):
            for (n, viol), (deps, prog) in zip(fu.result(), stasks[i::16]):
                B.case(key='subobject deps=%s prog=%s' % ('+'.join(deps), ','.join(prog)))
                B.checked(SF_CLAUSE, n)
                if viol:
                    sfv.append(viol)
        mix_results = [fu.result() for fu in fut_m]
        deep_results = [fu.result() for fu in fut_d]
        list_results = [fu.result() for fu in fut_l]
    check_parse(B)

    # ---- representatives
    groups = {}
    for v in allv:
        if v.get('via') and not v.get('md_agrees'):
            B.note('via-method discrepancy not confirmed by method_dependencies(): ' + witness_of(v)[1])
            continue
        k = viol_class(v)
        groups.setdefault(k, []).append(v)
    reports = []
    for k in sorted(groups):
        vs = groups[k]
        rep = minimise(min(vs, key=rep_sortkey))
        clause, witness = witness_of(rep)
        reports.append((clause, witness, replay_of(rep, clause, witness), len(vs),
                        'site %s called %d times in the last step, expected %s'
                        % (rep['site'], rep['got'], (rep['lo'], rep['hi']))))
    fgroups = {}
    for v in fnv:
        fgroups.setdefault((v['label'], 'missed' if v['got'] < v['want'] else
                            ('spurious' if v['want'] == 0 else 'multiple')), []).append(v)
    for k in sorted(fgroups):
        vs = fgroups[k]
        rep = min(vs, key=lambda v: (len(v['prog']), [FN_OPS.index(o) for o in v['prog']]))
        clause = 'C06/function form/invocations==deps'
        witness = 'form=function deps=%s kind=%s prog=%s got=%d want=%d' % (
            rep['label'], k[1], ','.join(rep['prog']), rep['got'], rep['want'])
        reports.append((clause, witness, fn_replay(rep, clause, witness), len(vs),
                        'f called %d times, expected %d' % (rep['got'], rep['want'])))
    sgroups = {}
    for v in sfv:
        sgroups.setdefault((SF_SHAPE.get(v['op'], 'single'), 'missed' if v['got'] < v['want'] else
                            ('spurious' if v['want'] == 0 else 'multiple')), []).append(v)
    for k in sorted(sgroups):
        vs = sgroups[k]
        rep = min(vs, key=lambda v: (len(v['prog']), SF_DEPSETS.index(v['deps']), [SF_OPS.index(o) for o in v['prog']]))
        witness = 'form=subobject shape=%s kind=%s deps=%s prog=%s got=%d want=%d' % (
            k[0], k[1], '+'.join(rep['deps']), ','.join(rep['prog']), rep['got'], rep['want'])
        reports.append((SF_CLAUSE_V, witness, sf_replay(rep, SF_CLAUSE_V, witness), len(vs),
                        'A.m1 called %d times, expected %d' % (rep['got'], rep['want'])))
    agroups = {}
    for v in afv:
        agroups.setdefault(af_class(v), []).append(v)
    for k in sorted(agroups):
        vs = agroups[k]
        rep = min(vs, key=af_weight)
        clause, witness = af_witness(rep)
        reports.append((clause, witness, af_replay(rep, clause, witness), len(vs),
                        'site %s called %d times during %s, expected %s'
                        % (rep['site'], rep['got'], 'construction' if rep['step'] == 'init' else 'the last step',
                           (rep['lo'], rep['hi']))))
    reports += c06_mix.collect(B, mix_results)
    reports += c07_multi.collect(B, 'C06', deep_results)
    reports += c06_deps.collect(B, list_results)
    reports.sort(key=lambda r: (r[0], len(r[1]), r[1]))
    per_clause, kept = {}, []
    for r in reports:
        per_clause[r[0]] = per_clause.get(r[0], 0) + 1
        if per_clause[r[0]] <= MAX_PER_CLAUSE:
            kept.append(r)
    reports = kept
    # ---- confirm every representative stand-alone before reporting it
    with ProcessPoolExecutor(max_workers=8) as ex:
        oks = list(ex.map(confirm, [r[2] for r in reports]))
    for (clause, witness, replay, n, detail), ok in zip(reports, oks):
        if not ok:
            B.note('UNCONFIRMED (stand-alone replay did not reproduce, not reported): %s | %s' % (clause, witness))
            continue
        B.violation(clause, witness, detail=detail + ' (%d failing cases in this class)' % n, replay=replay)
        B.violations[-1]['count'] = n
    for clause, n in sorted(per_clause.items()):
        if n > MAX_PER_CLAUSE:
            B.note('%s: %d further witness classes suppressed (cap %d per clause)' % (clause, n - MAX_PER_CLAUSE, MAX_PER_CLAUSE))
    for t in tasks[:3]:
        B.sample({'family': family_key(*t[:4]), 'source': family_source(t[0], family_spec(*t[:4]))})
    return B.result()


def run(tier, seed):
    """entry point; leaves the warnings filters and param's logger level as it found them"""
    import param
    logger = param.parameterized.get_logger()
    level = logger.level
    with warnings.catch_warnings():
        warnings.simplefilter('ignore')
        try:
            return _run(tier, seed)
        finally:
            logger.setLevel(level)
