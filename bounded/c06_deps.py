"""C06, two families over the SHAPE OF THE DEPENDENCY LIST itself (bounded/c06_deps.py).

Statement (properties.jsonl, C06): a watch=True method / a function decorated with Parameter-object
dependencies "is invoked exactly once for each assignment, `update` or batch that changes at least one
parameter it depends on [...] and never otherwise; `on_init=True` adds exactly one call at construction".

Family "fnperm" -- function form, several owners, EVERY ORDER of the dependency list:

    class P: a, b     class Q: x, y     class R: u          p = P(); q = Q(); r = R()
    @param.depends(<a permutation of a subset of p.a p.b q.x q.y r.u; the last k given as keywords>, watch=True)
    def f(*args, **kw): LOG.append('f')

    every subset of 2..4 (thorough: 2..5) of the five Parameters x every permutation x k in 0..2 keywords;
    operations (each on the state left by the previous ones; thorough: additionally all ordered pairs run on a
    fresh state): set of every parameter (fresh / same value), update() of each owner changing both / one / none
    of its parameters, `with batch_call_watchers(owner)` assigning both parameters of the owner.
    Oracle: the dependency SET is the set of listed Parameters (the order of a list carries no meaning in the
    statement); one call iff the operation changes a member, none otherwise.

Family "empty" -- EMPTY dependency lists and methods depending on methods:

    class A(param.Parameterized): a, b
        @param.depends(<flags>)            def e(self)     flags: watch=True | on_init=True, watch=True |
                                                                   on_init=False, watch=True | (nothing: not watched)
        @param.depends(<fdeps>, watch=True[, on_init=True]) def f(self)
              fdeps: () | ('e',) | ('e', 'e') | ('e', 'a') | ('a', 'e') | ('h',) | ('e', 'h')
        [@param.depends('f', watch=True)   def g(self)]                      (method -> method -> empty list)
        @param.depends('a', watch=True)    def h(self)                       (control: an ordinary method)
    declaration order e,f,g,h / h,g,f,e;  instance of A | B(A) adding a parameter c | B(A) re-declaring e with
    the same decoration.
    deps(m) = declared parameter names + deps(n) for every method name n (resolved on the instance's class);
    an empty declared list is EMPTY (the decorator was applied: nothing is "depended on by default").
    Oracle: construction -> exactly one call of every on_init=True watch=True method, none of the others;
    an operation changing >= 1 member of deps(m) -> exactly one call of m; otherwise none.
"""
import itertools

from bounded._api import REPLAY_HEADER

CLAUSE_FN = 'C06/function form, any order of the dependency list: invocations == [changed & deps != {}]'
CLAUSE_FN_V = 'C06/function form, any order of the dependency list: invocations==deps'
CLAUSE_EM = 'C06/empty dependency lists, methods naming them: invocations == [changed & deps != {}]'
CLAUSE_EM_V = 'C06/empty dependency lists, methods naming them: invocations==deps'

HEAD = ("import logging, warnings\nimport param\nwarnings.simplefilter('ignore')\n"
        "param.parameterized.get_logger().setLevel(logging.CRITICAL)\nLOG = []\n")

# ------------------------------------------------------------------------------------------
# family fnperm
# ------------------------------------------------------------------------------------------
PARAMS = [('p', 'a'), ('p', 'b'), ('q', 'x'), ('q', 'y'), ('r', 'u')]
OWNED = {'p': ('a', 'b'), 'q': ('x', 'y'), 'r': ('u',)}
FN_OPS = ['s:p.a', 's:p.b', 's:q.x', 's:q.y', 's:r.u', '=:p.a', '=:q.y',
          'u:p.ab', 'u:p.a=b', 'u:p.==', 'u:q.xy', 'u:q.x=y', 'u:r.u',
          'b:p.ab', 'b:p.ba', 'b:q.xy', 'b:p.a=b']


def fn_changes(op):
    kind, rest = op.split(':')
    o, names = rest.split('.')
    if kind == '=' or names == '==':
        return set()
    out, skip = set(), False
    for i, ch in enumerate(names):
        if ch == '=':
            continue
        if i > 0 and names[i - 1] == '=':
            out.add((o, ch))            # 'a=b': a keeps its value, b changes
        elif i + 1 < len(names) and names[i + 1] == '=':
            pass
        else:
            out.add((o, ch))
    return out


def fn_op_lines(op, n):
    """source lines of operation number n (fresh values never repeat)"""
    kind, rest = op.split(':')
    o, names = rest.split('.')
    fresh = 100 + 10 * n
    if kind == 's':
        return ['%s.%s = %d' % (o, names, fresh)]
    if kind == '=':
        return ['%s.%s = %s.%s' % (o, names, o, names)]
    if names == '==':
        assigns = [(nm, '%s.%s' % (o, nm)) for nm in OWNED[o]]
    else:
        assigns, j = [], 0
        for i, ch in enumerate(names):
            if ch == '=':
                continue
            keep = i + 1 < len(names) and names[i + 1] == '='
            assigns.append((ch, '%s.%s' % (o, ch) if keep else str(fresh + j)))
            j += 1
    if kind == 'u':
        return ['%s.param.update(%s)' % (o, ', '.join('%s=%s' % a for a in assigns))]
    return ['with param.parameterized.batch_call_watchers(%s):' % o] + ['    %s.%s = %s' % (o, nm, v) for nm, v in assigns]


def fn_source(order, nkw):
    npos = len(order) - nkw
    args = ['%s.param.%s' % d for d in order[:npos]] + ['k%d=%s.param.%s' % (i, d[0], d[1]) for i, d in enumerate(order[npos:])]
    return HEAD + ("class P(param.Parameterized):\n    a = param.Integer(0)\n    b = param.Integer(0)\n"
                   "class Q(param.Parameterized):\n    x = param.Integer(0)\n    y = param.Integer(0)\n"
                   "class R(param.Parameterized):\n    u = param.Integer(0)\n"
                   "p = P(); q = Q(); r = R()\n"
                   "@param.depends(%s, watch=True)\ndef f(*args, **kw):\n    LOG.append('f')\n" % ', '.join(args))


def fn_label(order, nkw):
    npos = len(order) - nkw
    return ','.join(('kw:' if i >= npos else '') + '%s.%s' % d for i, d in enumerate(order))


def fn_configs(tier):
    out = []
    for size in ((2, 3, 4, 5) if tier == 'thorough' else (2, 3, 4)):
        for sub in itertools.combinations(PARAMS, size):
            for order in itertools.permutations(sub):
                for nkw in (0, 1, 2):
                    if nkw < size:
                        out.append((order, nkw))
    return out


def fn_programs(tier, i):
    progs = [tuple(FN_OPS)]
    if tier == 'thorough':
        pairs = list(itertools.product(FN_OPS, repeat=2))
        progs += pairs[i % 16::16]
    return progs


_CODE = {}


def _code(lines):
    k = '\n'.join(lines)
    c = _CODE.get(k)
    if c is None:
        c = _CODE[k] = compile(k, '<op>', 'exec')
    return c


def fn_run(order, nkw, prog):
    deps = set(order)
    ns = {}
    exec(compile(fn_source(order, nkw), '<fnperm>', 'exec'), ns)
    LOG = ns['LOG']
    n = 0
    for i, op in enumerate(prog):
        del LOG[:]
        exec(_code(fn_op_lines(op, i)), ns)
        n += 1
        want = 1 if deps & fn_changes(op) else 0
        if len(LOG) != want:
            return n, dict(fam='fnperm', order=order, nkw=nkw, prog=tuple(prog[:i + 1]), op=op, got=len(LOG), want=want)
    return n, None


def fn_minimise(v):
    """the shortest prefix-free program that still fails: the failing operation alone, else as found"""
    n, w = fn_run(v['order'], v['nkw'], (v['op'],))
    return w or v


def interleaved(order):
    """the owners do not appear in contiguous runs"""
    owners = [o for o, _n in order]
    runs = [k for k, _g in itertools.groupby(owners)]
    return len(runs) != len(set(runs))


def fn_class(v):
    kind = 'missed' if v['got'] < v['want'] else ('spurious' if v['want'] == 0 else 'multiple')
    return ('fnperm', kind, v['op'].split(':')[0], 'interleaved' if interleaved(v['order']) else 'contiguous',
            'kw' if v['nkw'] else 'pos')


def fn_witness(v):
    k = fn_class(v)
    return 'family=fnperm deps=%s owners=%s kind=%s prog=%s got=%d want=%d' % (
        fn_label(v['order'], v['nkw']), k[3], k[1], ','.join(v['prog']), v['got'], v['want'])


def fn_replay(v, clause, witness):
    src = REPLAY_HEADER.format(prop='C06', name='replay_c06.py', clause=clause, witness=witness)
    src += fn_source(v['order'], v['nkw'])
    for i, op in enumerate(v['prog']):
        if i == len(v['prog']) - 1:
            src += 'del LOG[:]\n'
        src += '\n'.join(fn_op_lines(op, i)) + '\n'
    src += "n = len(LOG)\nif n != %d:\n" % v['want']
    src += "    print('REPRODUCED: f (depends on %s) called %%d times for the last operation, expected %d' %% n)\n    sys.exit(1)\n" % (
        fn_label(v['order'], v['nkw']), v['want'])
    src += "print('NOT-REPRODUCED')\n"
    return src


# ------------------------------------------------------------------------------------------
# family empty
# ------------------------------------------------------------------------------------------
E_FLAGS = ['watch=True', 'on_init=True, watch=True', 'on_init=False, watch=True', '']
F_DEPS = [(), ('e',), ('e', 'e'), ('e', 'a'), ('a', 'e'), ('h',), ('e', 'h')]
SHAPES = ['A', 'B+c', 'B:e']
EM_OPS = ['s:a', 's:b', '=:a', 'u:ab', 'u:b', 'u:a=b', 'b:ab', 'b:bb', 's:c', 'u:bc']
EM_CHANGES = {'s:a': {'a'}, 's:b': {'b'}, '=:a': set(), 'u:ab': {'a', 'b'}, 'u:b': {'b'}, 'u:a=b': {'b'},
              'b:ab': {'a', 'b'}, 'b:bb': {'b'}, 's:c': {'c'}, 'u:bc': {'b', 'c'}}


def em_op_lines(op, n):
    fresh = 100 + 10 * n
    return {'s:a': ['o.a = %d' % fresh], 's:b': ['o.b = %d' % fresh], '=:a': ['o.a = o.a'],
            'u:ab': ['o.param.update(a=%d, b=%d)' % (fresh, fresh + 1)], 'u:b': ['o.param.update(b=%d)' % fresh],
            'u:a=b': ['o.param.update(a=o.a, b=%d)' % fresh],
            'b:ab': ['with param.parameterized.batch_call_watchers(o):', '    o.a = %d' % fresh, '    o.b = %d' % (fresh + 1)],
            'b:bb': ['with param.parameterized.batch_call_watchers(o):', '    o.b = %d' % fresh, '    o.b = %d' % (fresh + 1)],
            's:c': ['o.c = %d' % fresh], 'u:bc': ['o.param.update(b=%d, c=%d)' % (fresh, fresh + 1)]}[op]


def em_methods(fam):
    """[(name, decorator argument text, declared deps, watch, on_init)] in declaration order"""
    eflags, fdeps, finit, withg, order, _shape = fam
    ms = [('e', eflags, (), 'watch=True' in eflags, 'on_init=True' in eflags),
          ('f', ', '.join([repr(d) for d in fdeps] + ['watch=True'] + (['on_init=True'] if finit else [])), fdeps, True, finit)]
    if withg:
        ms.append(('g', "'f', watch=True", ('f',), True, False))
    ms.append(('h', "'a', watch=True", ('a',), True, False))
    return ms if order == 'fwd' else ms[::-1]


def em_source(fam):
    shape = fam[5]
    src = HEAD + "class A(param.Parameterized):\n    a = param.Integer(0)\n    b = param.Integer(0)\n"
    if shape == 'A':
        src += "    c = param.Integer(0)\n"
    for name, dec, _deps, _w, _i in em_methods(fam):
        src += "    @param.depends(%s)\n    def %s(self):\n        LOG.append('%s')\n" % (dec, name, name)
    if shape != 'A':
        src += "class B(A):\n    c = param.Integer(0)\n"
        if shape == 'B:e':
            src += "    @param.depends(%s)\n    def e(self):\n        LOG.append('e')\n" % fam[0]
    src += "del LOG[:]\no = %s()\n" % ('A' if shape == 'A' else 'B')
    return src


def em_flat(fam, name, seen=()):
    """parameter names the method depends on (method names replaced by the dependencies of those methods)"""
    table = {m[0]: m for m in em_methods(fam)}
    out = set()
    for d in table[name][2]:
        if d in table:
            if d not in seen:
                out |= em_flat(fam, d, seen + (name,))
        else:
            out.add(d)
    return out


def em_key(fam):
    eflags, fdeps, finit, withg, order, shape = fam
    return 'e(%s) f(%s%s)%s order=%s inst=%s' % (eflags.replace(' ', ''), ','.join(fdeps), ';on_init' if finit else '',
                                                 ' g(f)' if withg else '', order, shape)


def em_configs(tier):
    out = []
    for eflags in E_FLAGS:
        for fdeps in F_DEPS:
            for finit in (False, True):
                for withg in (False, True):
                    for order in ('fwd', 'rev'):
                        for shape in SHAPES:
                            out.append((eflags, fdeps, finit, withg, order, shape))
    return out


def em_programs(tier, i):
    progs = [tuple(EM_OPS)]
    if tier == 'thorough':
        progs += list(itertools.product(EM_OPS, repeat=2))[i % 4::4]
    return progs


def em_run(fam, prog):
    ns = {}
    exec(compile(em_source(fam), '<empty deps>', 'exec'), ns)
    LOG = ns['LOG']
    ms = em_methods(fam)
    n = 1
    for name, _dec, _deps, watch, on_init in ms:
        want = 1 if (watch and on_init) else 0
        if LOG.count(name) != want:
            return n, dict(fam='empty', cfg=fam, prog=(), op='init', method=name, got=LOG.count(name), want=want,
                           deps=tuple(sorted(em_flat(fam, name))))
    flat = {m[0]: em_flat(fam, m[0]) for m in ms}
    for i, op in enumerate(prog):
        del LOG[:]
        exec(_code(em_op_lines(op, i)), ns)
        n += 1
        for name, _dec, _deps, watch, _on_init in ms:
            want = 1 if (watch and flat[name] & EM_CHANGES[op]) else 0
            if LOG.count(name) != want:
                return n, dict(fam='empty', cfg=fam, prog=tuple(prog[:i + 1]), op=op, method=name, got=LOG.count(name),
                               want=want, deps=tuple(sorted(flat[name])))
    return n, None


def em_minimise(v):
    if v['op'] == 'init':
        return v
    n, w = em_run(v['cfg'], (v['op'],))
    return w if (w and w['op'] != 'init') else v


def em_class(v):
    kind = 'missed' if v['got'] < v['want'] else ('spurious' if v['want'] == 0 else 'multiple')
    table = {m[0]: m for m in em_methods(v['cfg'])}
    declared = table[v['method']][2]
    decl = 'empty-list' if not declared else ('names-methods' if any(d in table for d in declared) else 'params')
    return ('empty', kind, v['method'], decl, 'init' if v['op'] == 'init' else v['op'].split(':')[0])


def em_witness(v):
    k = em_class(v)
    return 'family=empty classes=%s method=%s declared=%s deps={%s} kind=%s prog=%s got=%d want=%d' % (
        em_key(v['cfg']), v['method'], k[3], ','.join(v['deps']), k[1], ','.join(v['prog']) or 'init', v['got'], v['want'])


def em_replay(v, clause, witness):
    src = REPLAY_HEADER.format(prop='C06', name='replay_c06.py', clause=clause, witness=witness)
    src += em_source(v['cfg'])
    for i, op in enumerate(v['prog']):
        if i == len(v['prog']) - 1:
            src += 'del LOG[:]\n'
        src += '\n'.join(em_op_lines(op, i)) + '\n'
    src += "n = LOG.count(%r)\nprint('calls:', LOG)\nif n != %d:\n" % (v['method'], v['want'])
    src += "    print('REPRODUCED: method %s (parameters depended on: {%s}) called %%d times %s, expected %d' %% n)\n    sys.exit(1)\n" % (
        v['method'], ','.join(v['deps']), 'during construction' if v['op'] == 'init' else 'for the last operation', v['want'])
    src += "print('NOT-REPRODUCED')\n"
    return src


# ------------------------------------------------------------------------------------------
# plan / run / collect
# ------------------------------------------------------------------------------------------
def tasks(tier, seed, nchunks=24):
    ts = [('fnperm', c, fn_programs(tier, i + seed)) for i, c in enumerate(fn_configs(tier))]
    ts += [('empty', c, em_programs(tier, i + seed)) for i, c in enumerate(em_configs(tier))]
    chunks = [ts[i::nchunks] for i in range(nchunks)]
    return [c for c in chunks if c]


def bound_text(tier):
    return ("dependency-list family (bounded/c06_deps.py): function form over 5 Parameters of 3 objects, every subset of "
            "2..%d x every permutation x 0..2 keyword dependencies (%d lists), %d operations in sequence%s; empty "
            "dependency lists: %d class families (4 decorations of the empty list x 7 dependency lists of a method "
            "naming it x on_init x a third method naming that one x 2 declaration orders x 3 instance classes), "
            "construction + %d operations in sequence%s"
            % (5 if tier == 'thorough' else 4, len(fn_configs(tier)), len(FN_OPS),
               ' + a sixteenth of all ordered pairs on a fresh state' if tier == 'thorough' else '',
               len(em_configs(tier)), len(EM_OPS), ' + a quarter of all ordered pairs on a fresh state' if tier == 'thorough' else ''))


def run_chunk(ts):
    import logging
    import warnings
    import param
    warnings.simplefilter('ignore')
    param.parameterized.get_logger().setLevel(logging.CRITICAL)
    out = []
    for fam, cfg, progs in ts:
        for prog in progs:
            if fam == 'fnperm':
                n, v = fn_run(cfg[0], cfg[1], prog)
                key = 'fnperm deps=%s prog=%s' % (fn_label(*cfg), ','.join(prog))
                if v:
                    v = fn_minimise(v)
            else:
                n, v = em_run(cfg, prog)
                key = 'empty %s prog=%s' % (em_key(cfg), ','.join(prog))
                if v:
                    v = em_minimise(v)
            out.append((fam, key, n, v))
    return out


def collect(B, results):
    groups = {}
    nf = ne = 0
    for chunk in results:
        for fam, key, n, v in chunk:
            B.case(key=key)
            B.checked(CLAUSE_FN if fam == 'fnperm' else CLAUSE_EM, n)
            if fam == 'fnperm':
                nf += 1
            else:
                ne += 1
            if v:
                groups.setdefault(fn_class(v) if fam == 'fnperm' else em_class(v), []).append(v)
    reports = []
    for k in sorted(groups):
        vs = groups[k]
        if k[0] == 'fnperm':
            rep = min(vs, key=lambda v: (len(v['prog']), len(v['order']), v['nkw'], fn_label(v['order'], v['nkw']), v['prog']))
            clause, witness = CLAUSE_FN_V, fn_witness(rep)
            reports.append((clause, witness, fn_replay(rep, clause, witness), len(vs),
                            'f called %d times, expected %d' % (rep['got'], rep['want'])))
        else:
            rep = min(vs, key=lambda v: (len(v['prog']), len(em_source(v['cfg'])), em_key(v['cfg']), v['prog']))
            clause, witness = CLAUSE_EM_V, em_witness(rep)
            reports.append((clause, witness, em_replay(rep, clause, witness), len(vs),
                            'method %s called %d times, expected %d' % (rep['method'], rep['got'], rep['want'])))
    B.note('dependency-list family: %d function-form programs, %d empty-list programs' % (nf, ne))
    return reports
