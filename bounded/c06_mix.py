"""C06, family "mix": ONE method whose dependency set mixes parameter values, Parameter-attribute
(slot) specs of parameters of the SAME object and other methods, driven by every batching form.

Statement (properties.jsonl, C06): the method "is invoked exactly once for each assignment, `update`
or batch that changes at least one parameter it depends on - directly, through a Parameter attribute
spec such as 'p:bounds', or through another method it names as a dependency - and never otherwise
(change judged as for changes-only watchers)".  Nothing in it groups the dependencies by kind: a
batch that changes the value of x AND the bounds of z is ONE batch, so a method depending on
('x', 'z:bounds') runs ONCE for it; a method reaching 'x' twice (directly and through a method it
names, or through two methods) runs ONCE for an assignment of x.

Classes (generated source, real metaclass / constructor / dispatcher of the library):

    class A(param.Parameterized):
        x = Integer(0, bounds=(-100000, 100000)); y = Integer(0); z = Number(1, bounds=(0, 10))
        [@depends(<der deps>[, watch=True])  def derived(self)]
        [@depends(<der2 deps>[, watch=True]) def derived2(self)]
        @depends(<m deps>, watch=True)        def m(self)
    class B(A):  nothing | overrides `derived` with other dependencies | overrides m (same decoration)

m deps: 14 sets without method names over {'x', 'y', 'x:bounds', 'z:bounds', 'z:constant'} (values
only, slots only, value + slot of another parameter, value + slot of the SAME parameter, two slot
kinds, the same spec twice) and 8 sets naming `derived` / `derived2` (x 4 dependency sets of
`derived`, x `derived` with / without watch=True, x 3 dependency sets of `derived2` incl. a chain
derived2 -> derived -> x); both declaration orders (m first / m last).

Operations: an operation is (form, body); body = sequence of atoms
    X  o.x = <fresh>      X=  o.x = o.x        Y  o.y = <fresh>
    ZB o.param.z.bounds = <fresh>   ZB= same bounds again   ZC o.param.z.constant = not ...
    XB o.param.x.bounds = <fresh>
forms
    S   the atom alone (plain assignment)                U   o.param.update(<value atoms>)
    B   with batch_call_watchers(o): body               BB  nested batches (first atom in the inner one)
    BW  with batch_watch(o): body (deprecated spelling)
    BU  with batch: o.param.update(<first atom>) ; <rest>     BUU  ... update(<longest prefix of value atoms>) ; <rest>
    BAU with batch: <all but the last atom> ; o.param.update(<last atom>)
    BD  with batch: with discard_events(o): <first atom> ; <rest>     DB  with discard_events(o): with batch: body
Oracle for every watch=True method f of the instance's class (deps(f) = declared specs, a method
name replaced by the dependencies of the method getattr resolves on the instance's class):
    changed(kept atoms) & deps(f) != {}  =>  exactly 1 call
    only discarded atoms hit deps(f)     =>  0..1 calls   (lenient: discard_events drops them)
    nothing hit                          =>  0 calls
Every operation runs alone on a fresh instance; in addition one seeded permutation of ALL operations
runs on one instance (state left behind by one batch is seen by the next), every step compared.
"""
import itertools
import random

from bounded._api import REPLAY_HEADER

CLAUSE = 'C06/dispatch/mixed dependency kinds: invocations == [changed & deps != {}]'
CLAUSE_V = 'C06/dispatch/mixed dependency kinds: invocations==deps'

# ------------------------------------------------------------------------------------------
# families
# ------------------------------------------------------------------------------------------
PLAIN_DEPS = [('x',), ('x', 'y'), ('x', 'x'), ('z:bounds',), ('x', 'z:bounds'), ('z:bounds', 'x'),
              ('x', 'y', 'z:bounds'), ('x', 'x:bounds'), ('x', 'z:constant'), ('z:bounds', 'z:constant'),
              ('x', 'z:bounds', 'z:constant'), ('x:bounds', 'z:bounds'), ('x', 'x:bounds', 'z:bounds'),
              ('y', 'z:bounds')]
METH_DEPS1 = [('x', 'derived'), ('derived', 'x'), ('derived',), ('y', 'derived'),
              ('derived', 'z:bounds'), ('x', 'derived', 'z:bounds')]
METH_DEPS2 = [('derived', 'derived2'), ('x', 'derived', 'derived2')]
DER_DEPS = [('x',), ('x', 'y'), ('x', 'z:bounds'), ('z:bounds',)]
DER2_DEPS = [('x',), ('y',), ('derived',)]
SUBS = ['-', 'B-', 'Bd', 'Bm']
OTHER_DER = {('x',): ('y',), ('x', 'y'): ('y',), ('x', 'z:bounds'): ('y',), ('z:bounds',): ('x',)}
WHAT_ORDER = ['value', 'bounds', 'constant']


def all_bases():
    """(mdeps, der, der2) ; der / der2 = None | (deps, watch)"""
    out = [(d, None, None) for d in PLAIN_DEPS]
    for d in METH_DEPS1:
        for dd in DER_DEPS:
            for w in (True, False):
                out.append((d, (dd, w), None))
    for d in METH_DEPS2:
        for dd in DER_DEPS:
            for w in (True, False):
                for d2 in DER2_DEPS:
                    out.append((d, (dd, w), (d2, w)))
    return out


def fam_key(fam):
    mdeps, der, der2, order, sub = fam

    def ds(d):
        return '-' if d is None else '+'.join(d[0]) + ('/watch' if d[1] else '/nowatch')
    return 'family=mix deps=%s derived=%s derived2=%s order=%s sub=%s' % ('+'.join(mdeps), ds(der), ds(der2), order, sub)


_BASE_INDEX = {}


def fam_weight(fam):
    mdeps, der, der2, order, sub = fam
    if not _BASE_INDEX:
        _BASE_INDEX.update({b: i for i, b in enumerate(all_bases())})
    return (der is not None, der2 is not None, sub != '-', order != 'dm', _BASE_INDEX[fam[:3]], fam_key(fam))


def _dec(deps, watch):
    return "@param.depends(%s%s)" % (', '.join(repr(d) for d in deps), ', watch=True' if watch else '')


def fam_methods(fam):
    """{cls: [(name, deps, watch)] in declaration order}"""
    mdeps, der, der2, order, sub = fam
    helpers = []
    if der is not None:
        helpers.append(('derived', der[0], der[1]))
    if der2 is not None:
        helpers.append(('derived2', der2[0], der2[1]))
    m = [('m', mdeps, True)]
    a = helpers + m if order == 'dm' else m + helpers
    b = []
    if sub == 'Bd' and der is not None:
        b = [('derived', OTHER_DER[der[0]], der[1])]
    elif sub == 'Bm':
        b = [('m', mdeps, True)]
    return {'A': a, 'B': b}


def fam_source(fam):
    out = ["import logging, warnings", "import param", "warnings.simplefilter('ignore')",
           "param.parameterized.get_logger().setLevel(logging.CRITICAL)", "LOG = []",
           "BATCH = param.parameterized.batch_call_watchers",
           "DISCARD = param.parameterized.discard_events",
           "BATCH_WATCH = param.parameterized.batch_watch"]
    meths = fam_methods(fam)
    for cname in ('A', 'B'):
        if cname == 'B' and fam[4] == '-':
            break
        out.append("class A(param.Parameterized):" if cname == 'A' else "class B(A):")
        body = []
        if cname == 'A':
            body += ["x = param.Integer(0, bounds=(-100000, 100000))", "y = param.Integer(0)",
                     "z = param.Number(1, bounds=(0, 10))"]
        for name, deps, watch in meths[cname]:
            body.append(_dec(deps, watch))
            body.append("def %s(self): LOG.append('%s.%s')" % (name, cname, name))
        out += ["    " + b for b in (body or ["pass"])]
    return '\n'.join(out) + '\n'


def fam_cls(fam):
    return 'A' if fam[4] == '-' else 'B'


def fam_resolved(fam):
    """{method name: (site, deps, watch)} as getattr resolves them on the instance's class"""
    meths = fam_methods(fam)
    res = {}
    for cname in ('A', 'B') if fam_cls(fam) == 'B' else ('A',):
        for name, deps, watch in meths[cname]:
            res[name] = ('%s.%s' % (cname, name), deps, watch)
    return res


def flat_deps(res, name, seen=()):
    out = set()
    for s in res[name][1]:
        if s in res:
            if s not in seen:
                out |= flat_deps(res, s, seen + (name,))
        elif ':' in s:
            n, w = s.split(':')
            out.add((w, n))
        else:
            out.add(('value', s))
    return out


# ------------------------------------------------------------------------------------------
# operations
# ------------------------------------------------------------------------------------------
ATOMS = ['X', 'X=', 'Y', 'ZB', 'ZB=', 'ZC', 'XB']
ATOM_CHANGE = {'X': ('value', 'x'), 'X=': None, 'Y': ('value', 'y'), 'ZB': ('bounds', 'z'), 'ZB=': None,
               'ZC': ('constant', 'z'), 'XB': ('bounds', 'x')}
VALUE_ATOMS = ('X', 'X=', 'Y')
FORMS = ['S', 'U', 'B', 'BB', 'BW', 'BU', 'BUU', 'BAU', 'BD', 'DB']
SHAPE = {'S': 'set', 'U': 'update', 'B': 'batch', 'BB': 'batch', 'BW': 'batch', 'BU': 'batch', 'BUU': 'batch', 'BAU': 'batch',
         'BD': 'batch+discard', 'DB': 'discard'}


def atom_stmt(atom, n, j):
    v = 1000 + 10 * n + j
    return {'X': "o.x = %d" % v, 'X=': "o.x = o.x", 'Y': "o.y = %d" % (v + 5000),
            'ZB': "o.param.z.bounds = (0, %d)" % (20 + 10 * n + j),
            'ZB=': "o.param.z.bounds = tuple(o.param.z.bounds)",
            'ZC': "o.param.z.constant = not o.param.z.constant",
            'XB': "o.param.x.bounds = (-100000, %d)" % (100001 + 10 * n + j)}[atom]


def atom_kw(atom, n, j):
    v = 1000 + 10 * n + j
    return {'X': "x=%d" % v, 'X=': "x=o.x", 'Y': "y=%d" % (v + 5000)}[atom]


def op_key(op):
    return '%s[%s]' % (op[0], ','.join(op[1]))


def _upd_prefix(body):
    """length of the longest prefix of value atoms over distinct parameters"""
    names = []
    for a in body:
        if a not in VALUE_ATOMS or a[0] in names:
            break
        names.append(a[0])
    return len(names)


def all_ops(L, L_other=None):
    """every (form, body): bodies = sequences of <= L atoms (form B) / <= L_other atoms (other forms)"""
    L_other = L if L_other is None else L_other
    ops = [('S', (a,)) for a in ATOMS]
    for body in ([('X',), ('X=',), ('Y',), ('X', 'Y'), ('X=', 'Y'), ('Y', 'X')]):
        ops.append(('U', body))
    bodies = [b for n in range(1, L + 1) for b in itertools.product(ATOMS, repeat=n)]
    for body in bodies:
        ops.append(('B', body))
        if len(body) > L_other:
            continue
        ops.append(('BW', body))
        ops.append(('DB', body))
        if len(body) >= 2:
            ops.append(('BB', body))
            ops.append(('BD', body))
        if body[0] in VALUE_ATOMS and len(body) >= 2:
            ops.append(('BU', body))
        if _upd_prefix(body) >= 2:
            ops.append(('BUU', body))
        if body[-1] in VALUE_ATOMS and len(body) >= 2:
            ops.append(('BAU', body))
    return ops


def op_source(op, n):
    form, body = op
    st = [atom_stmt(a, n, j) for j, a in enumerate(body)]
    ind = lambda ls, k=1: ['    ' * k + s for s in ls]
    if form == 'S':
        return st
    if form == 'U':
        return ["o.param.update(%s)" % ', '.join(atom_kw(a, n, j) for j, a in enumerate(body))]
    if form == 'B':
        return ["with BATCH(o):"] + ind(st)
    if form == 'BW':
        return ["with BATCH_WATCH(o):"] + ind(st)
    if form == 'BB':
        return ["with BATCH(o):", "    with BATCH(o):"] + ind(st[:1], 2) + ind(st[1:])
    if form == 'BD':
        return ["with BATCH(o):", "    with DISCARD(o):"] + ind(st[:1], 2) + ind(st[1:])
    if form == 'DB':
        return ["with DISCARD(o):", "    with BATCH(o):"] + ind(st, 2)
    if form in ('BU', 'BUU', 'BAU'):
        if form == 'BAU':
            return ["with BATCH(o):"] + ind(st[:-1] + ["o.param.update(%s)" % atom_kw(body[-1], n, len(body) - 1)])
        k = 1 if form == 'BU' else _upd_prefix(body)
        upd = "o.param.update(%s)" % ', '.join(atom_kw(a, n, j) for j, a in enumerate(body[:k]))
        return ["with BATCH(o):"] + ind([upd] + st[k:])
    raise ValueError(form)


def op_changes(op):
    """(changed by the atoms whose events are kept, changed by the atoms whose events are discarded)"""
    form, body = op
    disc = body[:1] if form == 'BD' else (body if form == 'DB' else ())
    kept = body[1:] if form == 'BD' else (() if form == 'DB' else body)
    f = lambda atoms: {ATOM_CHANGE[a] for a in atoms if ATOM_CHANGE[a] is not None}
    return f(kept), f(disc)


def expected(fam, op):
    """{site: (lo, hi, whats of the kept hit)} for the watch=True methods resolved on the class"""
    res = fam_resolved(fam)
    kept, disc = op_changes(op)
    exp = {}
    for name, (site, deps, watch) in res.items():
        if not watch:
            continue
        d = flat_deps(res, name)
        hk, hd = d & kept, d & disc
        whats = tuple(w for w in WHAT_ORDER if any(w == w2 for w2, _ in hk))
        if hk:
            exp[site] = (1, 1, whats)
        elif hd:
            exp[site] = (0, 1, ())
        else:
            exp[site] = (0, 0, ())
    return exp


# ------------------------------------------------------------------------------------------
# running
# ------------------------------------------------------------------------------------------
_CODE = {}


def _code(op, n):
    k = (op, n)
    c = _CODE.get(k)
    if c is None:
        c = _CODE[k] = compile('\n'.join(op_source(op, n)), '<op>', 'exec')
    return c


def _compare(log, exp):
    got = {}
    for s in log:
        got[s] = got.get(s, 0) + 1
    bad = []
    for s in sorted(set(got) | set(exp)):
        lo, hi, whats = exp.get(s, (0, 0, ()))
        g = got.get(s, 0)
        if not (lo <= g <= hi):
            bad.append((s, g, lo, hi, whats))
    return bad


def run_chunk(args):
    """args = (families, ops for the fresh-instance runs, ops of the permutation, seed)
    -> list of (keys, number of clause evaluations, violations)"""
    import logging
    import warnings
    import param
    warnings.simplefilter('ignore')
    param.parameterized.get_logger().setLevel(logging.CRITICAL)
    fams, fresh_ops, perm_ops, seed = args
    out = []
    for fam in fams:
        ns = {}
        exec(compile(fam_source(fam), '<mix family>', 'exec'), ns)
        LOG, K = ns['LOG'], ns[fam_cls(fam)]
        fkey = fam_key(fam)
        keys, nchk, viols = [], 0, []
        expc = {}

        def exp_of(op):
            e = expc.get(op)
            if e is None:
                e = expc[op] = expected(fam, op)
            return e
        failed_alone = set()
        for op in fresh_ops:
            keys.append('%s prog=%s' % (fkey, op_key(op)))
            ns['o'] = K()
            del LOG[:]
            exec(_code(op, 0), ns)
            nchk += 1
            for (site, g, lo, hi, whats) in _compare(LOG, exp_of(op)):
                failed_alone.add((op, site, g))
                viols.append(dict(fam=fam, prog=(op,), ns=(0,), site=site, got=g, lo=lo, hi=hi, whats=whats, hist=False))
        if perm_ops:
            rnd = random.Random('%s|%s' % (seed, fkey))
            perm = list(perm_ops)
            rnd.shuffle(perm)
            keys.append('%s prog=perm(%d ops, seed %s)' % (fkey, len(perm), seed))
            ns['o'] = K()
            for i, op in enumerate(perm):
                del LOG[:]
                exec(_code(op, i), ns)
                nchk += 1
                bad = _compare(LOG, exp_of(op))
                for (site, g, lo, hi, whats) in bad:
                    if (op, site, g) in failed_alone:
                        continue
                    # does it fail alone on a fresh instance?  (canonical witness = the shortest history)
                    ns2 = dict(ns, o=K())
                    del LOG[:]
                    exec(_code(op, 0), ns2)
                    alone = [b for b in _compare(LOG, exp_of(op)) if b[0] == site and b[1] == g]
                    if alone:
                        failed_alone.add((op, site, g))
                        viols.append(dict(fam=fam, prog=(op,), ns=(0,), site=site, got=g, lo=lo, hi=hi, whats=whats, hist=False))
                    else:
                        viols.append(dict(fam=fam, prog=tuple(perm[:i + 1]), ns=tuple(range(i + 1)), site=site, got=g,
                                          lo=lo, hi=hi, whats=whats, hist=True))
                if bad and any(v['hist'] for v in viols):
                    break       # a corrupted instance: the first failing step is the finding
        out.append((keys, nchk, viols))
    return out


# ------------------------------------------------------------------------------------------
# enumeration per tier
# ------------------------------------------------------------------------------------------
def tasks(tier, seed, nchunks=32):
    bases = all_bases()
    fams_fresh, fams_perm = [], []
    if tier == 'thorough':
        # every operation (batch bodies <= 3 atoms) alone on class A (m declared last); class A in both
        # declaration orders runs the permutation of all those operations, the subclass variants the
        # permutation of the operations with bodies <= 2 atoms
        ops, ops2 = all_ops(3, 2), all_ops(2)
        fams_perm3 = []
        for b in bases:
            for order in ('dm', 'md'):
                if b[1] is None and order == 'md':
                    continue
                for sub in SUBS:
                    if sub == 'Bd' and b[1] is None:
                        continue
                    (fams_fresh if (sub, order) == ('-', 'dm') else (fams_perm3 if sub == '-' else fams_perm)).append(
                        b + (order, sub))
        chunks = [(fams_fresh[i::nchunks], ops, ops, seed) for i in range(nchunks)]
        chunks += [(fams_perm3[i::nchunks], (), ops, seed) for i in range(nchunks)]
        chunks += [(fams_perm[i::nchunks], (), ops2, seed) for i in range(nchunks)]
        return [c for c in chunks if c[0]], len(ops), True
    ops = all_ops(2)
    # quick: the configurations without method names and every fourth (seeded) one with them run every
    # operation alone on class A; EVERY configuration runs the permutation of all operations on a rotating
    # (seeded) subclass variant / declaration order (a step failing there is re-run alone on a fresh instance)
    for i, b in enumerate(bases):
        if b[1] is None or (i + seed) % 4 == 0:
            fams_fresh.append(b + ('dm', '-'))
        subs = [s for s in SUBS[1:] if not (s == 'Bd' and b[1] is None)]
        sub = subs[(i + seed) % len(subs)]
        order = 'md' if (b[1] is not None and (i + seed) % 2) else 'dm'
        fams_perm.append(b + (order, sub))
    chunks = [(fams_fresh[i::nchunks], ops, (), seed) for i in range(nchunks)]
    chunks += [(fams_perm[i::nchunks], (), ops, seed) for i in range(nchunks)]
    return [c for c in chunks if c[0]], len(ops), False


def bound_text(tier):
    nb = len(all_bases())
    if tier == 'thorough':
        n = len(all_ops(3, 2))
        return ("%d dependency configurations x 2 declaration orders x 4 subclass variants; %d operations (batch bodies "
                "<= 3 atoms, other forms <= 2): each alone on class A, all of them as one permutation on class A (both "
                "declaration orders); the subclass variants run the permutation of the %d operations with bodies <= 2"
                % (nb, n, len(all_ops(2))))
    n = len(all_ops(2))
    return ("%d dependency configurations; %d operations (bodies <= 2 atoms): all of them as one permutation per "
            "configuration on a rotating subclass variant / declaration order, and each alone on class A for the %d "
            "configurations without method names + every fourth of the others" % (nb, n, len(PLAIN_DEPS)))


# ------------------------------------------------------------------------------------------
# witnesses / replay
# ------------------------------------------------------------------------------------------
def viol_class(v):
    op = v['prog'][-1]
    if v['got'] < v['lo']:
        kind = 'missed'
    elif v['hi'] == 0:
        kind = 'spurious'
    else:
        kind = 'multiple'
    return (SHAPE[op[0]], '+'.join(v['whats']) or '-', kind, v['got'], 'after-history' if v['hist'] else 'fresh')


def witness_of(v):
    shape, whats, kind, got, hist = viol_class(v)
    want = ('%d' % v['lo']) if v['lo'] == v['hi'] else '%d..%d' % (v['lo'], v['hi'])
    prog = ';'.join(op_key(o) for o in v['prog'])
    if len(v['prog']) > 6:
        prog = '%s;...(%d ops);%s' % (op_key(v['prog'][0]), len(v['prog']) - 2, op_key(v['prog'][-1]))
    return 'form=mix shape=%s whats=%s kind=%s got=%d want=%s instance=%s method=%s cls=%s prog=%s | %s' % (
        shape, whats, kind, got, want, hist, v['site'].split('.')[1], fam_cls(v['fam']), prog,
        fam_key(v['fam']).split(' ', 1)[1])


def sortkey(v):
    return (len(v['prog']), fam_weight(v['fam']), [(FORMS.index(o[0]), len(o[1]), [ATOMS.index(a) for a in o[1]])
                                                  for o in v['prog']], v['site'])


def replay_of(v, clause, witness):
    src = REPLAY_HEADER.format(prop='C06', name='replay_c06.py', clause=clause, witness=witness)
    src += fam_source(v['fam'])
    src += "o = %s()\n" % fam_cls(v['fam'])
    for i, (op, n) in enumerate(zip(v['prog'], v['ns'])):
        if i == len(v['prog']) - 1:
            src += "del LOG[:]\n"
        src += '\n'.join(op_source(op, n)) + '\n'
    want = ('%d' % v['lo']) if v['lo'] == v['hi'] else '%d..%d' % (v['lo'], v['hi'])
    src += "n = LOG.count(%r)\n" % v['site']
    src += "print('log of the last step:', LOG)\n"
    src += "if not (%d <= n <= %d):\n" % (v['lo'], v['hi'])
    src += "    print('REPRODUCED: %s called %%d times in one step, expected %s' %% n)\n" % (v['site'], want)
    src += "    sys.exit(1)\nprint('NOT-REPRODUCED')\n"
    return src


def _fails(ns0, K, v, idx):
    """does the history restricted to the steps `idx` (+ the last one) still show the discrepancy?"""
    ns = dict(ns0, o=K())
    LOG = ns['LOG']
    try:
        for i in idx:
            exec(_code(v['prog'][i], v['ns'][i]), ns)
        del LOG[:]
        exec(_code(v['prog'][-1], v['ns'][-1]), ns)
    except Exception:
        return False
    return LOG.count(v['site']) == v['got']


def minimise_hist(v):
    """shortest history found by greedy removal (suffixes first, then single steps); run in this process,
    the stand-alone replay confirms the result afterwards"""
    if not v['hist'] or len(v['prog']) <= 2:
        return v
    try:
        ns0 = {}
        exec(compile(fam_source(v['fam']), '<mix family>', 'exec'), ns0)
        K = ns0[fam_cls(v['fam'])]
        n = len(v['prog']) - 1
        idx = list(range(n))
        if not _fails(ns0, K, v, idx):
            return v
        k = 1
        while k < n:                      # a short suffix of the history?
            if _fails(ns0, K, v, idx[n - k:]):
                idx = idx[n - k:]
                break
            k *= 2
        i = 0
        while i < len(idx):               # drop single steps
            cand = idx[:i] + idx[i + 1:]
            if _fails(ns0, K, v, cand):
                idx = cand
            else:
                i += 1
        keep = idx + [n]
        return dict(v, prog=tuple(v['prog'][i] for i in keep), ns=tuple(v['ns'][i] for i in keep))
    except Exception:
        return v


def collect(B, results):
    """count the cases into B; -> list of report tuples (clause, witness, replay, n, detail)"""
    allv = []
    for chunk in results:
        for keys, nchk, viols in chunk:
            for k in keys:
                B.case(key=k)
            B.checked(CLAUSE, nchk)
            allv += viols
    groups = {}
    for v in allv:
        groups.setdefault(viol_class(v), []).append(v)
    reports = []
    for k in sorted(groups):
        vs = groups[k]
        rep = minimise_hist(min(vs, key=sortkey))
        witness = witness_of(rep)
        reports.append((CLAUSE_V, witness, replay_of(rep, CLAUSE_V, witness), len(vs),
                        'site %s called %d times in the last step, expected %s'
                        % (rep['site'], rep['got'], (rep['lo'], rep['hi']))))
    return reports
