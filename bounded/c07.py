"""Bounded stand-in layer for C07 -- sub-object dependencies follow the object currently attached.

Real code driven: `Parameterized.__init__`, `Parameter.__set__` (-> `_update_deps(name)`),
`_watch_group`, `_resolve_dynamic_deps`, `_skip_event`, `_sync_caller`, `unwatch` of /repo.

A configuration is a dependency set written as paths ('a.x', 'a.b.x', 'a.param', ...) on a top
class T; the sub-objects are instances of two small classes (L: leaves x, y; M: x, y and the
sub-object slots b, c).  A history is a sequence of operations from

    att(slot)      put a fresh default sub-tree into an empty slot of the *current* path
    req(slot)      replace the object in the slot by a deep copy with equal leaf values
    rdk(slot, k)   ... by a deep copy that differs in the k-th dependency leaf only
    det(slot)      slot = None
    rat(slot)      put the most recently detached object of that slot back (stale object re-attached)
    lsa(k)         assign a fresh value to the k-th dependency leaf on the attached object
    lsd(k)         assign the corresponding leaf on the most recently detached object
    rdd(slot)      replace a sub-object of the most recently detached intermediate object
    atd(slot, n)   put a fresh sub-tree of only n levels into an empty slot (the levels below stay
                   None): together with att this gives every top-down / bottom-up / mixed order of
                   attaching the missing levels of a path
    bad(slot)      FAULT: put an object that LACKS the depended-on parameters / sub-object slots
                   (class N) into the slot; the real assignment stores the value and then raises
                   while the dependency is re-resolved

The oracle is a shadow model written from the property statement: before and after every
operation the value reached through each dependency path is computed on the shadow
(UNRESOLVED when a path element is None);

    an operation on a detached object                              -> 0 calls
    some dependency resolves before and after and its value differs -> exactly 1 call
    otherwise, the operation assigns a slot on the path of a
      dependency that is unresolved before or after it              -> 0..1 calls (no claim)
    otherwise                                                       -> 0 calls

and after every operation the watcher tables of every object ever created that is no longer
reachable from the top object through the current paths must be empty (the test installs no
watcher of its own, so whatever is found there was installed on the parent's behalf).

Additional families (initial state 'full'; explicit histories):

    arm:op         FAULT: op (rdk of every slot and leaf / lsa of every leaf -- operations that must call
                   the method) is performed while the dependent method itself RAISES (after logging the
                   call); the exception leaves the assignment and is caught.  Histories  arm:a ; c1 [; c2]
                   and  p ; arm:a ; c1  over all applicable single operations p, c1, c2: the call is
                   counted as usual (exactly one), and afterwards the attached objects must drive the
                   method, detached ones must not and must keep no watcher.
    upd[H](i+j)    H.param.update(...) : 1..2 single operations assigning DIFFERENT parameters of the
                   object at H ('top' or an attached intermediate object), both orders
    ctx[H](i+j+k)  `with batch_call_watchers(H):` 1..3 single operations (sam = re-assign the SAME
                   object, req, rdk, det, att, rat of every slot, lsa of every leaf; the same slot may be
                   assigned several times; at least one item assigns a parameter of H)
                   Oracle: items assigning a parameter of H are batched and together cause at most one
                   call; an item assigning a parameter of another object is an ordinary assignment (at
                   most one call each; lenient: then also one call for the batched replacements, which
                   are compared at the flush); exactly one call is demanded when the values reached
                   before and after the whole batch differ and no item passed through an unresolved
                   path.  Histories  batch ; c1  and  p ; batch ; probe  (probe = lsa / lsd of every leaf).

Family "multi" (bounded/c07_multi.py, shared with C06): SEVERAL dependent methods whose paths (depth 1-3)
share prefixes, replacement at every level with nested values equal / different, sub-object classes with
VALUE equality (__eq__/__hash__) whose siblings are equal-valued when the dependencies are bound or
re-bound (operation eqs); the calls of EVERY method are compared with the values reached through its own
paths.  The same module adds RAISING methods to the configurations with several methods (arm[mj]:a ; c1 for every
method j: everything is checked AFTER the failure) and class hierarchies in which a plain non-Parameterized mixin
re-declares the watching method with a dependency through another sub-object, in every MRO position (family mro).

Initial states: all slots attached ('full'), all empty ('empty'), and 'hole:<slot>' (everything
attached except the sub-tree at <slot>, which is None) for every slot below the first level.
The depth-3 configurations ('a.b.c.x', ...) additionally run, from every initial state, every
order of filling the missing levels (att / atd) followed by ALL histories of the stated length.

Faults (bad): while an object of class N sits on a path ("fault mode": the path cannot be
resolved, every re-binding raises) nothing is claimed about calls caused by ATTACHED objects
(0..1); operations on detached objects must still cause 0 calls and detached objects must keep
no watcher; once the faulty object has been replaced by a valid one (att / rat / det) the normal
expectations apply again.
"""
import itertools
import logging
import os
import subprocess
import sys
import tempfile
import warnings
from concurrent.futures import ProcessPoolExecutor

from bounded._api import Bounded, REPLAY_HEADER

CONFIGS = [
    ('a.x',),
    ('a.x', 'a.y'),
    ('a.x', 'c.x'),
    ('a.x', 'c.y'),
    ('a.param',),
    ('a.x', 'z'),
    ('a.b.x',),
    ('a.b.x', 'a.b.y'),
    ('a.b.x', 'a.x'),
    ('a.b.x', 'a.c.x'),
    ('a.b.x', 'a.c.y'),
    ('a.b.param',),
    ('a.b.c.x',),
    ('a.b.c.x', 'a.b.y'),
    # a leaf of a sub-object next to a deeper path through the SAME sub-object, in both declaration orders
    ('a.y', 'a.b.x'),
    ('a.b.x', 'a.y'),
    ('a.x', 'a.b.x'),
    # three dependencies mixing depths (leaf first / in the middle / last; second branch; depth 3)
    ('a.y', 'a.b.x', 'a.b.y'),
    ('a.b.x', 'a.y', 'a.c.x'),
    ('a.b.x', 'a.b.y', 'a.x'),
    ('a.y', 'a.b.x', 'a.b.c.x'),
]
# dependency sets whose length-k histories are a seeded slice in the quick tier (all of them in thorough;
# their histories of length 2 from every initial state are always complete)
NEW_CONFIGS = CONFIGS[14:]
SAMPLED_QUICK = {c: (4 if len(c) == 2 else 8) for c in NEW_CONFIGS}
ARM_QUICK = CONFIGS[:16]
# the three-dependency sets: complete histories one step shorter than the other sets in the thorough tier
SHORTER = set(c for c in NEW_CONFIGS if len(c) == 3)

CLASSES_SRC = '''import logging, warnings
import param
warnings.simplefilter('ignore')
param.parameterized.get_logger().setLevel(logging.CRITICAL)
LOG = []
ARM = [False]
class Boom(Exception):
    pass
class L(param.Parameterized):
    x = param.Integer(0)
    y = param.Integer(0)
class M(param.Parameterized):
    x = param.Integer(0)
    y = param.Integer(0)
    b = param.Parameter(None)
    c = param.Parameter(None)
class N(param.Parameterized):
    z = param.Integer(0)
class T(param.Parameterized):
    a = param.Parameter(None)
    c = param.Parameter(None)
    z = param.Integer(0)
    @param.depends(%s, watch=True)
    def m(self):
        LOG.append('m')
        if ARM[0]:
            raise Boom('the dependent method raises')
'''

UNRES = '<unresolved>'


# ------------------------------------------------------------------------------------------
# static description of a configuration
# ------------------------------------------------------------------------------------------
class Cfg:
    def __init__(self, specs):
        self.specs = specs
        slots = set()
        for s in specs:
            parts = s.split('.')
            for i in range(1, len(parts)):
                slots.add('.'.join(parts[:i]))
        self.slots = sorted(slots, key=lambda s: (s.count('.'), s))
        # type of the object held by a slot
        self.slot_cls = {s: ('M' if any(t.startswith(s + '.') for t in self.slots) else 'L') for s in self.slots}
        # dependency leaves: (owner slot or '' for the top object, parameter name)
        leaves = []
        for s in specs:
            parts = s.split('.')
            owner = '.'.join(parts[:-1])
            if parts[-1] == 'param':
                for p in ('x', 'y'):
                    leaves.append((owner, p))
            else:
                leaves.append((owner, parts[-1]))
        self.leaves = leaves
        ops = []
        for s in self.slots:
            ops.append(('att', s))
        for s in self.slots:
            ops.append(('req', s))
        for s in self.slots:
            for k, (owner, _p) in enumerate(leaves):
                if owner == s or owner.startswith(s + '.'):
                    ops.append(('rdk', s, k))
        for s in self.slots:
            ops.append(('det', s))
        for s in self.slots:
            ops.append(('rat', s))
        for k in range(len(leaves)):
            ops.append(('lsa', k))
        for k, (owner, _p) in enumerate(leaves):
            if owner:
                ops.append(('lsd', k))
        for s in self.slots:
            if '.' in s:
                ops.append(('rdd', s))
        # number of levels of the sub-tree below (and including) a slot
        self.levels = {s: 1 + max(t.count('.') for t in self.slots if t == s or t.startswith(s + '.')) - s.count('.')
                       for s in self.slots}
        self.depth = max(self.levels.values())
        for s in self.slots:
            for n in range(1, self.levels[s]):
                ops.append(('atd', s, n))
        for s in self.slots:
            ops.append(('bad', s))
        self.ops = ops
        self.inits = ['full', 'empty'] + ['hole:' + s for s in self.slots if '.' in s]

    def children(self, slot):
        return [t for t in self.slots if t.startswith(slot + '.') and t.count('.') == slot.count('.') + 1]


def op_str(op):
    if op[0] == 'arm':
        # (family "multi": ('arm', op, j) = method number j raises)
        return ('arm:' if len(op) < 3 else 'arm[m%d]:' % op[2]) + op_str(op[1])
    if op[0] == 'bat':
        return '%s[%s](%s)' % (op[1], op[2] or 'top', '+'.join(op_str(o) for o in op[3]))
    return '%s(%s)' % (op[0], ','.join(str(x) for x in op[1:]))


SLOT_OPS = ('att', 'atd', 'bad', 'req', 'rdk', 'det', 'rat', 'sam', 'eqs')


def op_order(cfg, op):
    """deterministic sort key of an operation (the position in cfg.ops for the basic alphabet)"""
    if op[0] == 'arm':
        return (1, op_order(cfg, op[1])[1], '')
    if op[0] == 'bat':
        return (2, len(op[3]), op_str(op))
    if op[0] == 'sam':
        return (0, len(cfg.ops), op[1])
    return (0, cfg.ops.index(op), '')


def hist_str(hist, raised=()):
    r = dict(raised)
    return ';'.join(op_str(o) + ('!' + r[i] if i in r else '') for i, o in enumerate(hist))


# ------------------------------------------------------------------------------------------
# shadow model; emits instructions that are interpreted on the real objects and rendered as
# source in replay scripts
# ------------------------------------------------------------------------------------------
class Model:
    def __init__(self, cfg, init):
        self.cfg = cfg
        self.objs = []           # idx -> {'cls', 'vals': {x, y}, 'sub': {b, c}, 'role'}
        self.top = {'a': None, 'c': None, 'z': 0}
        self.detached = []       # idx in order of detachment
        self.instrs = []
        self.last_batch = None
        self.fresh = 10
        kw = {}
        if init != 'empty':
            hole = init[5:] if init.startswith('hole:') else None
            for s in cfg.slots:
                if '.' not in s:
                    kw[s] = self.new_tree(s, {}, hole=hole)
                    self.top[s] = kw[s]
        self.instrs.append(('top', kw))

    # -- construction of sub-trees
    def new_obj(self, role, vals, sub, bad=False):
        idx = len(self.objs)
        cls = 'N' if bad else self.cfg.slot_cls[role]
        self.objs.append({'cls': cls, 'vals': dict(vals), 'sub': dict(sub), 'role': role, 'bad': bad})
        self.instrs.append(('new', idx, cls, dict(vals), dict(sub)))
        return idx

    def new_tree(self, slot, leafvals, levels=None, hole=None):
        """fresh sub-tree for `slot`; leafvals: {(owner slot, pname): value} (default 0);
        levels: number of levels built (None = all; the slots below stay None); hole: a slot
        that is left None together with everything below it"""
        sub = {}
        for ch in self.cfg.children(slot):
            if ch == hole or (levels is not None and levels <= 1):
                sub[ch.split('.')[-1]] = None
            else:
                sub[ch.split('.')[-1]] = self.new_tree(ch, leafvals, None if levels is None else levels - 1, hole)
        vals = {p: leafvals.get((slot, p), 0) for p in ('x', 'y')}
        return self.new_obj(slot, vals, sub)

    def tree_vals(self, slot, idx, out):
        o = self.objs[idx]
        if o['bad']:
            return out
        for p in ('x', 'y'):
            out[(slot, p)] = o['vals'][p]
        for ch in self.cfg.children(slot):
            j = o['sub'].get(ch.split('.')[-1])
            if j is not None:
                self.tree_vals(ch, j, out)
        return out

    def copy_tree(self, slot, idx, override):
        """deep copy of the sub-tree rooted at object idx (keeping None sub-slots None)"""
        o = self.objs[idx]
        if o['bad']:
            return self.new_obj(slot, {}, {}, bad=True)
        sub = {}
        for ch in self.cfg.children(slot):
            j = o['sub'].get(ch.split('.')[-1])
            sub[ch.split('.')[-1]] = None if j is None else self.copy_tree(ch, j, override)
        vals = {p: override.get((slot, p), o['vals'][p]) for p in ('x', 'y')}
        return self.new_obj(slot, vals, sub)

    def copy_as(self, slot, idx):
        """fresh sub-tree for `slot` with the leaf values (and None sub-slots) of the sub-tree rooted at
        object idx, which sits at ANOTHER slot of the same shape"""
        o = self.objs[idx]
        sub = {}
        for ch in self.cfg.children(slot):
            j = o['sub'].get(ch.split('.')[-1])
            sub[ch.split('.')[-1]] = None if (j is None or self.objs[j]['bad']) else self.copy_as(ch, j)
        return self.new_obj(slot, {p: o['vals'][p] for p in ('x', 'y')}, sub)

    # -- resolution
    def raw_at(self, slot):
        """index of the object currently stored at slot (a faulty object included), or None"""
        parts = slot.split('.')
        cur = self.top.get(parts[0])
        for p in parts[1:]:
            if cur is None:
                return None
            cur = self.objs[cur]['sub'].get(p)
        return cur

    def at(self, slot):
        """index of the object currently at slot ('' -> 'top'), or None; a faulty object (class N)
        does not resolve: the slot counts as unresolved, like a hole"""
        if slot == '':
            return 'top'
        parts = slot.split('.')
        cur = self.top.get(parts[0])
        for p in parts[1:]:
            if cur is None or self.objs[cur]['bad']:
                return None
            cur = self.objs[cur]['sub'].get(p)
        if cur is not None and self.objs[cur]['bad']:
            return None
        return cur

    def faulty(self):
        """True while an object of class N is attached somewhere along the current paths"""
        return any(self.objs[i]['bad'] for i in self.reachable())

    def parent_resolves(self, slot):
        par = '.'.join(slot.split('.')[:-1])
        return self.at(par) is not None

    def reached(self):
        out = []
        for s in self.cfg.specs:
            parts = s.split('.')
            owner = '.'.join(parts[:-1])
            o = self.at(owner)
            if o is None:
                out.append(UNRES)
            elif o == 'top':
                out.append(self.top[parts[-1]])
            elif parts[-1] == 'param':
                out.append((self.objs[o]['vals']['x'], self.objs[o]['vals']['y']))
            else:
                out.append(self.objs[o]['vals'][parts[-1]])
        return out

    def reachable(self):
        seen = set()

        def walk(slot, idx):
            if idx is None:
                return
            seen.add(idx)
            for ch in self.cfg.children(slot):
                walk(ch, self.objs[idx]['sub'].get(ch.split('.')[-1]))
        for s in self.cfg.slots:
            if '.' not in s:
                walk(s, self.top[s])
        return seen

    def last_detached(self, role):
        for idx in reversed(self.detached):
            if self.objs[idx]['role'] == role and not self.objs[idx]['bad']:
                return idx
        return None

    # -- operations
    def applicable(self, op):
        kind = op[0]
        if kind in ('att', 'atd'):
            return self.parent_resolves(op[1]) and self.at(op[1]) is None
        if kind == 'bad':
            if not self.parent_resolves(op[1]):
                return False
            cur = self.raw_at(op[1])
            return cur is None or not self.objs[cur]['bad']
        if kind in ('req', 'sam'):
            return self.at(op[1]) is not None
        if kind == 'eqs':       # (family "multi", bounded/c07_multi.py) replace by a copy of the object at ANOTHER slot
            return self.at(op[1]) is not None and self.at(op[2]) is not None
        if kind == 'arm':
            return self.applicable(op[1])
        if kind == 'det':
            return self.parent_resolves(op[1]) and self.raw_at(op[1]) is not None
        if kind == 'rat':
            return self.parent_resolves(op[1]) and self.last_detached(op[1]) is not None
        if kind == 'rdk':
            owner, _p = self.cfg.leaves[op[2]]
            return self.at(op[1]) is not None and self.at(owner) is not None
        if kind == 'lsa':
            owner, _p = self.cfg.leaves[op[1]]
            return self.at(owner) is not None
        if kind == 'lsd':
            owner, _p = self.cfg.leaves[op[1]]
            return self.last_detached(owner) is not None
        if kind == 'rdd':
            par = '.'.join(op[1].split('.')[:-1])
            return self.last_detached(par) is not None
        raise ValueError(op)

    def set_slot(self, slot, idx):
        parts = slot.split('.')
        par = self.at('.'.join(parts[:-1]))
        if par == 'top':
            self.top[parts[-1]] = idx
            self.instrs.append(('set', 'top', parts[-1], ('obj', idx)))
        else:
            self.objs[par]['sub'][parts[-1]] = idx
            self.instrs.append(('set', par, parts[-1], ('obj', idx)))

    def holder_of(self, op):
        """the object ('top' / index) whose parameter the single operation assigns (None: an
        operation on a detached object)"""
        if op[0] in SLOT_OPS:
            return self.at('.'.join(op[1].split('.')[:-1]))
        if op[0] == 'lsa':
            return self.at(self.cfg.leaves[op[1]][0])
        return None

    def apply(self, op):
        """mutates the shadow, appends instructions (the last one is the measured statement);
        returns True iff the operation acts on a detached object.
        ('arm', op): op performed while the dependent method is armed to raise.
        ('bat', mode, H, items): the single operations `items` performed inside ONE batch on the
        object currently at slot H ('' = the top object): mode 'upd' = H.param.update(**items),
        mode 'ctx' = `with batch_call_watchers(H): items...`.  self.last_batch records, per item,
        (item, values reached before, after, item assigns a parameter of H itself)."""
        self.last_batch = None
        if op[0] == 'arm':
            return self.apply1(op[1])
        if op[0] == 'bat':
            _, mode, H, items = op
            hidx = self.at(H)
            start = len(self.instrs)
            info = []
            for it in items:
                b = self.reached()
                batched = self.holder_of(it) == hidx
                self.apply1(it)
                info.append((it, b, self.reached(), batched))
            seg = self.instrs[start:]
            self.instrs[start:] = [ins for ins in seg if ins[0] == 'new'] + \
                [('batch', mode, hidx, [ins for ins in seg if ins[0] == 'set'])]
            self.last_batch = info
            return False
        return self.apply1(op)

    def apply1(self, op):
        kind = op[0]
        self.fresh += 1
        before = self.reachable()
        on_detached = False
        if kind == 'att':
            self.set_slot(op[1], self.new_tree(op[1], {}))
        elif kind == 'atd':
            self.set_slot(op[1], self.new_tree(op[1], {}, levels=op[2]))
        elif kind == 'bad':
            self.set_slot(op[1], self.new_obj(op[1], {}, {}, bad=True))
        elif kind == 'req':
            self.set_slot(op[1], self.copy_tree(op[1], self.at(op[1]), {}))
        elif kind == 'sam':
            self.set_slot(op[1], self.at(op[1]))
        elif kind == 'eqs':
            self.set_slot(op[1], self.copy_as(op[1], self.at(op[2])))
        elif kind == 'rdk':
            self.set_slot(op[1], self.copy_tree(op[1], self.at(op[1]), {self.cfg.leaves[op[2]]: self.fresh}))
        elif kind == 'det':
            self.set_slot(op[1], None)
        elif kind == 'rat':
            self.set_slot(op[1], self.last_detached(op[1]))
        elif kind == 'lsa':
            owner, p = self.cfg.leaves[op[1]]
            o = self.at(owner)
            if o == 'top':
                self.top[p] = self.fresh
            else:
                self.objs[o]['vals'][p] = self.fresh
            self.instrs.append(('set', o, p, ('val', self.fresh)))
        elif kind == 'lsd':
            owner, p = self.cfg.leaves[op[1]]
            o = self.last_detached(owner)
            self.objs[o]['vals'][p] = self.fresh
            self.instrs.append(('set', o, p, ('val', self.fresh)))
            on_detached = True
        elif kind == 'rdd':
            par = '.'.join(op[1].split('.')[:-1])
            o = self.last_detached(par)
            attr = op[1].split('.')[-1]
            new = self.new_obj(op[1], {'x': self.fresh, 'y': self.fresh}, {})
            self.objs[o]['sub'][attr] = new
            self.instrs.append(('set', o, attr, ('obj', new)))
            on_detached = True
        after = self.reachable()
        for idx in sorted(before - after):
            self.detached.append(idx)
        # objects created by rdd under a detached parent are detached from birth
        if kind == 'rdd':
            self.detached.append(len(self.objs) - 1)
        self.detached = [idx for idx in self.detached if idx not in after]
        return on_detached


def render(instr):
    k = instr[0]
    if k == 'top':
        return 't = T(%s)' % ', '.join('%s=n%d' % (s, i) for s, i in sorted(instr[1].items()))
    if k == 'new':
        _, idx, cls, vals, sub = instr
        args = ["name='n'"] + ['%s=%d' % (p, v) for p, v in sorted(vals.items()) if v != 0]
        args += ['%s=n%d' % (a, j) for a, j in sorted(sub.items()) if j is not None]
        return 'n%d = %s(%s)' % (idx, cls, ', '.join(args))
    if k == 'set':
        _, tgt, attr, val = instr
        t = 't' if tgt == 'top' else 'n%d' % tgt
        v = ('None' if val[1] is None else 'n%d' % val[1]) if val[0] == 'obj' else repr(val[1])
        return '%s.%s = %s' % (t, attr, v)
    if k == 'batch':
        _, mode, hidx, sets = instr
        h = 't' if hidx == 'top' else 'n%d' % hidx
        if mode == 'upd':
            return '%s.param.update(%s)' % (h, ', '.join(render(x).split('.', 1)[1].replace(' = ', '=') for x in sets))
        return '\n'.join(['with param.parameterized.batch_call_watchers(%s):' % h] + ['    ' + render(x) for x in sets])
    raise ValueError(instr)


def setval(val, env):
    return (None if val[1] is None else env[val[1]]) if val[0] == 'obj' else val[1]


def execute(instr, env, ns):
    k = instr[0]
    if k == 'batch':
        _, mode, hidx, sets = instr
        if mode == 'upd':
            env[hidx].param.update(**{x[2]: setval(x[3], env) for x in sets})
        else:
            with ns['param'].parameterized.batch_call_watchers(env[hidx]):
                for x in sets:
                    execute(x, env, ns)
        return
    if k == 'top':
        env['top'] = ns['T'](**{s: env[i] for s, i in instr[1].items()})
    elif k == 'new':
        _, idx, cls, vals, sub = instr
        kw = {p: v for p, v in vals.items() if v != 0}
        kw.update({a: env[j] for a, j in sub.items() if j is not None})
        env[idx] = ns[cls](name='n', **kw)
    else:
        _, tgt, attr, val = instr
        v = (None if val[1] is None else env[val[1]]) if val[0] == 'obj' else val[1]
        setattr(env[tgt], attr, v)


def watcher_count(obj):
    """number of watchers found in the instance's watcher tables (values and slots)"""
    n = 0
    for d in obj._param__private.watchers.values():
        for lst in d.values():
            n += len(lst)
    for p in obj._param__private.params.values():
        for lst in p.watchers.values():
            n += len(lst)
    return n


def expectation(specs, op, before, after, on_detached, fault=False):
    """(lo, hi) calls for one operation -- see the module docstring.  A dependency whose path is
    unresolved before or after the operation carries no claim when the operation assigns a slot on
    that path (the statement speaks about paths 'resolving both before and after').  fault: an
    object lacking the depended-on parameter is attached before or after the operation."""
    if on_detached:
        return (0, 0)
    if fault:
        return (0, 1)
    if value_changed(before, after):
        return (1, 1)
    if uncertain(specs, op, before, after):
        return (0, 1)
    return (0, 0)


def value_changed(before, after):
    return any(b != UNRES and a != UNRES and a != b for b, a in zip(before, after))


def uncertain(specs, op, before, after):
    """the operation assigns a slot on the path of a dependency that does not resolve before or after it"""
    touched = op[1] if op[0] in SLOT_OPS else None
    if touched is not None:
        for s, b, a in zip(specs, before, after):
            if (b == UNRES or a == UNRES) and (s + '.').startswith(touched + '.'):
                return True
    return False


def batch_expectation(specs, info, before, after):
    """(lo, hi) calls for one batch on an object H.  Items assigning a parameter of H itself are
    batched: together they may cause at most ONE call (one per run of batched items when an ordinary,
    value-changing assignment sits between them); an item that assigns a parameter of another
    object (a leaf of a sub-object, a slot of an object that the batch itself just attached) is an
    ordinary assignment of its own: at most one call each.  At least one call is demanded only when
    the values reached before and after the WHOLE batch differ (resolving both times) and no item
    passed through an unresolved path."""
    nb = ni = 0
    unc = False
    in_run = False
    for it, b, a, batched in info:
        u = uncertain(specs, it, b, a)
        unc = unc or u
        if value_changed(b, a) or u:
            if batched:
                # lenient: an ordinary assignment that calls the method in the middle of the batch splits the
                # batched items into those before and those after it (the statement does not say how a batch
                # coalesces around a call made while it is open): at most one call per such run
                if not in_run:
                    nb += 1
                in_run = True
            else:
                ni += 1
                in_run = False
    if ni and not nb and any(batched and it[0] != 'lsa' for it, _b, _a, batched in info):
        nb = 1      # lenient: the batched replacements are compared at the flush, i.e. after the
        #             ordinary assignments made on the replaced objects inside the batch
    lo = 1 if (value_changed(before, after) and not unc) else 0
    return lo, max(lo, nb + ni)


def batch_shape(info):
    """witness class of a batch, by what is assigned while it is open: 'direct+slot' a depended-on
    parameter of the batched object itself and a sub-object slot; 'repeat' one slot assigned more than
    once; 'slots' several different slots; 'slot' / 'direct' one slot / only parameters of the batched
    object; '-' nothing."""
    slots = [it[1] for it, _b, _a, _batched in info if it[0] != 'lsa']
    direct = any(batched and it[0] == 'lsa' for it, _b, _a, batched in info)
    if direct and slots:
        return 'direct+slot'
    if len(slots) > len(set(slots)):
        return 'repeat'
    if len(slots) > 1:
        return 'slots'
    return 'slot' if slots else ('direct' if direct else '-')


# ------------------------------------------------------------------------------------------
_NS = {}


def namespace(specs):
    ns = _NS.get(specs)
    if ns is None:
        warnings.simplefilter('ignore')
        ns = {}
        exec(compile(CLASSES_SRC % ', '.join(repr(s) for s in specs), '<c07 classes>', 'exec'), ns)
        ns['param'].parameterized.get_logger().setLevel(logging.CRITICAL)
        _NS[specs] = ns
    return ns


def run_history(specs, init, hist):
    """returns (nsteps checked, list of violation dicts)"""
    cfg = Cfg(specs)
    ns = namespace(specs)
    LOG = ns['LOG']
    m = Model(cfg, init)
    env = {}
    done = 0
    for ins in m.instrs:
        execute(ins, env, ns)
    done = len(m.instrs)
    viols = []
    raised = []
    shapes = []              # witness classes of the batches performed so far
    nfaultraise = 0
    steps = 0
    for i, op in enumerate(hist):
        before = m.reached()
        fault = m.faulty()
        on_det = m.apply(op)
        after = m.reached()
        fault = fault or m.faulty()
        new = m.instrs[done:]
        done = len(m.instrs)
        for ins in new[:-1]:
            execute(ins, env, ns)
        del LOG[:]
        ns['ARM'][0] = op[0] == 'arm'
        try:
            execute(new[-1], env, ns)
        except Exception as e:          # the real setter raised: recorded, the history goes on
            raised.append((i, type(e).__name__))
            if fault:
                nfaultraise += 1
        finally:
            ns['ARM'][0] = False
        got = len(LOG)
        if op[0] == 'bat':
            lo, hi = batch_expectation(specs, m.last_batch, before, after)
            shapes.append(batch_shape(m.last_batch))
        else:
            lo, hi = expectation(specs, op[1] if op[0] == 'arm' else op, before, after, on_det, fault)
        steps += 1
        if not (lo <= got <= hi):
            if on_det:
                kind, clause = 'detached-fired', 'C07/never because of a detached object'
            elif got < lo:
                kind, clause = 'missed', 'C07/fires exactly once iff reached value changes'
            elif hi == 0:
                kind, clause = 'spurious', 'C07/fires exactly once iff reached value changes'
            else:
                kind, clause = 'multiple', 'C07/fires exactly once iff reached value changes'
            viols.append(dict(specs=specs, init=init, hist=tuple(hist[:i + 1]), kind=kind, clause=clause,
                              got=got, lo=lo, hi=hi, before=before, after=after, raised=tuple(raised),
                              fault=fault, shapes=tuple(shapes)))
        reach = m.reachable()
        leaks = [(idx, watcher_count(env[idx])) for idx in range(len(m.objs)) if idx not in reach]
        leaks = [(idx, n) for idx, n in leaks if n]
        if leaks:
            viols.append(dict(specs=specs, init=init, hist=tuple(hist[:i + 1]), kind='leak',
                              clause='C07/detached objects keep no watcher', got=leaks[0][1], lo=0, hi=0,
                              leak_role=m.objs[leaks[0][0]]['role'], leak_idx=leaks[0][0],
                              before=before, after=after, raised=tuple(raised), fault=fault,
                              shapes=tuple(shapes)))
    return steps, viols, raised, nfaultraise


def histories(cfg, init, k, start=()):
    """all applicable histories of length exactly k extending `start` (applicability judged on
    the shadow model); a history that cannot be extended is kept as it is"""
    out = []

    def rec(prefix):
        if len(prefix) == k:
            out.append(tuple(prefix))
            return
        m = Model(cfg, init)
        for op in prefix:
            m.apply(op)
        any_ = False
        for op in cfg.ops:
            if m.applicable(op):
                any_ = True
                rec(prefix + [op])
        if not any_:
            out.append(tuple(prefix))
    rec(list(start))
    return out


def fills(cfg, init):
    """every order of attaching the missing levels (att: a complete sub-tree built bottom-up and
    attached in one step; atd: only the upper n levels, the rest attached afterwards, top-down)
    that leads from the initial state to a completely attached configuration"""
    out = []

    def rec(prefix):
        m = Model(cfg, init)
        for op in prefix:
            m.apply(op)
        ops = [op for op in cfg.ops if op[0] in ('att', 'atd') and m.applicable(op)]
        if not ops:
            out.append(tuple(prefix))
            return
        for op in ops:
            rec(prefix + [op])
    rec([])
    return out


# ------------------------------------------------------------------------------------------
# additional families: the dependent method raises (arm) / replacements inside one batch (bat)
# ------------------------------------------------------------------------------------------
def model_after(cfg, init, hist, items=()):
    m = Model(cfg, init)
    for op in hist:
        m.apply(op)
    for it in items:
        m.apply1(it)
    return m


def cont_ops(cfg):
    """single operations used before / after an armed operation or a batch (no injected faulty object)"""
    return [op for op in cfg.ops if op[0] != 'bad'] + [('sam', s) for s in cfg.slots]


def armed_histories(cfg, init='full'):
    """(short, long): histories  arm:a ; c1  /  arm:a ; c1 ; c2  and  p ; arm:a ; c1  over every
    operation a that must call the method (rdk of every slot and leaf, lsa of every leaf) and all
    applicable single operations p, c1, c2.  While a is performed the dependent method raises (after
    it has logged the call); the exception comes out of the assignment and is caught."""
    short, long_ = [], []
    C = cont_ops(cfg)

    def armable(m):
        return [('arm', op) for op in cfg.ops if op[0] in ('rdk', 'lsa') and m.applicable(op)]

    def conts(h):
        m = model_after(cfg, init, h)
        return [op for op in C if m.applicable(op)]
    for a in armable(model_after(cfg, init, ())):
        for c1 in conts((a,)):
            short.append((a, c1))
            for c2 in conts((a, c1)):
                long_.append((a, c1, c2))
    for p in conts(()):
        for a in armable(model_after(cfg, init, (p,))):
            for c1 in conts((p, a)):
                long_.append((p, a, c1))
    return short, long_


def batch_ops(cfg, init, hist, maxlen):
    """every batch applicable after `hist`: on the top object and on every attached intermediate
    object H; mode 'upd': 1..2 items assigning DIFFERENT parameters of H (both orders); mode 'ctx':
    sequences of 1..maxlen single operations (sam/req/rdk/det/att/rat of every slot, lsa of every
    leaf; the same slot may be assigned several times) of which at least one assigns a parameter of
    H.  Returns a list of (number of items, op)."""
    items_all = [op for op in cfg.ops if op[0] in ('req', 'rdk', 'det', 'att', 'rat', 'lsa')] + \
        [('sam', s) for s in cfg.slots]
    m0 = model_after(cfg, init, hist)
    out = []
    for H in [''] + [s for s in cfg.slots if cfg.slot_cls[s] == 'M' and m0.at(s) is not None]:
        hidx = m0.at(H)

        def rec(items, nbatched, attrs):
            m = model_after(cfg, init, hist, items)
            for it in items_all:
                if not m.applicable(it):
                    continue
                own = m.holder_of(it) == hidx
                attr = it[1].split('.')[-1] if it[0] != 'lsa' else cfg.leaves[it[1]][1]
                seq = items + (it,)
                if nbatched + own:
                    out.append((len(seq), ('bat', 'ctx', H, seq)))
                if own and nbatched == len(items) and attr not in attrs and len(seq) <= 2:
                    out.append((len(seq), ('bat', 'upd', H, seq)))
                if len(seq) < maxlen:
                    rec(seq, nbatched + own, attrs + (attr,) if own else attrs)
        rec((), 0, ())
    return out


def batch_histories(cfg, tier, init='full'):
    """(short, long): short = batch of <= 2 items ; probing operation.  long = batch of <= 2 items ;
    any other applicable single operation / batch of 3 items ; probing operation / p ; batch of <= 2
    items ; probing operation (p: every applicable single operation).
    Probing operations: lsa / lsd of every leaf (does the attached object drive the method, is the
    detached one silent) -- the watcher tables are inspected after every step anyway."""
    short, long_ = [], []
    C = cont_ops(cfg)

    def conts(h, probing=False):
        m = model_after(cfg, init, h)
        return [op for op in C if m.applicable(op) and (not probing or op[0] in ('lsa', 'lsd'))]
    for n, b in batch_ops(cfg, init, (), 3):
        cs = conts((b,), probing=(n == 3))
        for c1 in cs:
            (short if n <= 2 and c1[0] in ('lsa', 'lsd') else long_).append((b, c1))
        if not cs:
            (short if n <= 2 else long_).append((b,))
    for p in conts(()):
        if p[0] in ('lsa', 'lsd', 'sam'):
            continue
        for n, b in batch_ops(cfg, init, (p,), 2):
            cs = conts((p, b), probing=True)
            for c1 in cs:
                long_.append((p, b, c1))
            if not cs:
                long_.append((p, b))
    return short, long_


# ('a.b.param' is left out of the batch family: every replacement of a fires it, known finding C07-b04)
BATCH_ALL = [c for c in CONFIGS if c != ('a.b.param',) and
             (c not in NEW_CONFIGS or c in (('a.y', 'a.b.x'), ('a.b.x', 'a.y'), ('a.y', 'a.b.x', 'a.b.y'),
                                            ('a.y', 'a.b.x', 'a.b.c.x')))]
BATCH_QUICK = [('a.x',), ('a.x', 'c.x'), ('a.x', 'z'), ('a.b.x',), ('a.b.x', 'a.c.x'), ('a.b.x', 'a.x')]


def family_chunk(args):
    """worker: enumerates the armed / batch histories of one configuration"""
    which, specs, tier, seed = args
    cfg = Cfg(specs)
    if which == 'arm':
        short, long_ = armed_histories(cfg)
    else:
        short, long_ = batch_histories(cfg, tier)
    return which, specs, short, long_


def run_chunk(tasks):
    """tasks: (specs, init, prefix, k) -- expands the prefix to all histories of length k and runs them"""
    res = []
    for specs, init, prefix, k in tasks:
        cfg = Cfg(specs)
        for h in ([prefix] if k is None else histories(cfg, init, k, prefix)):
            steps, viols, raised, nfr = run_history(specs, init, h)
            res.append((specs, init, h, steps, viols, raised, nfr))
    return res


# ------------------------------------------------------------------------------------------
def replay_of(v, clause, witness):
    cfg = Cfg(v['specs'])
    m = Model(cfg, v['init'])
    src = REPLAY_HEADER.format(prop='C07', name='replay_c07.py', clause=clause, witness=witness)
    src += CLASSES_SRC % ', '.join(repr(s) for s in v['specs'])
    src += '''def watcher_count(obj):
    n = 0
    for d in obj._param__private.watchers.values():
        for lst in d.values():
            n += len(lst)
    for p in obj._param__private.params.values():
        for lst in p.watchers.values():
            n += len(lst)
    return n
'''
    done = 0
    for i, op in enumerate(v['hist']):
        m.apply(op)
        new = m.instrs[done:]
        done = len(m.instrs)
        src += '# %s%s\n' % ('initial state; ' if i == 0 else '', op_str(op))
        for ins in new[:-1]:
            src += render(ins) + '\n'
        if i == len(v['hist']) - 1:
            src += 'del LOG[:]\n'
        if op[0] == 'arm':
            src += 'ARM[0] = True        # the dependent method raises when it is called now\n'
        src += 'try:\n' + '\n'.join('    ' + ln for ln in render(new[-1]).split('\n'))
        src += '\nexcept Exception as e:\n    print("this assignment raised", repr(e))\n'
        if op[0] == 'arm':
            src += 'ARM[0] = False\n'
    if v['kind'] == 'leak':
        src += "n = watcher_count(n%d)\n" % v['leak_idx']
        src += "print('watchers left on the detached object n%d:', n)\n" % v['leak_idx']
        src += "if n:\n    print('REPRODUCED: detached object (role %s) keeps %%d watcher(s)' %% n)\n    sys.exit(1)\n" % v['leak_role']
    else:
        src += "n = len(LOG)\nprint('calls of T.m in the last step:', n)\n"
        src += "if not (%d <= n <= %d):\n" % (v['lo'], v['hi'])
        msg = 'REPRODUCED: T.m called %%d times, expected %s (values reached before %r, after %r)' % (
            ('%d' % v['lo']) if v['lo'] == v['hi'] else '%d..%d' % (v['lo'], v['hi']), v['before'], v['after'])
        src += "    print(%r %% n)\n" % msg
        src += "    sys.exit(1)\n"
    src += "print('NOT-REPRODUCED')\n"
    return src


MAX_PER_CLAUSE = 24
CONFIRM = True      # scratch mutation harnesses (in-memory patches) switch the confirmation off


def confirm(src):
    if not CONFIRM:
        return True
    repo = os.environ.get('PYVC_REPO', '/repo')
    if repo != '/repo':     # checking a scratch copy of the library: confirm against that copy
        src = src.replace("sys.path.insert(0, '/repo')", "sys.path.insert(0, %r)" % repo)
    with tempfile.NamedTemporaryFile('w', suffix='.py', delete=False) as f:
        f.write(src)
        path = f.name
    try:
        env = dict(os.environ, PYTHONPATH=os.environ.get('PYVC_REPO', '/repo'))
        r = subprocess.run([sys.executable, path], env=env, capture_output=True, text=True, timeout=120)
        return r.returncode == 1 and 'REPRODUCED:' in r.stdout
    except Exception:
        return False
    finally:
        os.unlink(path)


def _run(tier, seed):
    k = {'quick': 3, 'thorough': 4}[tier]
    kx = k - 1          # operations after a completed fill (depth-3 configurations)
    B = Bounded(
        "C07",
        rule=("%d dependency sets (depth 1-3, one or two leaves under the same or different sub-objects, "
              "'a.param', 'a.b.param', a direct parameter next to a path) x initial state {all slots "
              "attached, all empty, a hole (None) at any one level below the first} x ALL applicable "
              "histories of the operations att/atd (complete / upper-levels-only sub-tree into an empty "
              "slot)/req/rdk/det/rat (every slot, every leaf), lsa/lsd (every leaf), rdd, bad (FAULT: an "
              "object lacking the depended-on parameter is attached, the assignment raises); depth-3 "
              "sets additionally: every order of filling the missing levels top-down / bottom-up / mixed "
              "from every initial state, followed by all histories; after every step: number of calls vs "
              "the shadow model of the values reached through the current paths, and watcher tables of all "
              "objects no longer reachable. Additional families from the full state: (arm) an operation that "
              "must call the method is performed while the method itself raises (exception caught), preceded / "
              "followed by all single operations; (bat) 1..3 operations (incl. re-assigning the SAME object, the "
              "same slot several times) inside ONE batch -- H.param.update(...) or `with batch_call_watchers(H)` "
              "on the top object or an attached intermediate object H -- followed / preceded by single "
              "operations: one call per batch iff the reached values differ over the batch. "
              "Family multi (bounded/c07_multi.py): 1-3 dependent methods whose paths (depth 1-3) share prefixes x "
              "sub-object classes with identity / VALUE equality (__eq__/__hash__; siblings equal-valued when the "
              "dependencies are bound, eqs: a slot replaced by an object equal to the one at another slot) x "
              "replacement at every level with nested values equal / different: calls of EVERY method vs the values "
              "reached through its own paths; with several methods additionally arm[mj]:a ; c1 -- EVERY method j in turn "
              "raises during an operation that must call it, all methods and all watcher tables are checked AFTER the "
              "failure; family mro: a plain non-Parameterized mixin re-declares the watching method with a dependency "
              "through another sub-object, class T combines it with the Parameterized declaration in 7 MRO positions, "
              "oracle = dependencies of the definition attribute lookup finds (mirror of plain classes). "
              "A case = (dependency set, initial state, history of maximal "
              "length); all shorter histories are its prefixes and are checked step by step"
              % len(CONFIGS)),
        bound=("histories of length <= %d (depth-3 sets: fill sequence of <= 3 attachments + %d further "
               "operations); path depth <= 3; <= 3 dependency leaves (4 for 'param'); <= 1 faulty object "
               "per slot at a time; armed / batch families: <= 3 steps, batches of <= 3 items (update: <= 2); "
               "the 7 sets mixing a leaf with a deeper path through the same sub-object: %s"
               % (k, kx, "length <= 2 complete + a seeded 1/4 (two dependencies) resp. 1/8 (three) of length 3 from "
                         "the full state" if tier == 'quick' else
                         "two dependencies as all others, three dependencies length <= %d" % (k - 1))))
    warnings.simplefilter('ignore')
    tasks = []
    nfill = 0
    for specs in CONFIGS:
        cfg = Cfg(specs)
        for init in cfg.inits:
            for j, h in enumerate(histories(cfg, init, min(2, k))):
                stride = SAMPLED_QUICK.get(specs) if tier == 'quick' else None
                if stride and (init != 'full' or (j + seed) % stride):
                    B.exhaustive = False
                    tasks.append((specs, init, h, None))      # the prefix itself only
                    continue
                tasks.append((specs, init, h, k - 1 if (tier != 'quick' and specs in SHORTER) else k))
            if cfg.depth >= 3:
                short = 1 if (tier != 'quick' and specs in SHORTER) else 0
                for fill in fills(cfg, init):
                    if len(fill) + kx <= k:
                        continue        # contained in the histories of length k above
                    nfill += 1
                    if len(fill) + 1 > len(fill) + kx - short:
                        continue
                    for j, h in enumerate(histories(cfg, init, len(fill) + 1, fill)):
                        if tier == 'quick' and specs in SAMPLED_QUICK and (j + seed) % SAMPLED_QUICK[specs]:
                            continue
                        tasks.append((specs, init, h, len(fill) + kx - short))
    nchunk = 256
    allv = []
    raisers = {}
    samples = []
    nfaultraise = 0
    nboom = 0
    with ProcessPoolExecutor(max_workers=min(16, os.cpu_count() or 4)) as ex:
        # ---- additional families (explicit histories, enumerated in the workers):
        #      the dependent method raises / replacements inside one batch
        fam = [('arm', specs, tier, seed) for specs in (CONFIGS if tier == 'thorough' else ARM_QUICK)]
        fam += [('bat', specs, tier, seed) for specs in (BATCH_ALL if tier == 'thorough' else BATCH_QUICK)]
        nfam = {'arm': [0, 0], 'bat': [0, 0]}
        for which, specs, short, long_ in ex.map(family_chunk, fam):
            if tier != 'thorough':
                B.exhaustive = False
                stride = {'arm': 12, 'bat': 32}[which]
                long_ = long_[seed % stride::stride]
            nfam[which][0] += len(short)
            nfam[which][1] += len(long_)
            for h in short + long_:
                tasks.append((specs, 'full', h, None))
        B.note('additional families: method raises (arm): %d histories of 2 + %d of 3 operations; batches (bat): '
               '%d histories batch;probe + %d others%s' % (
                   nfam['arm'][0], nfam['arm'][1], nfam['bat'][0], nfam['bat'][1],
                   '' if tier == 'thorough' else ' (the longer ones are a seeded 1/12 resp. 1/32 slice; batches on '
                   '%d of the %d dependency sets)' % (len(BATCH_QUICK), len(BATCH_ALL))))
        chunks = [tasks[i::nchunk] for i in range(nchunk)]
        futs = [ex.submit(run_chunk, c) for c in chunks if c]
        # ---- family "multi" (bounded/c07_multi.py): several methods sharing path prefixes, depth 1-3 replaced at
        #      every level, sub-object classes with value equality
        from bounded import c07_multi
        mchunks, mtext = c07_multi.plan('C07', tier, seed)
        fut_m = [ex.submit(c07_multi.run_chunk, c) for c in mchunks]
        B.note(mtext)
        for fu in futs:
            for specs, init, h, steps, viols, raised, nfr in fu.result():
                B.case(key='deps=%s init=%s hist=%s' % ('+'.join(specs), init, ';'.join(op_str(o) for o in h)))
                B.checked('C07/fires exactly once iff reached value changes', steps)
                B.checked('C07/never because of a detached object',
                          sum(1 for o in h[:steps] if o[0] in ('lsd', 'rdd')))
                B.checked('C07/detached objects keep no watcher', steps)
                if B.evaluations % 9973 == 1:
                    samples.append((specs, init, h))
                nfaultraise += nfr
                for i, exc in raised:
                    if exc == 'Boom':
                        nboom += 1      # the armed dependent method raised, as intended
                        continue
                    if any(o[0] == 'bad' for o in h[:i + 1]):
                        continue        # raised by / after an injected fault: summarised in one note
                    rk = (specs, op_str(h[i]), exc)
                    if rk not in raisers or len(h[:i + 1]) < len(raisers[rk][1]):
                        raisers[rk] = (init, h[:i + 1])
                allv += viols
        multi_results = [fu.result() for fu in fut_m]
    # ---- one representative (shortest history) per class of failing step:
    #      (clause, dependency set, kind, class of the failing operation, indices of the dependencies
    #      whose reached value changed in that step); everything after a raising assignment is one class
    #      -- unless the very same failing step also fails in a history without any raise or fault
    #      (then these are irrelevant and the case is counted there).  Failures at / after an INJECTED
    #      fault (bad) are one class per (clause, kind, level of the faulty object, fault still present /
    #      cleared), over all dependency sets.
    def vclass(v):
        """(class key, fallback key or None)"""
        op = v['hist'][-1]
        changed = tuple(i for i, (b, a) in enumerate(zip(v['before'], v['after'])) if b != a)
        if op[0] in ('req', 'rdk', 'rat', 'att', 'det', 'atd', 'sam'):
            oc = 'assign(%s)' % op[1]
        else:
            oc = op_str(op)
        normal = (v['clause'], v['specs'], v['kind'], oc, changed)
        bops = [o for o in v['hist'] if o[0] == 'bad']
        if bops:
            return normal, (v['clause'], None, v['kind'], 'fault@%d:%s' % (
                bops[0][1].count('.') + 1, 'present' if v.get('fault') else 'cleared'))
        arms = [o[1] for o in v['hist'] if o[0] == 'arm']
        if arms:
            # the dependent method raised: one class per (clause, kind, armed operation kind, level of
            # the assigned object, failing AT the raising step / AFTER it), over all dependency sets
            a = arms[0]
            lvl = (a[1] if a[0] == 'rdk' else Cfg(v['specs']).leaves[a[1]][0]).count('.') + 1
            if a[0] == 'lsa' and not Cfg(v['specs']).leaves[a[1]][0]:
                lvl = 0
            return normal, (v['clause'], None, v['kind'], 'mraise:%s@%d:%s' % (
                a[0], lvl, 'at' if op[0] == 'arm' else 'after'))
        if v.get('shapes'):
            # a batch: one class per (clause, kind, kinds of items batched), over all dependency sets
            return normal, (v['clause'], None, v['kind'], '%s:%s' % (
                'batch' if op[0] == 'bat' else 'afterbatch', v['shapes'][-1]))
        if v['raised'] and v['raised'][0][0] < len(v['hist']) - 1:
            i, exc = v['raised'][0]
            return normal, (v['clause'], v['specs'], v['kind'], 'after ' + op_str(v['hist'][i]) + '!' + exc)
        return normal, None
    groups = {}
    later = []
    for v in allv:
        key, fallback = vclass(v)
        if fallback is None:
            groups.setdefault(key, []).append(v)
        else:
            later.append((key, fallback, v))
    pure = set(groups)
    for key, fallback, v in later:
        groups.setdefault(key if key in pure else fallback, []).append(v)
    reports = []
    for key in groups:
        rep = min(groups[key], key=lambda v: (bool(v['raised']), len(v['hist']),
                                              sum(len(o[3]) for o in v['hist'] if o[0] == 'bat'),
                                              v['lo'] != v['hi'], CONFIGS.index(v['specs']),
                                              v['init'] != 'full',
                                              [op_order(Cfg(v['specs']), o) for o in v['hist']]))
        witness = 'deps=%s init=%s hist=%s kind=%s changed=%s got=%d want=%s' % (
            '+'.join(rep['specs']), rep['init'], hist_str(rep['hist'], rep['raised']), rep['kind'],
            ','.join(str(i) for i, (b, a) in enumerate(zip(rep['before'], rep['after'])) if b != a) or '-',
            rep['got'], ('%d' % rep['lo']) if rep['lo'] == rep['hi'] else '%d..%d' % (rep['lo'], rep['hi']))
        if key[1] is None:
            witness += ' class=' + key[3]       # at / after an injected fault: one class over all dependency sets
        detail = 'values reached before %r after %r; %d failing histories in this class' % (
            rep['before'], rep['after'], len(groups[key]))
        reports.append((rep['clause'], witness, replay_of(rep, rep['clause'], witness), len(groups[key]), detail,
                        (len(rep['hist']), CONFIGS.index(rep['specs']))))
    reports.sort(key=lambda r: (r[0], r[5], r[1]))
    per_clause = {}
    kept = []
    for r in reports:
        per_clause[r[0]] = per_clause.get(r[0], 0) + 1
        if per_clause[r[0]] <= MAX_PER_CLAUSE:
            kept.append(r)
    kept += [r + (None,) for r in c07_multi.collect(B, 'C07', multi_results)]
    with ProcessPoolExecutor(max_workers=8) as ex:
        oks = list(ex.map(confirm, [r[2] for r in kept]))
    for (clause, witness, replay, n, detail, _s), ok in zip(kept, oks):
        if not ok:
            B.note('UNCONFIRMED (stand-alone replay did not reproduce, not reported): %s | %s' % (clause, witness))
            continue
        B.violation(clause, witness, detail=detail, replay=replay)
        B.violations[-1]['count'] = n
    for clause, n in sorted(per_clause.items()):
        if n > MAX_PER_CLAUSE:
            B.note('%s: %d further witness classes suppressed (cap %d per clause)' % (clause, n - MAX_PER_CLAUSE, MAX_PER_CLAUSE))
    if nboom:
        B.note('%d assignments raised Boom: the armed dependent method raised during the call, as intended '
               '(arm:...); the caller caught it and the histories continued' % nboom)
    if nfaultraise:
        B.note('%d assignments raised while an injected faulty object (bad) was attached (expected: the '
               'dependency cannot be resolved); the histories continued' % nfaultraise)
    for (specs, ops, exc), (init, h) in sorted(raisers.items()):
        B.note('assignment raised %s (recorded, history continued; reported only through later miscounts): '
               'deps=%s op=%s shortest: init=%s hist=%s' % (exc, '+'.join(specs), ops, init, hist_str(h)))
    for t in samples[:5]:
        B.sample({'deps': list(t[0]), 'init': t[1], 'history': [op_str(o) for o in t[2]]})
    return B.result()


def run(tier, seed):
    """entry point; leaves the warnings filters and param's logger level as it found them"""
    import param
    logger = param.parameterized.get_logger()
    level = logger.level
    with warnings.catch_warnings():
        warnings.simplefilter('ignore')
        try:
            return _run(tier, seed)
        finally:
            logger.setLevel(level)
