"""Family "multi" of the bounded layers of C07 and C06 (shared): SEVERAL dependent methods whose
sub-object paths share prefixes, paths of depth 1..3 replaced at EVERY level, and sub-object classes
with VALUE equality.

Built on the shadow model of bounded/c07.py (Model / Cfg / expectation: the oracle is computed from
the property statement on a plain-Python shadow of the object tree, never from param).

Classes (generated source; real metaclass / constructor / setter / dispatcher of the library):

    class L(param.Parameterized):  x, y                        (leaves)
    class M(param.Parameterized):  x, y, b, c                  (intermediate objects; b, c sub-object slots)
    class T(param.Parameterized):  a, c, z
        @param.depends(<deps of method 0>, watch=True)  def m0(self): LOG.append('m0')
        @param.depends(<deps of method 1>, watch=True)  def m1(self): LOG.append('m1')     ...

    eq = 'id' : default identity equality;
    eq = 'val': L and M define __eq__ (same type and ALL parameter values equal, sub-objects compared
                recursively) and a compatible __hash__ -- two distinct attached objects may compare equal.

Configurations: for every depth d in 1..3 a pool of four (depth 1: three) dependency paths sharing
prefixes (d=2: 'a.b.x', 'a.b.y', 'a.c.x', 'a.x'; d=3: 'a.b.c.x', 'a.b.c.y', 'a.b.b.x', 'a.b.x'); a
dependency set = one path or two paths of the pool (thorough: both declaration orders); a
configuration = ONE method, every ordered PAIR of methods (equal sets included: two methods with the
same dependencies) or three methods with one path each.

Operations (bounded/c07.py): req / rdk / det / att / rat of EVERY slot (root, intermediate, innermost;
rdk: a copy that differs in exactly one dependency leaf, for every leaf below the slot -> nested values
equal / different), lsa / lsd of every leaf, rdd, and additionally

    eqs(slot, other)   replace the object at `slot` by a fresh object whose values EQUAL those of the object
                       attached at `other` (a slot of the same shape): the two attached objects are
                       equal-valued at the moment the dependencies are re-bound.  (In the initial state
                       all leaves are 0: siblings are equal-valued when the dependencies are first bound.)

Raising methods (C07; configurations with SEVERAL methods): histories  arm[mj]:a ; c1  (thorough also  p ; arm[mj]:a ;
c1): a = an operation that must call method j (rdk of a slot above one of its leaves, at every level; lsa of one of
its leaves) performed while method j RAISES after logging the call -- for EVERY j, i.e. the first-defined, a middle
and the last-defined method -- the exception leaves the assignment and is caught.  Oracle: in the raising step
method j as usual, every other method "not more often than normally" (its call may be lost with the exception);
EVERY LATER step exactly as usual for EVERY method (the methods follow the object now attached, never a detached
one), and the watcher tables of detached objects are inspected after the raising step and after every later one.
Clauses 'C07/several methods, one of them raises: ...'.

Class hierarchies (C07; family "mro", eq field 'mro|<shape>|<PB>|<PM>'): class Base(param.Parameterized) carries the
parameters and declares m0 and m1, both depending on the path PB; a plain NON-Parameterized class Mix re-declares m0
depending on ANOTHER path PM (another root, another sub-object below the same root, another depth, another leaf);
the instantiated class T combines them in every MRO position (MRO_SHAPES: mixin before / after the Parameterized
class, behind a further plain class, inherited through an intermediate Parameterized class, in front of an
intermediate Parameterized class, through a plain subclass of the mixin).  The dependencies of T.m0 are those of the
definition attribute lookup finds on T -- computed on a MIRROR hierarchy of plain Python classes (the language's
MRO, nothing of param); m1 keeps PB.  Operations over the slots and leaves of BOTH paths; per-method oracle as
above.  Clauses 'C07/class hierarchy with plain mixins re-declaring the method: ...'.

C06 additionally performs every single operation in the forms of the statement ("assignment, update or
batch"): plain assignment, H.param.update(...), `with batch_call_watchers(H)` on the object H that owns the
assigned parameter, and `with batch_call_watchers(top)` around an assignment on a lower object.

Oracle, PER METHOD (bounded/c07.py `expectation` / `batch_expectation` on the method's own paths):
    operation on a detached object -> 0 calls;  some path of the method resolves before and after and the
    value reached differs -> exactly 1 call;  a slot on a path of the method that is unresolved before or
    after is assigned -> 0..1;  otherwise 0 calls.
C07 additionally: after every operation no object that is no longer reachable keeps a watcher.
"""
import itertools
import logging
import warnings

from bounded._api import REPLAY_HEADER
from bounded import c07 as base

POOLS = {1: ('a.x', 'a.y', 'c.x'),
         2: ('a.b.x', 'a.b.y', 'a.c.x', 'a.x'),
         3: ('a.b.c.x', 'a.b.c.y', 'a.b.b.x', 'a.b.x')}
# thorough: two intermediate objects (class M) side by side at the first level
POOL_EXTRA = {2: ('c.b.x',)}

CLAUSES = {
    'C07': {'count': 'C07/several methods, deep paths, value-equal sub-objects: each method fires exactly once iff its reached value changes',
            'detached': 'C07/several methods, deep paths, value-equal sub-objects: never because of a detached object',
            'leak': 'C07/several methods, deep paths, value-equal sub-objects: detached objects keep no watcher'},
    'C06': {'count': 'C06/dispatch/deep sub-object paths, several methods: invocations==deps',
            'detached': 'C06/dispatch/deep sub-object paths, several methods: invocations==deps',
            'leak': None},
}
MRO_CLAUSES = {'count': 'C07/class hierarchy with plain mixins re-declaring the method: the method fires exactly once iff its reached value changes',
               'detached': 'C07/class hierarchy with plain mixins re-declaring the method: never because of a detached object',
               'leak': 'C07/class hierarchy with plain mixins re-declaring the method: detached objects keep no watcher'}
RAISE_CLAUSES = {'count': 'C07/several methods, one of them raises: afterwards each method fires exactly once iff its reached value changes',
                 'detached': 'C07/several methods, one of them raises: afterwards never because of a detached object',
                 'leak': 'C07/several methods, one of them raises: detached objects keep no watcher'}
EVAL_CLAUSE = {'C07': CLAUSES['C07']['count'],
               'C06': 'C06/dispatch/deep sub-object paths, several methods: invocations == [changed & deps != {}]'}

HEADER_SRC = '''import logging, warnings
import param
warnings.simplefilter('ignore')
param.parameterized.get_logger().setLevel(logging.CRITICAL)
LOG = []
ARM = [None]
class Boom(Exception):
    pass
'''
EQ_SRC = '''    def __eq__(self, other):
        return type(other) is type(self) and all(getattr(self, p) == getattr(other, p) for p in %r)
    def __ne__(self, other):
        return not self == other
    def __hash__(self):
        return hash(type(self).__name__)
'''


MRO_POOL = ('a.x', 'c.x', 'a.b.x', 'a.c.x', 'c.b.x', 'a.b.y')
# family "mro": class T is built from a Parameterized class Base carrying the parameters and declaring m0 (depends
# on PB) and m1 (depends on PB), and plain NON-Parameterized mixins re-declaring m0 (depends on PM):
MRO_SHAPES = {
    # name: (source template of the classes below Base; {mix} = the mixin re-declaring m0), all named in MRO order
    'T(Mix,Base)': "{mix}class T(Mix, Base):\n    pass\n",
    'T(Base,Mix)': "{mix}class T(Base, Mix):\n    pass\n",
    'T(Plain,Mix,Base)': "{mix}class Plain:\n    pass\nclass T(Plain, Mix, Base):\n    pass\n",
    'T(Mid);Mid(Mix,Base)': "{mix}class Mid(Mix, Base):\n    pass\nclass T(Mid):\n    pass\n",
    'T(Mix,Mid);Mid(Base)': "{mix}class Mid(Base):\n    pass\nclass T(Mix, Mid):\n    pass\n",
    'T(Mix2,Base);Mix2(Mix)': "{mix}class Mix2(Mix):\n    pass\nclass T(Mix2, Base):\n    pass\n",
    'T(Mid,Mix);Mid(Base)': "{mix}class Mid(Base):\n    pass\nclass T(Mid, Mix):\n    pass\n",
}


def is_mro(eq):
    return eq.startswith('mro|')


def mro_parts(eq):
    _, shape, pb, pm = eq.split('|')
    return shape, pb, pm


def mro_effective(shape, pb, pm):
    """dependencies of the m0 that attribute lookup finds on T: computed on a MIRROR of the hierarchy made of plain
    Python classes (the language's own method resolution order, nothing of param)"""
    ns = {}
    src = "class Base:\n    m0 = %r\n" % (pb,) + MRO_SHAPES[shape].format(mix="class Mix:\n    m0 = %r\n" % (pm,))
    exec(src, ns)
    return ns['T'].m0


def mro_methods(eq):
    shape, pb, pm = mro_parts(eq)
    return ((mro_effective(shape, pb, pm),), (pb,))


def _method_src(j, deps, indent='    '):
    return ("%s@param.depends(%s, watch=True)\n%sdef m%d(self):\n%s    LOG.append('m%d')\n%s    if ARM[0] == %d:\n"
            "%s        raise Boom('m%d raises')\n" % (indent, ', '.join(repr(s) for s in deps), indent, j, indent, j,
                                                      indent, j, indent, j))


def classes_src(methods, eq):
    src = HEADER_SRC
    if is_mro(eq):
        shape, pb, pm = mro_parts(eq)
        src += "class L(param.Parameterized):\n    x = param.Integer(0)\n    y = param.Integer(0)\n"
        src += ("class M(param.Parameterized):\n    x = param.Integer(0)\n    y = param.Integer(0)\n"
                "    b = param.Parameter(None)\n    c = param.Parameter(None)\n")
        src += ("class N(param.Parameterized):\n    z = param.Integer(0)\n"
                "class Base(param.Parameterized):\n    a = param.Parameter(None)\n    c = param.Parameter(None)\n"
                "    z = param.Integer(0)\n")
        src += _method_src(0, (pb,)) + _method_src(1, (pb,))
        src += MRO_SHAPES[shape].format(mix="class Mix:\n" + _method_src(0, (pm,)))
        return src
    src += "class L(param.Parameterized):\n    x = param.Integer(0)\n    y = param.Integer(0)\n"
    if eq == 'val':
        src += EQ_SRC % (('x', 'y'),)
    src += ("class M(param.Parameterized):\n    x = param.Integer(0)\n    y = param.Integer(0)\n"
            "    b = param.Parameter(None)\n    c = param.Parameter(None)\n")
    if eq == 'val':
        src += EQ_SRC % (('x', 'y', 'b', 'c'),)
    src += ("class N(param.Parameterized):\n    z = param.Integer(0)\n"
            "class T(param.Parameterized):\n    a = param.Parameter(None)\n    c = param.Parameter(None)\n"
            "    z = param.Integer(0)\n")
    for j, deps in enumerate(methods):
        src += _method_src(j, deps)
    return src


# ------------------------------------------------------------------------------------------
# configurations
# ------------------------------------------------------------------------------------------
def depsets(depth, tier):
    pool = POOLS[depth] + (POOL_EXTRA.get(depth, ()) if tier == 'thorough' else ())
    out = [(s,) for s in pool]
    for i, j in itertools.combinations(range(len(pool)), 2):
        out.append((pool[i], pool[j]))
        if tier == 'thorough' and pool[j] not in POOL_EXTRA.get(depth, ()):
            out.append((pool[j], pool[i]))
    return out


def configs(tier):
    """list of (depth, methods); methods = tuple of dependency sets"""
    out = []
    for depth in (1, 2, 3):
        for d in depsets(depth, tier):
            out.append((depth, (d,)))
        ds = depsets(depth, 'quick')
        for d0 in ds:
            for d1 in ds:
                out.append((depth, (d0, d1)))
        for tri in itertools.combinations(POOLS[depth], 3):
            out.append((depth, tuple((s,) for s in tri)))
    return out


def mkey(methods):
    return '|'.join('+'.join(d) for d in methods)


def union(methods):
    specs = []
    for d in methods:
        for s in d:
            if s not in specs:
                specs.append(s)
    return tuple(specs)


_CFG = {}


def cfg_for(methods, eq):
    """the configuration (slots, operations) of a history: family mro also carries the path of the SHADOWED declaration"""
    if is_mro(eq):
        shape, pb, pm = mro_parts(eq)
        return cfg_of(methods + ((pb, pm),))
    return cfg_of(methods)


def cfg_of(methods):
    u = union(methods)
    c = _CFG.get(u)
    if c is None:
        c = _CFG[u] = base.Cfg(u)
        c.eqs = eqs_ops(c)
        c.alphabet = [op for op in c.ops if op[0] not in ('atd', 'bad')] + c.eqs
    return c


def eqs_ops(cfg):
    """('eqs', slot, other) for every ordered pair of different slots of the same shape (same class, same
    sub-slots below), neither inside the other"""
    def shape(s):
        return (cfg.slot_cls[s], tuple(sorted(t[len(s):] for t in cfg.slots if t.startswith(s + '.'))))
    out = []
    for s in cfg.slots:
        for o in cfg.slots:
            if s != o and shape(s) == shape(o) and not (s + '.').startswith(o + '.') and not (o + '.').startswith(s + '.'):
                out.append(('eqs', s, o))
    return out


_NS = {}


def namespace(methods, eq):
    ns = _NS.get((methods, eq))
    if ns is None:
        warnings.simplefilter('ignore')
        ns = {}
        exec(compile(classes_src(methods, eq), '<c07 multi classes>', 'exec'), ns)
        ns['param'].parameterized.get_logger().setLevel(logging.CRITICAL)
        if len(_NS) > 64:
            _NS.clear()
        _NS[(methods, eq)] = ns
    return ns


# ------------------------------------------------------------------------------------------
# histories
# ------------------------------------------------------------------------------------------
FORMABLE = ('req', 'rdk', 'det', 'att', 'rat', 'eqs', 'lsa')


def model_after(cfg, init, hist):
    m = base.Model(cfg, init)
    for op in hist:
        m.apply(op)
    return m


def holder_slot(cfg, op):
    if op[0] == 'lsa':
        return cfg.leaves[op[1]][0]
    return '.'.join(op[1].split('.')[:-1])


def forms_of(cfg, op):
    """the operation in every form of the statement: assignment / update / batch on the owner / batch on the top object"""
    out = [op]
    if op[0] in FORMABLE:
        H = holder_slot(cfg, op)
        out += [('bat', 'upd', H, (op,)), ('bat', 'ctx', H, (op,))]
        if H:
            out.append(('bat', 'ctx', '', (op,)))
    return out


def applicable_ops(cfg, m, forms):
    out = []
    for op in cfg.alphabet:
        if m.applicable(op):
            out += forms_of(cfg, op) if forms else [op]
    return out


def enumerate_histories(cfg, init, spec):
    """spec = (k, forms, stride, offset): applicable histories of length <= k from `init` (every prefix of a history
    is checked step by step, so only maximal ones are kept).  ALL histories of length 1 are always included; of
    the longer ones every stride-th (counted from `offset`).
    forms=False (C07): plain operations.
    forms=True (C06):  (f,) for every form f of every single operation;  (p, f) plain operation p followed by an
    operation in every form;  (f, q) an operation in a batched form followed by a plain leaf assignment q (are the
    watchers re-bound inside the batch the right ones)."""
    k, forms, stride, offset = spec
    out = []
    cnt = [offset]

    def take():
        cnt[0] += 1
        return stride <= 1 or cnt[0] % stride == 0
    m0 = model_after(cfg, init, ())
    for p in applicable_ops(cfg, m0, False):
        ext = []
        if k >= 2:
            m1 = model_after(cfg, init, (p,))
            for q in applicable_ops(cfg, m1, forms):
                if not take():
                    continue
                if k >= 3:
                    m2 = model_after(cfg, init, (p, q))
                    ext3 = [(p, q, r) for r in applicable_ops(cfg, m2, False) if take()]
                    ext += ext3 or [(p, q)]
                else:
                    ext.append((p, q))
        out += ext or [(p,)]
        if forms:
            for f in forms_of(cfg, p)[1:]:
                ext = []
                if k >= 2:
                    mf = model_after(cfg, init, (f,))
                    ext = [(f, q) for q in applicable_ops(cfg, mf, False) if q[0] == 'lsa' and take()]
                out += ext or [(f,)]
    return out


def armed_histories(cfg, methods, init, spec):
    """spec = ('arm', stride, offset, long): histories  arm[mj]:a ; c1  -- a = every operation that must call method
    j (rdk of every slot above a leaf of j, lsa of every leaf of j), performed while method j RAISES (after logging the
    call; the exception leaves the assignment and is caught), for EVERY method j; c1 = every applicable single
    operation (every stride-th, at least one per armed operation: the watcher tables are inspected right after the
    armed step in any case).  long: additionally  p ; arm[mj]:a ; c1  (every stride-th p and c1)."""
    _, stride, offset, long_ = spec
    cnt = [offset]

    def take():
        cnt[0] += 1
        return stride <= 1 or cnt[0] % stride == 0

    def armable(prefix):
        m = model_after(cfg, init, prefix)
        out = []
        for op in cfg.alphabet:
            if op[0] not in ('rdk', 'lsa') or not m.applicable(op):
                continue
            before = m.reached()
            m2 = model_after(cfg, init, prefix)
            on_det = m2.apply(op)
            after = m2.reached()
            for j, d in enumerate(methods):
                idx = [cfg.specs.index(s) for s in d]
                lo, _hi = base.expectation(d, op, [before[k] for k in idx], [after[k] for k in idx], on_det, False)
                if lo == 1:
                    out.append(('arm', op, j))
        return out
    out = []
    for a in armable(()):
        cs = [(a, c) for c in applicable_ops(cfg, model_after(cfg, init, (a,)), False)]
        out += [h for h in cs if take()] or cs[:1] or [(a,)]
    if long_:
        for p in applicable_ops(cfg, model_after(cfg, init, ()), False):
            if not take():
                continue
            for a in armable((p,)):
                cs = [(p, a, c) for c in applicable_ops(cfg, model_after(cfg, init, (p, a)), False)]
                out += [h for h in cs if take()] or cs[:1]
    return out


# ------------------------------------------------------------------------------------------
# running one history
# ------------------------------------------------------------------------------------------
def run_history(prop, methods, eq, init, hist):
    """-> (steps, violations, raised)"""
    cfg = cfg_for(methods, eq)
    specs = cfg.specs
    idxs = [[specs.index(s) for s in d] for d in methods]
    ns = namespace(methods, eq)
    LOG = ns['LOG']
    m = base.Model(cfg, init)
    env = {}
    for ins in m.instrs:
        base.execute(ins, env, ns)
    done = len(m.instrs)
    viols, raised = [], []
    steps = 0
    cl = MRO_CLAUSES if is_mro(eq) else CLAUSES[prop]
    for i, op in enumerate(hist):
        if op[0] == 'arm':
            cl = RAISE_CLAUSES      # from the raising step on
        before = m.reached()
        on_det = m.apply(op)
        after = m.reached()
        new = m.instrs[done:]
        done = len(m.instrs)
        for ins in new[:-1]:
            base.execute(ins, env, ns)
        del LOG[:]
        ns['ARM'][0] = op[2] if op[0] == 'arm' else None
        try:
            base.execute(new[-1], env, ns)
        except Exception as e:
            raised.append((i, type(e).__name__))
        finally:
            ns['ARM'][0] = None
        steps += 1
        for j, d in enumerate(methods):
            bj = [before[k] for k in idxs[j]]
            aj = [after[k] for k in idxs[j]]
            if op[0] == 'bat':
                info = [(it, [b[k] for k in idxs[j]], [a[k] for k in idxs[j]], batched)
                        for it, b, a, batched in m.last_batch]
                lo, hi = base.batch_expectation(d, info, bj, aj)
            else:
                lo, hi = base.expectation(d, op[1] if op[0] == 'arm' else op, bj, aj, on_det, False)
            if op[0] == 'arm' and j != op[2]:
                lo = 0      # lenient: the exception of the raising method may keep the remaining methods from being called
            got = LOG.count('m%d' % j)
            if lo <= got <= hi:
                continue
            if on_det:
                kind, clause = 'detached-fired', cl['detached']
            elif got < lo:
                kind, clause = 'missed', cl['count']
            elif hi == 0:
                kind, clause = 'spurious', cl['count']
            else:
                kind, clause = 'multiple', cl['count']
            viols.append(dict(methods=methods, eq=eq, init=init, hist=tuple(hist[:i + 1]), kind=kind, clause=clause,
                              method=j, got=got, lo=lo, hi=hi, before=bj, after=aj, raised=tuple(raised)))
        if cl['leak']:
            reach = m.reachable()
            leaks = [(idx, base.watcher_count(env[idx])) for idx in range(len(m.objs)) if idx not in reach]
            leaks = [(idx, n) for idx, n in leaks if n]
            if leaks:
                viols.append(dict(methods=methods, eq=eq, init=init, hist=tuple(hist[:i + 1]), kind='leak',
                                  clause=cl['leak'], method=-1, got=leaks[0][1], lo=0, hi=0,
                                  leak_role=m.objs[leaks[0][0]]['role'], leak_idx=leaks[0][0],
                                  before=before, after=after, raised=tuple(raised)))
        if viols and viols[-1]['hist'] == tuple(hist[:i + 1]) and i < len(hist) - 1 and op[0] != 'arm':
            break       # the first failing step of a history is the finding (later steps run on a damaged binding)
    return steps, viols, raised


def run_chunk(tasks):
    """tasks: (prop, methods, eq, init, spec) -> [(prop, methods, eq, init, n histories, steps, n detached steps,
    violations, raised)]"""
    warnings.simplefilter('ignore')
    res = []
    for prop, methods, eq, init, spec in tasks:
        cfg = cfg_for(methods, eq)
        hs = armed_histories(cfg, methods, init, spec) if spec[0] == 'arm' else enumerate_histories(cfg, init, spec)
        steps = ndet = 0
        viols, raisers = [], []
        for h in hs:
            s, v, r = run_history(prop, methods, eq, init, h)
            steps += s
            ndet += sum(1 for o in h[:s] if o[0] in ('lsd', 'rdd'))
            r = [(i, exc) for i, exc in r if not (exc == 'Boom' and h[i][0] == 'arm')]      # raised as intended
            viols += v
            for i, exc in r:
                raisers.append((base.op_str(h[i]), exc, h[:i + 1]))
        res.append((prop, methods, eq, init, [base.hist_str(h) for h in hs], steps, ndet, viols, raisers))
    return res


# ------------------------------------------------------------------------------------------
# plan per tier
# ------------------------------------------------------------------------------------------
def plan(prop, tier, seed, nchunks=64):
    """-> (chunks of tasks, text describing the bound)"""
    cfgs = configs(tier)
    tasks = []
    n1 = sum(1 for _d, ms in cfgs if len(ms) == 1)
    head = ("family multi: %d configurations (%d with one method, %d ordered pairs of methods, %d with three methods; "
            "paths of depth 1-3 from pools sharing prefixes)" % (len(cfgs), n1, sum(1 for _d, ms in cfgs if len(ms) == 2),
                                                                  sum(1 for _d, ms in cfgs if len(ms) == 3)))
    if prop == 'C07':
        if tier == 'quick':
            for i, (depth, methods) in enumerate(cfgs):
                for eq in ('id', 'val'):
                    stride = (4 if eq == 'id' else 1) if len(methods) == 1 else 16
                    tasks.append((prop, methods, eq, 'full', (2, False, stride, seed + i)))
            text = head + (" x {identity, value} equality, from the full state: ALL single operations; histories of length 2: "
                           "all for one method with value equality, a seeded 1/4 for one method with identity equality (the "
                           "base family covers those), a seeded 1/16 for several methods")
        else:
            for i, (depth, methods) in enumerate(cfgs):
                c = cfg_of(methods)
                for eq in ('id', 'val'):
                    for init in c.inits:
                        if len(methods) == 1:
                            spec = (3, False, 6, seed + i) if init == 'full' else (2, False, 1, 0)
                        else:
                            spec = (2, False, 3, seed + i) if init == 'full' else (2, False, 12, seed + i)
                        tasks.append((prop, methods, eq, init, spec))
                    if len(methods) == 1:
                        tasks.append((prop, methods, eq, 'full', (2, False, 1, 0)))
            text = head + (" x {identity, value} equality x every initial state (full, empty, a hole at any level): ALL single "
                           "operations; one method: all histories of length 2 and a seeded slice of length 3 (every 6th second and "
                           "every 6th third operation) from the full state; several methods: a seeded 1/3 of the histories of length 2 from the full state, 1/12 from "
                           "the other initial states")
    else:
        if tier == 'quick':
            n = 0
            for i, (depth, methods) in enumerate(cfgs):
                if len(methods) == 2 and (i + seed) % 4:
                    continue
                n += 1
                tasks.append((prop, methods, 'id', 'full', (2, True, 10, seed + i)))
                if len(methods) != 2:
                    tasks.append((prop, methods, 'val', 'full', (1, True, 1, 0)))
            text = head + ("; %d of them (all with one or three methods, a seeded quarter of the pairs), identity equality, "
                           "from the full state: EVERY single operation in every form (assignment / update / batch on the "
                           "owner / batch on the top object) and a seeded 1/10 of: plain operation ; operation in every form, "
                           "and: batched operation ; leaf assignment; value equality: every single operation in every form for the "
                           "configurations with one or three methods" % n)
        else:
            for i, (depth, methods) in enumerate(cfgs):
                for eq in ('id', 'val'):
                    if len(methods) == 1:
                        spec = (2, True, 1 if eq == 'id' else 2, seed + i)
                    else:
                        spec = (2, True, 10 if eq == 'id' else 20, seed + i)
                    tasks.append((prop, methods, eq, 'full', spec))
            text = head + (" x {identity, value} equality, from the full state: EVERY single operation in every form "
                           "(assignment / update / batch on the owner / batch on the top object); plain operation ; operation "
                           "in every form, and batched operation ; leaf assignment: all of them for one method (value equality: "
                           "every second), a seeded 1/10 (value equality: 1/20) for several")
    if prop == 'C07':
        # ---- one of several methods raises (checks AFTER the failure) / plain mixins re-declaring the method
        multi = [(i, methods) for i, (depth, methods) in enumerate(cfgs) if len(methods) >= 2]
        narm = 0
        for i, methods in multi:
            if tier == 'quick':
                tasks.append((prop, methods, 'id', 'full', ('arm', 8, seed + i, False)))
            else:
                tasks.append((prop, methods, 'id', 'full', ('arm', 2, seed + i, False)))
                tasks.append((prop, methods, 'val', 'full', ('arm', 4, seed + i, False)))
                tasks.append((prop, methods, 'id', 'full', ('arm', 12, seed + i, True)))
            narm += 1
        nmro = 0
        for shape in MRO_SHAPES:
            for pb in MRO_POOL:
                for pm in MRO_POOL:
                    if pb == pm:
                        continue
                    eq = 'mro|%s|%s|%s' % (shape, pb, pm)
                    nmro += 1
                    if tier == 'quick':
                        tasks.append((prop, mro_methods(eq), eq, 'full', (2, False, 8, seed + nmro)))
                    else:
                        tasks.append((prop, mro_methods(eq), eq, 'full', (2, False, 2, seed + nmro)))
                        for init in cfg_for(mro_methods(eq), eq).inits[1:]:
                            tasks.append((prop, mro_methods(eq), eq, init, (2, False, 12, seed + nmro)))
        text += ("; raising methods: the %d configurations with several methods, from the full state: arm[mj]:a ; c1 for every "
                 "method j and every operation a that must call it (replacement by a copy differing in a leaf of j, at every "
                 "level; leaf assignment), method j raising during a, followed by %s single operation c1%s -- the raising step "
                 "is compared from above for the other methods, every later step exactly, watcher tables after every step; "
                 "class hierarchies (family mro): %d hierarchies = %d placements of a plain NON-Parameterized mixin that "
                 "re-declares m0 relative to the Parameterized class declaring it (before / after it in the MRO, behind another "
                 "plain class, through an intermediate Parameterized or plain subclass) x %d ordered pairs (path of the "
                 "Parameterized declaration, path of the mixin's declaration) over %s, a second method m1 declared once; "
                 "the dependencies of T.m0 are those of the definition that attribute lookup finds (computed on a mirror of "
                 "plain classes); ALL single operations and %s histories of length 2%s"
                 % (narm, 'a seeded 1/8 of the' if tier == 'quick' else 'every second',
                    '' if tier == 'quick' else ' (value equality: 1/4), and a seeded 1/12 of p ; arm[mj]:a ; c1',
                    nmro, len(MRO_SHAPES), len(MRO_POOL) * (len(MRO_POOL) - 1), '/'.join(MRO_POOL),
                    'a seeded 1/8 of the' if tier == 'quick' else 'every second of the',
                    ' from the full state' if tier == 'quick' else ' from the full state, 1/12 from every other initial state'))
    chunks = [tasks[i::nchunks] for i in range(nchunks)]
    return [c for c in chunks if c], text


# ------------------------------------------------------------------------------------------
# witnesses / replay
# ------------------------------------------------------------------------------------------
def last_form(v):
    op = v['hist'][-1]
    if op[0] == 'arm':
        return 'arm', op[1]
    if op[0] != 'bat':
        return 'set', op
    it = op[3][0]
    cfg = cfg_for(v['methods'], v['eq'])
    if op[1] == 'upd':
        return 'upd', it
    return ('ctx' if op[2] == holder_slot(cfg, it) else 'ctxtop'), it


def vclass(v):
    """witness class: (clause, kind, equality, one / several methods, form, kind of the failing operation, level of
    the assigned object / depth of the deepest path of the failing method, first step / later)"""
    form, it = last_form(v)
    cfg = cfg_for(v['methods'], v['eq'])
    if it[0] in ('lsa', 'lsd'):
        lvl = cfg.leaves[it[1]][0].count('.') + 2
    else:
        lvl = it[1].count('.') + 1
    if v['method'] >= 0:
        depth = max(s.count('.') for s in v['methods'][v['method']])
    else:
        depth = max(s.count('.') for s in cfg.specs)
    armed = [o for o in v['hist'][:-1] if o[0] == 'arm']
    when = 'first' if len(v['hist']) == 1 else ('after-raise[%s]' % armed[0][1][0] if armed else 'later')
    eqk = v['eq']
    if is_mro(eqk):
        shape, pb, pm = mro_parts(eqk)
        eqk = 'mro|%s|%s' % (shape, 'same-root' if pb.split('.')[0] == pm.split('.')[0] else 'other-root')
    return (v['clause'], v['kind'], eqk, 'one' if len(v['methods']) == 1 else 'several', form, it[0],
            '%d/%d' % (lvl, depth), when)


def class_str(k):
    return '%s:%s@%s:%s' % (k[4], k[5], k[6], k[7])


def witness_of(v):
    k = vclass(v)
    changed = ','.join(str(i) for i, (b, a) in enumerate(zip(v['before'], v['after'])) if b != a) or '-'
    return 'family=multi eq=%s methods=%s init=%s hist=%s method=%s kind=%s changed=%s got=%d want=%s class=%s' % (
        v['eq'], mkey(v['methods']), v['init'], base.hist_str(v['hist'], v['raised']),
        'm%d' % v['method'] if v['method'] >= 0 else '-', v['kind'], changed, v['got'],
        ('%d' % v['lo']) if v['lo'] == v['hi'] else '%d..%d' % (v['lo'], v['hi']), class_str(k))


def sortkey(v):
    cfg = cfg_for(v['methods'], v['eq'])
    return (bool(v['raised']), len(v['hist']), len(v['methods']), sum(len(d) for d in v['methods']),
            max(s.count('.') for s in cfg.specs), v['init'] != 'full', mkey(v['methods']),
            [base.op_order(cfg, o) if o[0] != 'eqs' and not (o[0] == 'bat' and o[3][0][0] == 'eqs') else (3, 0, base.op_str(o))
             for o in v['hist']], v['method'])


def replay_of(v, prop, clause, witness):
    cfg = cfg_for(v['methods'], v['eq'])
    m = base.Model(cfg, v['init'])
    src = REPLAY_HEADER.format(prop=prop, name='replay_%s.py' % prop.lower(), clause=clause, witness=witness)
    src += classes_src(v['methods'], v['eq'])
    src += '''def watcher_count(obj):
    n = 0
    for d in obj._param__private.watchers.values():
        for lst in d.values():
            n += len(lst)
    for p in obj._param__private.params.values():
        for lst in p.watchers.values():
            n += len(lst)
    return n
'''
    done = 0
    for i, op in enumerate(v['hist']):
        m.apply(op)
        new = m.instrs[done:]
        done = len(m.instrs)
        src += '# %s%s\n' % ('initial state; ' if i == 0 else '', base.op_str(op))
        for ins in new[:-1]:
            src += base.render(ins) + '\n'
        if i == len(v['hist']) - 1:
            src += 'del LOG[:]\n'
        if op[0] == 'arm':
            src += 'ARM[0] = %d        # method m%d raises when it is called now\n' % (op[2], op[2])
        src += 'try:\n' + '\n'.join('    ' + ln for ln in base.render(new[-1]).split('\n'))
        src += '\nexcept Exception as e:\n    print("this assignment raised", repr(e))\n'
        if op[0] == 'arm':
            src += 'ARM[0] = None\n'
    if v['kind'] == 'leak':
        src += "n = watcher_count(n%d)\n" % v['leak_idx']
        src += "print('watchers left on the detached object n%d:', n)\n" % v['leak_idx']
        src += "if n:\n    print('REPRODUCED: detached object (role %s) keeps %%d watcher(s)' %% n)\n    sys.exit(1)\n" % v['leak_role']
    else:
        name = 'm%d' % v['method']
        src += "n = LOG.count(%r)\nprint('calls in the last step:', LOG)\n" % name
        src += "if not (%d <= n <= %d):\n" % (v['lo'], v['hi'])
        msg = 'REPRODUCED: T.%s (depends on %s) called %%d times, expected %s (values reached through its paths before %r, after %r)' % (
            name, ', '.join(v['methods'][v['method']]),
            ('%d' % v['lo']) if v['lo'] == v['hi'] else '%d..%d' % (v['lo'], v['hi']), v['before'], v['after'])
        src += "    print(%r %% n)\n" % msg
        src += "    sys.exit(1)\n"
    src += "print('NOT-REPRODUCED')\n"
    return src


MAX_PER_CLAUSE = 12


def collect(B, prop, results):
    """counts the cases into B; -> list of (clause, witness, replay source, number of failing cases, detail),
    one representative (shortest history, smallest configuration) per witness class, at most MAX_PER_CLAUSE per
    clause (not yet confirmed: the caller runs the replays stand-alone)"""
    allv = []
    raisers = {}
    nh = 0
    for chunk in results:
        for _prop, methods, eq, init, hs, steps, ndet, viols, rs in chunk:
            for h in hs:
                B.case(key='multi eq=%s methods=%s init=%s hist=%s' % (eq, mkey(methods), init, h))
            nh += len(hs)
            B.checked(EVAL_CLAUSE[prop], steps * len(methods))
            if prop == 'C07':
                B.checked(CLAUSES[prop]['detached'], ndet)
                B.checked(CLAUSES[prop]['leak'], steps)
            allv += viols
            for ops, exc, h in rs:
                rk = (eq, ops, exc)
                if rk not in raisers or len(h) < len(raisers[rk][1]):
                    raisers[rk] = (mkey(methods), h, init)
    groups = {}
    for v in allv:
        groups.setdefault(vclass(v), []).append(v)
    # a class that fails in the same way with identity equality is not a matter of value equality: one class
    for k in [k for k in groups if k[2] == 'val']:
        kid = k[:2] + ('id',) + k[3:]      # (the keys of family mro start with 'mro|': never merged)
        if kid in groups:
            groups[kid] += groups.pop(k)
    reports = []
    for k in sorted(groups):
        rep = min(groups[k], key=sortkey)
        witness = witness_of(rep)
        detail = 'values reached before %r after %r; %d failing histories in this class' % (
            rep['before'], rep['after'], len(groups[k]))
        reports.append((rep['clause'], witness, replay_of(rep, prop, rep['clause'], witness), len(groups[k]), detail,
                        sortkey(rep)))
    reports.sort(key=lambda r: (r[0], r[5][:6], r[1]))
    per_clause, kept = {}, []
    for r in reports:
        per_clause[r[0]] = per_clause.get(r[0], 0) + 1
        if per_clause[r[0]] <= MAX_PER_CLAUSE:
            kept.append(r[:5])
    for clause, n in sorted(per_clause.items()):
        if n > MAX_PER_CLAUSE:
            B.note('%s: %d further witness classes suppressed (cap %d per clause)' % (clause, n - MAX_PER_CLAUSE, MAX_PER_CLAUSE))
    for (eq, ops, exc), (mk, h, init) in sorted(raisers.items()):
        B.note('family multi: assignment raised %s (recorded, history continued; reported only through miscounts): '
               'eq=%s op=%s shortest: methods=%s init=%s hist=%s' % (exc, eq, ops, mk, init, base.hist_str(h)))
    B.note('family multi: %d histories' % nh)
    return kept
