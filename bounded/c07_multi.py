"""Family "multi" of the bounded layers of C07 and C06 (shared): SEVERAL dependent methods whose
sub-object paths share prefixes, paths of depth 1..3 replaced at EVERY level, and sub-object classes
with VALUE equality.

Built on the shadow model of bounded/c07.py (Model / Cfg / expectation: the oracle is computed from
the property statement on a plain-Python shadow of the object tree, never from param).

Classes (generated source; real metaclass / constructor / setter / dispatcher of the library):

    class L(param.Parameterized):  x, y                        (leaves)
    class M(param.Parameterized):  x, y, b, c                  (intermediate objects; b, c sub-object slots)
    class T(param.Parameterized):  a, c, z
        @param.depends(<deps of method 0>, watch=True)  def m0(self): LOG.append('m0')
        @param.depends(<deps of method 1>, watch=True)  def m1(self): LOG.append('m1')     ...

    eq = 'id' : default identity equality;
    eq = 'val': L and M define __eq__ (same type and ALL parameter values equal, sub-objects compared
                recursively) and a compatible __hash__ -- two distinct attached objects may compare equal.

Configurations: for every depth d in 1..3 a pool of four (depth 1: three) dependency paths sharing
prefixes (d=2: 'a.b.x', 'a.b.y', 'a.c.x', 'a.x'; d=3: 'a.b.c.x', 'a.b.c.y', 'a.b.b.x', 'a.b.x'); a
dependency set = one path or two paths of the pool (thorough: both declaration orders); a
configuration = ONE method, every ordered PAIR of methods (equal sets included: two methods with the
same dependencies) or three methods with one path each.

Operations (bounded/c07.py): req / rdk / det / att / rat of EVERY slot (root, intermediate, innermost;
rdk: a copy that differs in exactly one dependency leaf, for every leaf below the slot -> nested values
equal / different), lsa / lsd of every leaf, rdd, and additionally

    eqs(slot, other)   replace the object at `slot` by a fresh object whose values EQUAL those of the object
                       attached at `other` (a slot of the same shape): the two attached objects are
                       equal-valued at the moment the dependencies are re-bound.  (In the initial state
                       all leaves are 0: siblings are equal-valued when the dependencies are first bound.)

C06 additionally performs every single operation in the forms of the statement ("assignment, update or
batch"): plain assignment, H.param.update(...), `with batch_call_watchers(H)` on the object H that owns the
assigned parameter, and `with batch_call_watchers(top)` around an assignment on a lower object.

Oracle, PER METHOD (bounded/c07.py `expectation` / `batch_expectation` on the method's own paths):
    operation on a detached object -> 0 calls;  some path of the method resolves before and after and the
    value reached differs -> exactly 1 call;  a slot on a path of the method that is unresolved before or
    after is assigned -> 0..1;  otherwise 0 calls.
C07 additionally: after every operation no object that is no longer reachable keeps a watcher.
"""
import itertools
import logging
import warnings

from bounded._api import REPLAY_HEADER
from bounded import c07 as base

POOLS = {1: ('a.x', 'a.y', 'c.x'),
         2: ('a.b.x', 'a.b.y', 'a.c.x', 'a.x'),
         3: ('a.b.c.x', 'a.b.c.y', 'a.b.b.x', 'a.b.x')}
# thorough: two intermediate objects (class M) side by side at the first level
POOL_EXTRA = {2: ('c.b.x',)}

CLAUSES = {
    'C07': {'count': 'C07/several methods, deep paths, value-equal sub-objects: each method fires exactly once iff its reached value changes',
            'detached': 'C07/several methods, deep paths, value-equal sub-objects: never because of a detached object',
            'leak': 'C07/several methods, deep paths, value-equal sub-objects: detached objects keep no watcher'},
    'C06': {'count': 'C06/dispatch/deep sub-object paths, several methods: invocations==deps',
            'detached': 'C06/dispatch/deep sub-object paths, several methods: invocations==deps',
            'leak': None},
}
EVAL_CLAUSE = {'C07': CLAUSES['C07']['count'],
               'C06': 'C06/dispatch/deep sub-object paths, several methods: invocations == [changed & deps != {}]'}

HEADER_SRC = '''import logging, warnings
import param
warnings.simplefilter('ignore')
param.parameterized.get_logger().setLevel(logging.CRITICAL)
LOG = []
'''
EQ_SRC = '''    def __eq__(self, other):
        return type(other) is type(self) and all(getattr(self, p) == getattr(other, p) for p in %r)
    def __ne__(self, other):
        return not self == other
    def __hash__(self):
        return hash(type(self).__name__)
'''


def classes_src(methods, eq):
    src = HEADER_SRC
    src += "class L(param.Parameterized):\n    x = param.Integer(0)\n    y = param.Integer(0)\n"
    if eq == 'val':
        src += EQ_SRC % (('x', 'y'),)
    src += ("class M(param.Parameterized):\n    x = param.Integer(0)\n    y = param.Integer(0)\n"
            "    b = param.Parameter(None)\n    c = param.Parameter(None)\n")
    if eq == 'val':
        src += EQ_SRC % (('x', 'y', 'b', 'c'),)
    src += ("class N(param.Parameterized):\n    z = param.Integer(0)\n"
            "class T(param.Parameterized):\n    a = param.Parameter(None)\n    c = param.Parameter(None)\n"
            "    z = param.Integer(0)\n")
    for j, deps in enumerate(methods):
        src += "    @param.depends(%s, watch=True)\n    def m%d(self):\n        LOG.append('m%d')\n" % (
            ', '.join(repr(s) for s in deps), j, j)
    return src


# ------------------------------------------------------------------------------------------
# configurations
# ------------------------------------------------------------------------------------------
def depsets(depth, tier):
    pool = POOLS[depth] + (POOL_EXTRA.get(depth, ()) if tier == 'thorough' else ())
    out = [(s,) for s in pool]
    for i, j in itertools.combinations(range(len(pool)), 2):
        out.append((pool[i], pool[j]))
        if tier == 'thorough' and pool[j] not in POOL_EXTRA.get(depth, ()):
            out.append((pool[j], pool[i]))
    return out


def configs(tier):
    """list of (depth, methods); methods = tuple of dependency sets"""
    out = []
    for depth in (1, 2, 3):
        for d in depsets(depth, tier):
            out.append((depth, (d,)))
        ds = depsets(depth, 'quick')
        for d0 in ds:
            for d1 in ds:
                out.append((depth, (d0, d1)))
        for tri in itertools.combinations(POOLS[depth], 3):
            out.append((depth, tuple((s,) for s in tri)))
    return out


def mkey(methods):
    return '|'.join('+'.join(d) for d in methods)


def union(methods):
    specs = []
    for d in methods:
        for s in d:
            if s not in specs:
                specs.append(s)
    return tuple(specs)


_CFG = {}


def cfg_of(methods):
    u = union(methods)
    c = _CFG.get(u)
    if c is None:
        c = _CFG[u] = base.Cfg(u)
        c.eqs = eqs_ops(c)
        c.alphabet = [op for op in c.ops if op[0] not in ('atd', 'bad')] + c.eqs
    return c


def eqs_ops(cfg):
    """('eqs', slot, other) for every ordered pair of different slots of the same shape (same class, same
    sub-slots below), neither inside the other"""
    def shape(s):
        return (cfg.slot_cls[s], tuple(sorted(t[len(s):] for t in cfg.slots if t.startswith(s + '.'))))
    out = []
    for s in cfg.slots:
        for o in cfg.slots:
            if s != o and shape(s) == shape(o) and not (s + '.').startswith(o + '.') and not (o + '.').startswith(s + '.'):
                out.append(('eqs', s, o))
    return out


_NS = {}


def namespace(methods, eq):
    ns = _NS.get((methods, eq))
    if ns is None:
        warnings.simplefilter('ignore')
        ns = {}
        exec(compile(classes_src(methods, eq), '<c07 multi classes>', 'exec'), ns)
        ns['param'].parameterized.get_logger().setLevel(logging.CRITICAL)
        if len(_NS) > 64:
            _NS.clear()
        _NS[(methods, eq)] = ns
    return ns


# ------------------------------------------------------------------------------------------
# histories
# ------------------------------------------------------------------------------------------
FORMABLE = ('req', 'rdk', 'det', 'att', 'rat', 'eqs', 'lsa')


def model_after(cfg, init, hist):
    m = base.Model(cfg, init)
    for op in hist:
        m.apply(op)
    return m


def holder_slot(cfg, op):
    if op[0] == 'lsa':
        return cfg.leaves[op[1]][0]
    return '.'.join(op[1].split('.')[:-1])


def forms_of(cfg, op):
    """the operation in every form of the statement: assignment / update / batch on the owner / batch on the top object"""
    out = [op]
    if op[0] in FORMABLE:
        H = holder_slot(cfg, op)
        out += [('bat', 'upd', H, (op,)), ('bat', 'ctx', H, (op,))]
        if H:
            out.append(('bat', 'ctx', '', (op,)))
    return out


def applicable_ops(cfg, m, forms):
    out = []
    for op in cfg.alphabet:
        if m.applicable(op):
            out += forms_of(cfg, op) if forms else [op]
    return out


def enumerate_histories(cfg, init, spec):
    """spec = (k, forms, stride, offset): applicable histories of length <= k from `init` (every prefix of a history
    is checked step by step, so only maximal ones are kept).  ALL histories of length 1 are always included; of
    the longer ones every stride-th (counted from `offset`).
    forms=False (C07): plain operations.
    forms=True (C06):  (f,) for every form f of every single operation;  (p, f) plain operation p followed by an
    operation in every form;  (f, q) an operation in a batched form followed by a plain leaf assignment q (are the
    watchers re-bound inside the batch the right ones)."""
    k, forms, stride, offset = spec
    out = []
    cnt = [offset]

    def take():
        cnt[0] += 1
        return stride <= 1 or cnt[0] % stride == 0
    m0 = model_after(cfg, init, ())
    for p in applicable_ops(cfg, m0, False):
        ext = []
        if k >= 2:
            m1 = model_after(cfg, init, (p,))
            for q in applicable_ops(cfg, m1, forms):
                if not take():
                    continue
                if k >= 3:
                    m2 = model_after(cfg, init, (p, q))
                    ext3 = [(p, q, r) for r in applicable_ops(cfg, m2, False) if take()]
                    ext += ext3 or [(p, q)]
                else:
                    ext.append((p, q))
        out += ext or [(p,)]
        if forms:
            for f in forms_of(cfg, p)[1:]:
                ext = []
                if k >= 2:
                    mf = model_after(cfg, init, (f,))
                    ext = [(f, q) for q in applicable_ops(cfg, mf, False) if q[0] == 'lsa' and take()]
                out += ext or [(f,)]
    return out


# ------------------------------------------------------------------------------------------
# running one history
# ------------------------------------------------------------------------------------------
def run_history(prop, methods, eq, init, hist):
    """-> (steps, violations, raised)"""
    cfg = cfg_of(methods)
    specs = cfg.specs
    idxs = [[specs.index(s) for s in d] for d in methods]
    ns = namespace(methods, eq)
    LOG = ns['LOG']
    m = base.Model(cfg, init)
    env = {}
    for ins in m.instrs:
        base.execute(ins, env, ns)
    done = len(m.instrs)
    viols, raised = [], []
    steps = 0
    cl = CLAUSES[prop]
    for i, op in enumerate(hist):
        before = m.reached()
        on_det = m.apply(op)
        after = m.reached()
        new = m.instrs[done:]
        done = len(m.instrs)
        for ins in new[:-1]:
            base.execute(ins, env, ns)
        del LOG[:]
        try:
            base.execute(new[-1], env, ns)
        except Exception as e:
            raised.append((i, type(e).__name__))
        steps += 1
        for j, d in enumerate(methods):
            bj = [before[k] for k in idxs[j]]
            aj = [after[k] for k in idxs[j]]
            if op[0] == 'bat':
                info = [(it, [b[k] for k in idxs[j]], [a[k] for k in idxs[j]], batched)
                        for it, b, a, batched in m.last_batch]
                lo, hi = base.batch_expectation(d, info, bj, aj)
            else:
                lo, hi = base.expectation(d, op, bj, aj, on_det, False)
            got = LOG.count('m%d' % j)
            if lo <= got <= hi:
                continue
            if on_det:
                kind, clause = 'detached-fired', cl['detached']
            elif got < lo:
                kind, clause = 'missed', cl['count']
            elif hi == 0:
                kind, clause = 'spurious', cl['count']
            else:
                kind, clause = 'multiple', cl['count']
            viols.append(dict(methods=methods, eq=eq, init=init, hist=tuple(hist[:i + 1]), kind=kind, clause=clause,
                              method=j, got=got, lo=lo, hi=hi, before=bj, after=aj, raised=tuple(raised)))
        if cl['leak']:
            reach = m.reachable()
            leaks = [(idx, base.watcher_count(env[idx])) for idx in range(len(m.objs)) if idx not in reach]
            leaks = [(idx, n) for idx, n in leaks if n]
            if leaks:
                viols.append(dict(methods=methods, eq=eq, init=init, hist=tuple(hist[:i + 1]), kind='leak',
                                  clause=cl['leak'], method=-1, got=leaks[0][1], lo=0, hi=0,
                                  leak_role=m.objs[leaks[0][0]]['role'], leak_idx=leaks[0][0],
                                  before=before, after=after, raised=tuple(raised)))
        if viols and viols[-1]['hist'] == tuple(hist[:i + 1]) and i < len(hist) - 1:
            break       # the first failing step of a history is the finding (later steps run on a damaged binding)
    return steps, viols, raised


def run_chunk(tasks):
    """tasks: (prop, methods, eq, init, spec) -> [(prop, methods, eq, init, n histories, steps, n detached steps,
    violations, raised)]"""
    warnings.simplefilter('ignore')
    res = []
    for prop, methods, eq, init, spec in tasks:
        cfg = cfg_of(methods)
        hs = enumerate_histories(cfg, init, spec)
        steps = ndet = 0
        viols, raisers = [], []
        for h in hs:
            s, v, r = run_history(prop, methods, eq, init, h)
            steps += s
            ndet += sum(1 for o in h[:s] if o[0] in ('lsd', 'rdd'))
            viols += v
            for i, exc in r:
                raisers.append((base.op_str(h[i]), exc, h[:i + 1]))
        res.append((prop, methods, eq, init, [base.hist_str(h) for h in hs], steps, ndet, viols, raisers))
    return res


# ------------------------------------------------------------------------------------------
# plan per tier
# ------------------------------------------------------------------------------------------
def plan(prop, tier, seed, nchunks=64):
    """-> (chunks of tasks, text describing the bound)"""
    cfgs = configs(tier)
    tasks = []
    n1 = sum(1 for _d, ms in cfgs if len(ms) == 1)
    head = ("family multi: %d configurations (%d with one method, %d ordered pairs of methods, %d with three methods; "
            "paths of depth 1-3 from pools sharing prefixes)" % (len(cfgs), n1, sum(1 for _d, ms in cfgs if len(ms) == 2),
                                                                  sum(1 for _d, ms in cfgs if len(ms) == 3)))
    if prop == 'C07':
        if tier == 'quick':
            for i, (depth, methods) in enumerate(cfgs):
                for eq in ('id', 'val'):
                    stride = (4 if eq == 'id' else 1) if len(methods) == 1 else 16
                    tasks.append((prop, methods, eq, 'full', (2, False, stride, seed + i)))
            text = head + (" x {identity, value} equality, from the full state: ALL single operations; histories of length 2: "
                           "all for one method with value equality, a seeded 1/4 for one method with identity equality (the "
                           "base family covers those), a seeded 1/16 for several methods")
        else:
            for i, (depth, methods) in enumerate(cfgs):
                c = cfg_of(methods)
                for eq in ('id', 'val'):
                    for init in c.inits:
                        if len(methods) == 1:
                            spec = (3, False, 6, seed + i) if init == 'full' else (2, False, 1, 0)
                        else:
                            spec = (2, False, 3, seed + i) if init == 'full' else (2, False, 12, seed + i)
                        tasks.append((prop, methods, eq, init, spec))
                    if len(methods) == 1:
                        tasks.append((prop, methods, eq, 'full', (2, False, 1, 0)))
            text = head + (" x {identity, value} equality x every initial state (full, empty, a hole at any level): ALL single "
                           "operations; one method: all histories of length 2 and a seeded slice of length 3 (every 6th second and "
                           "every 6th third operation) from the full state; several methods: a seeded 1/3 of the histories of length 2 from the full state, 1/12 from "
                           "the other initial states")
    else:
        if tier == 'quick':
            n = 0
            for i, (depth, methods) in enumerate(cfgs):
                if len(methods) == 2 and (i + seed) % 4:
                    continue
                n += 1
                tasks.append((prop, methods, 'id', 'full', (2, True, 10, seed + i)))
                if len(methods) != 2:
                    tasks.append((prop, methods, 'val', 'full', (1, True, 1, 0)))
            text = head + ("; %d of them (all with one or three methods, a seeded quarter of the pairs), identity equality, "
                           "from the full state: EVERY single operation in every form (assignment / update / batch on the "
                           "owner / batch on the top object) and a seeded 1/10 of: plain operation ; operation in every form, "
                           "and: batched operation ; leaf assignment; value equality: every single operation in every form for the "
                           "configurations with one or three methods" % n)
        else:
            for i, (depth, methods) in enumerate(cfgs):
                for eq in ('id', 'val'):
                    if len(methods) == 1:
                        spec = (2, True, 1 if eq == 'id' else 2, seed + i)
                    else:
                        spec = (2, True, 10 if eq == 'id' else 20, seed + i)
                    tasks.append((prop, methods, eq, 'full', spec))
            text = head + (" x {identity, value} equality, from the full state: EVERY single operation in every form "
                           "(assignment / update / batch on the owner / batch on the top object); plain operation ; operation "
                           "in every form, and batched operation ; leaf assignment: all of them for one method (value equality: "
                           "every second), a seeded 1/10 (value equality: 1/20) for several")
    chunks = [tasks[i::nchunks] for i in range(nchunks)]
    return [c for c in chunks if c], text


# ------------------------------------------------------------------------------------------
# witnesses / replay
# ------------------------------------------------------------------------------------------
def last_form(v):
    op = v['hist'][-1]
    if op[0] != 'bat':
        return 'set', op
    it = op[3][0]
    cfg = cfg_of(v['methods'])
    if op[1] == 'upd':
        return 'upd', it
    return ('ctx' if op[2] == holder_slot(cfg, it) else 'ctxtop'), it


def vclass(v):
    """witness class: (clause, kind, equality, one / several methods, form, kind of the failing operation, level of
    the assigned object / depth of the deepest path of the failing method, first step / later)"""
    form, it = last_form(v)
    cfg = cfg_of(v['methods'])
    if it[0] in ('lsa', 'lsd'):
        lvl = cfg.leaves[it[1]][0].count('.') + 2
    else:
        lvl = it[1].count('.') + 1
    if v['method'] >= 0:
        depth = max(s.count('.') for s in v['methods'][v['method']])
    else:
        depth = max(s.count('.') for s in cfg.specs)
    return (v['clause'], v['kind'], v['eq'], 'one' if len(v['methods']) == 1 else 'several', form, it[0],
            '%d/%d' % (lvl, depth), 'first' if len(v['hist']) == 1 else 'later')


def class_str(k):
    return '%s:%s@%s:%s' % (k[4], k[5], k[6], k[7])


def witness_of(v):
    k = vclass(v)
    changed = ','.join(str(i) for i, (b, a) in enumerate(zip(v['before'], v['after'])) if b != a) or '-'
    return 'family=multi eq=%s methods=%s init=%s hist=%s method=%s kind=%s changed=%s got=%d want=%s class=%s' % (
        v['eq'], mkey(v['methods']), v['init'], base.hist_str(v['hist'], v['raised']),
        'm%d' % v['method'] if v['method'] >= 0 else '-', v['kind'], changed, v['got'],
        ('%d' % v['lo']) if v['lo'] == v['hi'] else '%d..%d' % (v['lo'], v['hi']), class_str(k))


def sortkey(v):
    cfg = cfg_of(v['methods'])
    return (bool(v['raised']), len(v['hist']), len(v['methods']), sum(len(d) for d in v['methods']),
            max(s.count('.') for s in cfg.specs), v['init'] != 'full', mkey(v['methods']),
            [base.op_order(cfg, o) if o[0] != 'eqs' and not (o[0] == 'bat' and o[3][0][0] == 'eqs') else (3, 0, base.op_str(o))
             for o in v['hist']], v['method'])


def replay_of(v, prop, clause, witness):
    cfg = cfg_of(v['methods'])
    m = base.Model(cfg, v['init'])
    src = REPLAY_HEADER.format(prop=prop, name='replay_%s.py' % prop.lower(), clause=clause, witness=witness)
    src += classes_src(v['methods'], v['eq'])
    src += '''def watcher_count(obj):
    n = 0
    for d in obj._param__private.watchers.values():
        for lst in d.values():
            n += len(lst)
    for p in obj._param__private.params.values():
        for lst in p.watchers.values():
            n += len(lst)
    return n
'''
    done = 0
    for i, op in enumerate(v['hist']):
        m.apply(op)
        new = m.instrs[done:]
        done = len(m.instrs)
        src += '# %s%s\n' % ('initial state; ' if i == 0 else '', base.op_str(op))
        for ins in new[:-1]:
            src += base.render(ins) + '\n'
        if i == len(v['hist']) - 1:
            src += 'del LOG[:]\n'
        src += 'try:\n' + '\n'.join('    ' + ln for ln in base.render(new[-1]).split('\n'))
        src += '\nexcept Exception as e:\n    print("this assignment raised", repr(e))\n'
    if v['kind'] == 'leak':
        src += "n = watcher_count(n%d)\n" % v['leak_idx']
        src += "print('watchers left on the detached object n%d:', n)\n" % v['leak_idx']
        src += "if n:\n    print('REPRODUCED: detached object (role %s) keeps %%d watcher(s)' %% n)\n    sys.exit(1)\n" % v['leak_role']
    else:
        name = 'm%d' % v['method']
        src += "n = LOG.count(%r)\nprint('calls in the last step:', LOG)\n" % name
        src += "if not (%d <= n <= %d):\n" % (v['lo'], v['hi'])
        msg = 'REPRODUCED: T.%s (depends on %s) called %%d times, expected %s (values reached through its paths before %r, after %r)' % (
            name, ', '.join(v['methods'][v['method']]),
            ('%d' % v['lo']) if v['lo'] == v['hi'] else '%d..%d' % (v['lo'], v['hi']), v['before'], v['after'])
        src += "    print(%r %% n)\n" % msg
        src += "    sys.exit(1)\n"
    src += "print('NOT-REPRODUCED')\n"
    return src


MAX_PER_CLAUSE = 12


def collect(B, prop, results):
    """counts the cases into B; -> list of (clause, witness, replay source, number of failing cases, detail),
    one representative (shortest history, smallest configuration) per witness class, at most MAX_PER_CLAUSE per
    clause (not yet confirmed: the caller runs the replays stand-alone)"""
    allv = []
    raisers = {}
    nh = 0
    for chunk in results:
        for _prop, methods, eq, init, hs, steps, ndet, viols, rs in chunk:
            for h in hs:
                B.case(key='multi eq=%s methods=%s init=%s hist=%s' % (eq, mkey(methods), init, h))
            nh += len(hs)
            B.checked(EVAL_CLAUSE[prop], steps * len(methods))
            if prop == 'C07':
                B.checked(CLAUSES[prop]['detached'], ndet)
                B.checked(CLAUSES[prop]['leak'], steps)
            allv += viols
            for ops, exc, h in rs:
                rk = (eq, ops, exc)
                if rk not in raisers or len(h) < len(raisers[rk][1]):
                    raisers[rk] = (mkey(methods), h, init)
    groups = {}
    for v in allv:
        groups.setdefault(vclass(v), []).append(v)
    # a class that fails in the same way with identity equality is not a matter of value equality: one class
    for k in [k for k in groups if k[2] == 'val']:
        kid = k[:2] + ('id',) + k[3:]
        if kid in groups:
            groups[kid] += groups.pop(k)
    reports = []
    for k in sorted(groups):
        rep = min(groups[k], key=sortkey)
        witness = witness_of(rep)
        detail = 'values reached before %r after %r; %d failing histories in this class' % (
            rep['before'], rep['after'], len(groups[k]))
        reports.append((rep['clause'], witness, replay_of(rep, prop, rep['clause'], witness), len(groups[k]), detail,
                        sortkey(rep)))
    reports.sort(key=lambda r: (r[0], r[5][:6], r[1]))
    per_clause, kept = {}, []
    for r in reports:
        per_clause[r[0]] = per_clause.get(r[0], 0) + 1
        if per_clause[r[0]] <= MAX_PER_CLAUSE:
            kept.append(r[:5])
    for clause, n in sorted(per_clause.items()):
        if n > MAX_PER_CLAUSE:
            B.note('%s: %d further witness classes suppressed (cap %d per clause)' % (clause, n - MAX_PER_CLAUSE, MAX_PER_CLAUSE))
    for (eq, ops, exc), (mk, h, init) in sorted(raisers.items()):
        B.note('family multi: assignment raised %s (recorded, history continued; reported only through miscounts): '
               'eq=%s op=%s shortest: methods=%s init=%s hist=%s' % (exc, eq, ops, mk, init, base.hist_str(h)))
    B.note('family multi: %d histories' % nh)
    return kept
