"""Bounded stand-in layer for C08 -- a linked parameter mirrors its reference until it is overridden.

Real code driven: `Parameterized.__init__` (`_setup_params`/`_setup_refs`), `Parameter.__set__`
(reference section, `_update_ref`), `_sync_refs`, `Parameters.update` + `_ParametersRestorer`,
`resolve_ref`/`resolve_value`, `reactive._rx_transform`, `bind`, `depends` of /repo.

One case = two sources s1, s2 (class S, Integer v), one target t with two parameters p1, p2
(allow_refs=True; nested_refs=True, or False in the scalar-only configurations), an initial
configuration

    k1  reference kind of p1 over s1:  P  s1.param.v                 -> v
                                        B  param.bind(f, s1.param.v)  -> v + 100
                                        D  @param.depends(s1.param.v) -> 2 v
                                        R  s1.param.v.rx() + 10       -> v + 10
                                        L  [s1.param.v, 3]   K  {'k': s1.param.v}
                                        U  (s1.param.v, bind)   N  [depends fn, rx]   X  [s1.param.v, s2.param.v]
    k2  p2: nothing | P over s2 | B over s1 (shared source) | L over s2 | R over s2
    mode  both links in the constructor | both by later assignment | p1 constructor, p2 later
    a1, a2  the reference p1 / p2 is re-linked to by the operation rl1 / rl2

and a history over  u1 u2 (source updates)  rl1 rl2 (relink)  ov1 ov2 (assign a plain value)
cx1 cx2 (`with t.param.update(p=plain):` both sources are updated inside, values are checked
inside and after the exit -- the exit re-establishes the link that was suspended).

Oracle (shadow model, written from the statement): after every step each of p1, p2 equals
f_kind(current source values) if it is linked, else the plain value last assigned; and no source
that is not used by a *current* link carries a watcher whose callable belongs to t (watcher tables
of both sources are scanned; watchers installed by bind/rx objects for themselves are not t's).
Inside an `update` context the overridden parameter must keep the plain value while the sources
move; the watcher scan is skipped inside the context (the link is only suspended).
Async references are left to C10.

Skip family (references whose resolution can yield NO value): kinds
    BS  param.bind(f, s.param.v), f raises param.Skip while v < 5, else v + 100
    DS  @param.depends(s.param.v) function raising param.Skip while v < 5, else 2 v
    MS  the depends METHOD s.shout of the source (raises param.Skip while v < 5, else 3 v)
    BU  bind function RETURNING param.parameterized.Undefined while v < 5, else v + 100
    BK  bind function RETURNING the class param.Skip while v < 5 (links made in the constructor only:
        on the assignment route the statement's "resolved value" would be the class itself)
    LS  [BS reference, 3]  (nested_refs)
The sources start at v = 1, so the FIRST resolution of such a link (constructor or later
assignment / relink) yields no value; the extra operations z1, z2 move a source back to a value
for which the reference skips.  Oracle: while the reference yields no value the parameter keeps
the value it held (default / last mirrored value / value held when it was relinked); as soon as
the source moves to a value for which the reference resolves the parameter mirrors it; override
and relink end the link as for every other kind.

Context-form family CX: the operations  cm<i> (positional mapping)  ci<i> (list of pairs)  cx12 / cm12 (both
parameters by keywords / by one mapping)  cb12 cb21 (mapping for one parameter AND a keyword for the other)
cp12 cp21 (list of pairs AND a keyword)  cd<i> (the same parameter in the mapping and as a keyword: the keyword
wins) open `with t.param.update(...)` in the other calling conventions; histories  [pre] ; c.. ; [post]  with
pre in {-, rl1, rl2, ov2, u1}, post in {u1, u2, ov1, rl2}.  Oracle as for cx: the overridden parameters hold
the plain values inside, and on exit every link that was suspended is re-established (the parameter shows the
source value of that moment and follows the later source updates).

Family RJ (bounded/c08_rj.py): syncs that REJECT the delivered value (source value outside the bounds of the
linked parameter).

Two further families live in bounded/c08_ext.py (see its docstring): RE -- re-entrant syncs (links of
one object that feed each other: t.a <- s.x, t.b <- bind(f, s.x, t.a), chains a -> b -> c, and a user
watcher on a linked parameter that changes the source again while the sync is being delivered) and
CK -- linked parameters declared constant=True (a refused assignment of a plain value / a new
reference must change nothing).

Two more in bounded/c08_nm.py (see its docstring): NF -- bound functions that take another bound / depends
function as an argument, the inner function depending on same-named parameters of two different objects
(positional / keyword / 3 levels / mixed with constants), every source updated in every order; MC -- a
nested_refs parameter linked to a mutable container that is modified in place and assigned again (the same
object or a fresh copy): it must mirror the container's current content, follow the added sources and drop
the removed ones.

Family KW (bounded/c08_kw.py): the POSITION a source enters a reactive expression in (pipeline root, positional
operand, keyword operand -- rx.pipe, method-call keywords, rx.where, bind / depends keywords, operators) and
expressions that RAISE for some operand values and recover: the linked parameter is compared with a plain-Python
model of the expression whenever the model evaluates; a failed evaluation may not poison the link.
"""
import itertools
import logging
import os
import random
import subprocess
import sys
import tempfile
import warnings
from concurrent.futures import ProcessPoolExecutor

from bounded._api import Bounded, REPLAY_HEADER
from bounded import c08_ext
from bounded import c08_rj
from bounded import c08_nm
from bounded import c08_kw

PRELUDE = '''import logging, warnings
import param
warnings.simplefilter('ignore')
param.parameterized.get_logger().setLevel(logging.CRITICAL)
class S(param.Parameterized):
    v = param.Integer(1)
    @param.depends('v')
    def shout(self):
        if self.v < 5:
            raise param.Skip()
        return 3 * self.v
class TN(param.Parameterized):
    p1 = param.Parameter(None, allow_refs=True, nested_refs=True)
    p2 = param.Parameter(None, allow_refs=True, nested_refs=True)
class TF(param.Parameterized):
    p1 = param.Parameter(None, allow_refs=True)
    p2 = param.Parameter(None, allow_refs=True)
def add100(v):
    return v + 100
def add100_raise_skip(v):
    if v < 5:
        raise param.Skip()
    return v + 100
def add100_return_undefined(v):
    return param.parameterized.Undefined if v < 5 else v + 100
def add100_return_skip(v):
    return param.Skip if v < 5 else v + 100
def make_ref(kind, s, o):
    """reference of `kind` over source s (o: the other source, used by kind X only)"""
    if kind == 'P':
        return s.param.v
    if kind == 'B':
        return param.bind(add100, s.param.v)
    if kind == 'D':
        @param.depends(s.param.v)
        def double(v):
            return 2 * v
        return double
    if kind == 'R':
        return s.param.v.rx() + 10
    if kind == 'L':
        return [s.param.v, 3]
    if kind == 'K':
        return {'k': s.param.v}
    if kind == 'U':
        return (s.param.v, param.bind(add100, s.param.v))
    if kind == 'N':
        return [make_ref('D', s, o), make_ref('R', s, o)]
    if kind == 'X':
        return [s.param.v, o.param.v]
    if kind == 'BS':
        return param.bind(add100_raise_skip, s.param.v)
    if kind == 'BU':
        return param.bind(add100_return_undefined, s.param.v)
    if kind == 'BK':
        return param.bind(add100_return_skip, s.param.v)
    if kind == 'DS':
        @param.depends(s.param.v)
        def double_or_skip(v):
            if v < 5:
                raise param.Skip()
            return 2 * v
        return double_or_skip
    if kind == 'MS':
        return s.shout
    if kind == 'LS':
        return [make_ref('BS', s, o), 3]
    raise ValueError(kind)
def t_watchers(t, s):
    """watchers in the tables of source s whose callable belongs to t"""
    n = 0
    for d in s._param__private.watchers.values():
        for lst in d.values():
            for w in lst:
                if getattr(getattr(w.fn, '__self__', None), 'self', None) is t:
                    n += 1
    return n
'''

CONTAINERS = ('L', 'K', 'U', 'N', 'X', 'LS')
SKIPPING = ('BS', 'DS', 'MS', 'BU', 'BK', 'LS')      # kinds that yield no value while the source is < 5
SKIP = object()
ZOPS = ['z1', 'z2']                                   # move a source to a value for which these kinds skip
K1 = ['P', 'B', 'D', 'R', 'L', 'K', 'U', 'N', 'X']
K2 = [None, ('P', 2), ('B', 1), ('L', 2), ('R', 2)]
MODES = ['ctor', 'later', 'mixed']
A1 = [('P', 2), ('L', 1), ('R', 2)]
A2 = [('P', 1), ('L', 2)]
OPS = ['u1', 'u2', 'rl1', 'rl2', 'ov1', 'ov2', 'cx1', 'cx2']
# `with t.param.update(...)` in the other calling conventions (family CX)
CXOPS = ['cm1', 'cm2', 'ci1', 'ci2', 'cx12', 'cm12', 'cb12', 'cb21', 'cp12', 'cp21', 'cd1', 'cd2']
CX_PRE = [(), ('rl1',), ('rl2',), ('ov2',), ('u1',)]
CX_POST = [('u1',), ('u2',), ('ov1',), ('rl2',)]
CX_FORM = {'x': 'keywords', 'm': 'mapping', 'i': 'pairs', 'b': 'mapping+keyword', 'p': 'pairs+keyword',
           'd': 'mapping+same-keyword'}


def ctx_call(form, items):
    """source text of the update(...) call; items: [(parameter index, plain value)]"""
    kw = lambda its: ', '.join('p%d=%d' % it for it in its)
    mp = lambda its: '{%s}' % ', '.join("'p%d': %d" % it for it in its)
    pr = lambda its: '[%s]' % ', '.join("('p%d', %d)" % it for it in its)
    if form == 'x':
        return 't.param.update(%s)' % kw(items)
    if form == 'm':
        return 't.param.update(%s)' % mp(items)
    if form == 'i':
        return 't.param.update(%s)' % pr(items)
    if form == 'b':
        return 't.param.update(%s, %s)' % (mp(items[:1]), kw(items[1:]))
    if form == 'p':
        return 't.param.update(%s, %s)' % (pr(items[:1]), kw(items[1:]))
    if form == 'd':
        return 't.param.update(%s, %s)' % (mp([(items[0][0], items[0][1] - 1000)]), kw(items))
    raise ValueError(form)


def fval(kind, v, vo):
    if kind in SKIPPING:
        if v < 5:
            return SKIP
        return {'BS': v + 100, 'BU': v + 100, 'BK': v + 100, 'DS': 2 * v, 'MS': 3 * v, 'LS': [v + 100, 3]}[kind]
    return {'P': v, 'B': v + 100, 'D': 2 * v, 'R': v + 10, 'L': [v, 3], 'K': {'k': v},
            'U': (v, v + 100), 'N': [2 * v, v + 10], 'X': [v, vo]}[kind]


def has_skip(cfg):
    k1, k2, mode, a1, a2, nested = cfg
    return any(k in SKIPPING for k in (k1, k2[0] if k2 else None, a1[0], a2[0]))


def ops_of(cfg):
    return OPS + ZOPS if has_skip(cfg) else OPS


def srcs_of(link):
    if link is None:
        return set()
    kind, j = link[0], link[1]
    return {1, 2} if kind == 'X' else {j}


def cfg_str(cfg):
    k1, k2, mode, a1, a2, nested = cfg
    return 'k1=%s k2=%s mode=%s a1=%s a2=%s nested=%d' % (
        k1, '-' if k2 is None else '%s@s%d' % k2, mode, '%s@s%d' % a1, '%s@s%d' % a2, nested)


# ------------------------------------------------------------------------------------------
# a case as a list of "statements": (source line(s), python callable on env) built together
# ------------------------------------------------------------------------------------------
class Script:
    """builds the straight-line program of one case together with the shadow model"""

    def __init__(self, cfg):
        self.cfg = cfg
        k1, k2, mode, a1, a2, nested = cfg
        self.v = {1: 1, 2: 1}
        self.link = {1: None, 2: None}       # (kind, src, made) ; made in ctor/assign/restore
        self.plain = {1: None, 2: None}
        self.cur = {1: None, 2: None}        # value each parameter is expected to hold right now
        self.fresh = 10
        self.nref = 0
        self.lines = ["s1 = S(); s2 = S()"]
        T = 'TN' if nested else 'TF'
        r1 = self.ref(k1, 1)
        r2 = self.ref(k2[0], k2[1]) if k2 else None
        if mode == 'ctor':
            args = ['p1=%s' % r1] + (['p2=%s' % r2] if r2 else [])
            self.lines.append("t = %s(%s)" % (T, ', '.join(args)))
            made = ('ctor', 'ctor')
        elif mode == 'later':
            self.lines.append("t = %s()" % T)
            self.lines.append("t.p1 = %s" % r1)
            if r2:
                self.lines.append("t.p2 = %s" % r2)
            made = ('assign', 'assign')
        else:
            self.lines.append("t = %s(p1=%s)" % (T, r1))
            if r2:
                self.lines.append("t.p2 = %s" % r2)
            made = ('ctor', 'assign')
        self.link[1] = self.mklink(k1, 1, made[0])
        if k2:
            self.link[2] = self.mklink(k2[0], k2[1], made[1])
        self.steps = []          # list of (first line index, last line index (excl), checks)

    def mklink(self, kind, j, made):
        """(kind, source, how the link was made[, 'skip-first' when its first resolution yields no value])"""
        if kind in SKIPPING:
            return (kind, j, made, 'skip-first' if fval(kind, self.v[j], self.v[3 - j]) is SKIP else 'resolves-first')
        return (kind, j, made)

    def ref(self, kind, j):
        self.nref += 1
        name = 'r%d' % self.nref
        self.lines.append("%s = make_ref(%r, s%d, s%d)" % (name, kind, j, 3 - j))
        return name

    def expected(self):
        out = {}
        self.holds = set()      # parameters whose link yields no value right now
        for i in (1, 2):
            lk = self.link[i]
            if lk is None:
                out[i] = self.plain[i]
            else:
                out[i] = fval(lk[0], self.v[lk[1]], self.v[3 - lk[1]])
                if out[i] is SKIP:          # no value right now: the parameter keeps what it held
                    out[i] = self.cur[i]
                    self.holds.add(i)
        self.cur = dict(out)
        return out

    def used_sources(self):
        return srcs_of(self.link[1]) | srcs_of(self.link[2])

    def check(self, tag, leak=True):
        """appends a CHECK pseudo-line: (tag, expected p1, expected p2, sources allowed to hold t-watchers)"""
        e = self.expected()
        self.lines.append(('CHECK', tag, e[1], e[2], sorted(self.used_sources()) if leak else None,
                           dict(self.link), tuple(sorted(self.holds))))

    def op(self, name):
        self.fresh += 2
        f1, f2 = self.fresh, self.fresh + 1
        i = int(name[-1])
        if name[0] == 'u':
            self.v[i] = f1
            self.lines.append("s%d.v = %d" % (i, f1))
            self.check(name)
        elif name[:2] == 'rl':
            kind, j = self.cfg[3] if i == 1 else self.cfg[4]
            r = self.ref(kind, j)
            self.lines.append("t.p%d = %s" % (i, r))
            self.link[i] = self.mklink(kind, j, 'assign')
            self.check(name)
        elif name[:2] == 'ov':
            self.lines.append("t.p%d = %d" % (i, f1))
            self.link[i] = None
            self.plain[i] = f1
            self.check(name)
        elif name[0] == 'z':
            self.v[i] = -f1
            self.lines.append("s%d.v = %d" % (i, -f1))
            self.check(name)
        elif name[0] == 'c':
            form, targets = name[1], [int(ch) for ch in name[2:]]
            vals = dict(zip(targets, (-f1, -f2)))
            saved = {j: (self.link[j], self.plain[j]) for j in targets}
            self.lines.append("ctx = " + ctx_call(form, [(j, vals[j]) for j in targets]))
            self.lines.append("ctx.__enter__()")
            for j in targets:
                self.link[j] = None
                self.plain[j] = vals[j]
            self.check(name + ':enter', leak=False)
            self.v[1], self.v[2] = f1, f2
            self.lines.append("s1.v = %d; s2.v = %d" % (f1, f2))
            self.check(name + ':inside', leak=False)
            self.lines.append("ctx.__exit__(None, None, None)")
            for j in targets:
                self.link[j], self.plain[j] = saved[j]
                if self.link[j] is not None:
                    self.link[j] = (self.link[j][0], self.link[j][1], 'restore') + tuple(self.link[j][3:])
            self.check(name + ':exit')
        else:
            raise ValueError(name)


def build(cfg, hist):
    sc = Script(cfg)
    sc.check('init')
    marks = []
    for op in hist:
        sc.op(op)
        marks.append(len(sc.lines))
    return sc, marks


_NS = {}


def namespace():
    if 'ns' not in _NS:
        warnings.simplefilter('ignore')
        ns = {}
        exec(compile(PRELUDE, '<c08 prelude>', 'exec'), ns)
        _NS['ns'] = ns
    return _NS['ns']


_CODE = {}


def run_case(cfg, hist):
    """returns (n value checks, n leak checks, violations)"""
    base = namespace()
    env = dict(base)
    sc, marks = build(cfg, hist)
    viols = []
    nval = nleak = 0
    step = -1
    diverged = {1: False, 2: False}     # a mismatch is reported once; the stale value is not re-reported
    leaked = {1: False, 2: False}       # until the parameter is assigned again (same for a leaked watcher)
    for idx, ln in enumerate(sc.lines):
        if isinstance(ln, tuple):
            _c, tag, e1, e2, allowed, links, holds = ln
            t = env['t']
            if tag[:2] in ('rl', 'ov'):
                diverged[int(tag[2])] = False
            elif tag.endswith(':enter') or tag.endswith(':exit'):
                for ch in tag.split(':')[0][2:]:
                    diverged[int(ch)] = False
            for i, e in ((1, e1), (2, e2)):
                nval += 1
                got = getattr(t, 'p%d' % i)
                if not (got == e and type(got) is type(e)):
                    if not diverged[i]:
                        viols.append(dict(cfg=cfg, hist=hist, upto=idx, tag=tag, kind='mismatch', param=i,
                                          got=repr(got), want=repr(e), link=links[i], links=links,
                                          hold=i in holds))
                    diverged[i] = True
            if allowed is not None:
                for j in (1, 2):
                    nleak += 1
                    n = env['t_watchers'](t, env['s%d' % j])
                    if n and j not in allowed:
                        if not leaked[j]:
                            viols.append(dict(cfg=cfg, hist=hist, upto=idx, tag=tag, kind='leak', param=0, src=j,
                                              got=str(n), want='0', link=None, links=links))
                        leaked[j] = True
                    elif not n:
                        leaked[j] = False
        else:
            code = _CODE.get(ln)
            if code is None:
                code = _CODE[ln] = compile(ln, '<c08 step>', 'exec')
            try:
                exec(code, env)
            except Exception as e:
                viols.append(dict(cfg=cfg, hist=hist, upto=idx, tag='raise', kind='raised', param=0,
                                  got='%s: %s' % (type(e).__name__, str(e)[:80]), want='no exception',
                                  link=None, links=dict(sc.link), line=ln))
                break
    return nval, nleak, viols


def run_chunk(tasks):
    res = []
    for cfg, prefix, k in tasks:
        for tail in itertools.product(ops_of(cfg), repeat=k - len(prefix)):
            h = tuple(prefix) + tail
            nval, nleak, viols = run_case(cfg, h)
            res.append((cfg, h, nval, nleak, viols))
    return res


# ------------------------------------------------------------------------------------------
def step_of(sc_lines, upto):
    """index (0-based) of the history step the CHECK at line `upto` belongs to; -1 = initial"""
    n = -1
    for ln in sc_lines[:upto + 1]:
        if isinstance(ln, tuple) and not ln[1].endswith(':enter') and not ln[1].endswith(':inside'):
            n += 1
    return n - 1


def replay_of(v, clause, witness):
    sc, marks = build(v['cfg'], v['hist'])
    src = REPLAY_HEADER.format(prop='C08', name='replay_c08.py', clause=clause, witness=witness)
    src += PRELUDE
    for idx, ln in enumerate(sc.lines[:v['upto'] + 1]):
        if isinstance(ln, tuple):
            _c, tag, e1, e2, allowed, _links, _holds = ln
            if idx == v['upto']:
                src += "print('after %s: p1 =', repr(t.p1), ' p2 =', repr(t.p2), ' watchers of t on s1/s2:', t_watchers(t, s1), t_watchers(t, s2))\n" % tag
                if v['kind'] == 'mismatch':
                    e = e1 if v['param'] == 1 else e2
                    src += "got = t.p%d\n" % v['param']
                    src += "if not (got == %r and type(got) is type(%r)):\n" % (e, e)
                    msg = ('REPRODUCED: p%d holds %%r, the reference yields no value and p%d held %r' % (v['param'], v['param'], e)
                           if v.get('hold') else
                           'REPRODUCED: p%d holds %%r, the reference resolves to %r' % (v['param'], e))
                    src += "    print(%r %% (got,))\n" % msg
                    src += "    sys.exit(1)\n"
                elif v['kind'] == 'leak':
                    src += "n = t_watchers(t, s%d)\n" % v['src']
                    src += "if n:\n    print('REPRODUCED: s%d is used by no current link of t but keeps %%d watcher(s) of t' %% n)\n    sys.exit(1)\n" % v['src']
            else:
                src += "# check %s: expected p1 == %r, p2 == %r\n" % (tag, e1, e2)
        else:
            if idx == v['upto'] and v['kind'] == 'raised':
                src += "try:\n    %s\nexcept Exception as e:\n    print('REPRODUCED: raised', repr(e))\n    sys.exit(1)\n" % ln
            else:
                src += ln + '\n'
    src += "print('NOT-REPRODUCED')\n"
    return src


MAX_PER_CLAUSE = 24
CONFIRM = True      # scratch mutation harnesses (in-memory patches) switch the confirmation off


REPO_LINE = "sys.path.insert(0, '/repo')\n"
REPO_LINE_ENV = "sys.path.insert(0, __import__('os').environ.get('PYVC_REPO', '/repo'))   # the tree under check\n"


def confirm(src):
    if not CONFIRM:
        return True
    with tempfile.NamedTemporaryFile('w', suffix='.py', delete=False) as f:
        f.write(src)
        path = f.name
    try:
        env = dict(os.environ, PYTHONPATH=os.environ.get('PYVC_REPO', '/repo'),
                   PYVC_REPO=os.environ.get('PYVC_REPO', '/repo'))
        r = subprocess.run([sys.executable, path], env=env, capture_output=True, text=True, timeout=120)
        return r.returncode == 1 and 'REPRODUCED:' in r.stdout
    except Exception:
        return False
    finally:
        os.unlink(path)


def configs():
    out = []
    for k1 in K1:
        for k2 in K2:
            for mode in MODES:
                for a1 in A1:
                    for a2 in A2:
                        out.append((k1, k2, mode, a1, a2, 1))
    # scalar-only configurations with nested_refs=False (relinks restricted to scalar references)
    for k1 in ('P', 'B', 'D', 'R'):
        for k2 in (None, ('P', 2), ('B', 1), ('R', 2)):
            for mode in MODES:
                for a1 in (('P', 2), ('R', 2)):
                    out.append((k1, k2, mode, a1, ('P', 1), 0))
    return out


SK1 = ['BS', 'DS', 'MS', 'BU', 'BK', 'LS', 'P']
SK2 = [None, ('P', 2), ('BS', 2), ('BS', 1)]
SA1 = [('BS', 2), ('P', 2)]
SA2 = [('P', 1), ('BS', 1)]


def skip_configs(tier):
    """configurations of the skip family: at least one reference kind whose resolution can yield no
    value among the initial links / relink targets"""
    out = []
    for k1 in SK1:
        for k2 in (SK2 if tier == 'thorough' else SK2[:3]):
            for mode in MODES:
                if k1 == 'BK' and mode == 'later':
                    continue            # a function returning the class Skip: constructor links only
                for a1 in SA1:
                    for a2 in (SA2 if tier == 'thorough' else SA2[:1]):
                        for nested in ((1, 0) if tier == 'thorough' else (1,)):
                            if not nested and 'LS' in (k1, a1[0], a2[0]):
                                continue
                            c = (k1, k2, mode, a1, a2, nested)
                            if has_skip(c):
                                out.append(c)
    return out


def is_core(cfg):
    k1, k2, mode, a1, a2, nested = cfg
    return nested == 1 and a2 == ('P', 1) and a1 in (('P', 2), ('L', 1)) and k2 in (None, ('P', 2), ('L', 2))


def vclass(v):
    """class of a failing check: clause + shape of the affected link + kind of step that exposed it.
    Container kinds (L, K, U, N, X) form one class, scalar kinds (P, B, D, R) another; a source
    update inside an update(...) context counts as a source update."""
    tag = v['tag']
    if tag[:1] in ('u', 'z') or tag.endswith(':inside'):
        at = 'source-update'
    elif tag.endswith(':enter'):
        at = 'ctx-enter'
    elif tag.endswith(':exit'):
        at = 'ctx-exit'
    if tag[0] == 'c' and tag[1] != 'x' and ':' in tag:
        at += '[%s]' % CX_FORM[tag[1]]        # update(...) called with a mapping / pairs / mixed
    else:
        at = tag.rstrip('12')
    if v['kind'] == 'mismatch':
        clause = 'C08/mirror/value == resolve(reference)'
        if v.get('hold'):
            clause = 'C08/skip/reference yields no value: the parameter keeps the value it held'
        lk = v['link']
        if lk is None:
            desc = 'link=none(plain value expected)'
        elif lk[0] in SKIPPING:
            desc = 'link=%s made=%s' % (lk[3], lk[2])
        else:
            desc = 'link=%s made=%s' % ('container' if lk[0] in CONTAINERS else 'scalar', lk[2])
        return (clause, desc, 'at=' + at)
    if v['kind'] == 'leak':
        return ('C08/override-relink/old sources keep no watcher of the target', 'leak', 'at=' + at)
    return ('C08/operation raises', v['got'].split(':')[0], 'at=' + at)


def _run(tier, seed):
    B = Bounded(
        "C08",
        rule=("two sources, one target with two allow_refs parameters; configurations = reference kind of p1 "
              "{P,B,D,R,L,K,U,N,X} x link of p2 {none, P@s2, B@s1 (shared source), L@s2, R@s2} x link mode "
              "{constructor, later assignment, mixed} x relink targets of p1 {P@s2, L@s1, R@s2} and p2 {P@s1, "
              "L@s2} (nested_refs=True), plus the scalar kinds with nested_refs=False; histories over {u1,u2 "
              "source update, rl1,rl2 relink, ov1,ov2 override with a plain value, cx1,cx2 update(...) "
              "context with source updates inside}; after every step both parameters are compared with the "
              "shadow model and the watcher tables of both sources are scanned for watchers of the target. "
              "Skip family: p1 in {bind / depends function / depends method raising param.Skip, bind returning "
              "Undefined, bind returning Skip (constructor links), [skipping bind, 3], P} while the source is < 5 "
              "(so the FIRST resolution of the link yields no value) x p2 {none, P@s2, skipping bind@s2, "
              "skipping bind@s1} x link mode x relink targets {skipping bind, P}; histories additionally over "
              "{z1, z2: move a source to a value for which the reference skips}. "
              "A case = (configuration, history of maximal length); shorter histories are its prefixes. "
              + c08_ext.RULE + ' ' + c08_rj.RULE + ' ' + c08_nm.RULE + ' ' + c08_kw.RULE),
        bound=("quick: all histories of length <= 2 over 8 operations on the 162 core configurations and a seeded "
               "1/3 of the other 744 + a seeded 1/8 sample of the length-3 histories on the core; skip family: all "
               "histories of length <= 2 over 10 operations on %d configurations" % len(skip_configs('quick'))
               if tier == 'quick' else
               "all histories of length <= 3 over 8 operations on all 906 configurations; length <= 4 on 48 core "
               "configurations (k1 in {P,B,R,L,K,X}, k2 in {none, L@s2}, mode ctor/later, a1 in {P@s2, L@s1}, a2=P@s1); "
               "skip family: all histories of length <= 3 over 10 operations on the %d configurations of the quick "
               "tier, length <= 2 on the other %d (second relink target of p2, shared-source p2, nested_refs=False)"
               % (len(skip_configs('quick')), len(skip_configs('thorough')) - len(skip_configs('quick'))))
        + '; ' + c08_ext.bound_text(tier) + '; ' + c08_rj.bound_text(tier) + '; ' + c08_nm.bound_text(tier) + '; ' + c08_kw.bound_text(tier)
        + '; context forms (CX): %d ways of calling update(...) x pre {-,rl1,rl2,ov2,u1} x post {u1,u2,ov1,rl2} on the '
          '%s' % (len(CXOPS), 'core configurations (pre=-, post = update of the source of each suspended link complete, the rest a seeded 1/24)' if tier == 'quick'
                  else 'core configurations, 4 pre/post shapes on all the others'))
    warnings.simplefilter('ignore')
    cfgs = configs()
    rnd = random.Random(2000 + seed)
    tasks = []
    if tier == 'quick':
        B.exhaustive = False
        for c in cfgs:
            if is_core(c) or rnd.random() < 1 / 3.0:
                for op in OPS:
                    tasks.append((c, (op,), 2))
        core = [(c, (o1, o2), 3) for c in cfgs if is_core(c) for o1 in OPS for o2 in OPS]
        tasks += rnd.sample(core, len(core) // 8)
    else:
        for c in cfgs:
            for op in OPS:
                tasks.append((c, (op,), 3))
            if is_core(c) and c[2] != 'mixed' and c[1] != ('P', 2) and c[0] in ('P', 'B', 'R', 'L', 'K', 'X'):
                for o1 in OPS:
                    for o2 in OPS:
                        tasks.append((c, (o1, o2), 4))
    # skip family: references whose first resolution yields no value (all histories of the stated length)
    scfgs = skip_configs(tier)
    score = set(skip_configs('quick'))
    for c in scfgs:
        for op in ops_of(c):
            tasks.append((c, (op,), 3 if (tier == 'thorough' and c in score) else 2))
    # family CX: `with t.param.update(...)` called with a mapping / pairs / keywords / both mixed
    ncx = 0
    for c in cfgs:
        if tier == 'quick' and not is_core(c):
            continue
        for cx in CXOPS:
            for pre in CX_PRE:
                for post in CX_POST:
                    if tier == 'quick':
                        # complete: no operation before, afterwards an update of the source of each suspended link
                        main = pre == () and post in [('u%s' % ch,) for ch in cx[2:]]
                        if not main and rnd.random() >= 1 / 24.0:
                            continue
                    if tier != 'quick' and not is_core(c) and (pre, post) not in (((), ('u1',)), ((), ('u2',)),
                                                                                 (('rl1',), ('u2',)), (('ov2',), ('u1',))):
                        continue
                    h = pre + (cx,) + post
                    tasks.append((c, h, len(h)))
                    ncx += 1
    B.note('family CX (update contexts called with a mapping / pairs / mixed): %d histories pre;ctx;post' % ncx)
    rnd.shuffle(tasks)
    nchunk = 512
    chunks = [tasks[i::nchunk] for i in range(nchunk)]
    xtasks = c08_ext.tasks(tier, seed)
    if tier == 'quick':
        B.exhaustive = False
    nx = max(1, len(xtasks) // 40)
    xchunks = [xtasks[i::nx] for i in range(nx)]
    rtasks = c08_rj.tasks(tier, seed)
    nr = max(1, len(rtasks) // 400)
    rchunks = [rtasks[i::nr] for i in range(nr)]
    ntasks = c08_nm.tasks(tier, seed)
    rnd.shuffle(ntasks)
    nn = max(1, len(ntasks) // 150)
    nchunks = [ntasks[i::nn] for i in range(nn)]
    B.note('families NF / MC (nested functions, mutable containers): %d histories' % len(ntasks))
    ktasks = c08_kw.tasks(tier, seed)
    rnd.shuffle(ktasks)
    nk = max(1, len(ktasks) // 300)
    kchunks = [ktasks[i::nk] for i in range(nk)]
    B.note('family KW (operand positions of reactive expressions, raising expressions): %d histories' % len(ktasks))
    kallv = []
    nallv = []
    rallv = []
    allv = []
    xallv = []
    samples = []
    with ProcessPoolExecutor(max_workers=min(16, os.cpu_count() or 4)) as ex:
        xfuts = [ex.submit(c08_ext.run_chunk, c) for c in xchunks if c]
        rfuts = [ex.submit(c08_rj.run_chunk, c) for c in rchunks if c]
        nfuts = [ex.submit(c08_nm.run_chunk, c) for c in nchunks if c]
        kfuts = [ex.submit(c08_kw.run_chunk, c) for c in kchunks if c]
        futs = [ex.submit(run_chunk, c) for c in chunks if c]
        for fu in rfuts:
            for key, nval, nleak, _n, viols in fu.result():
                B.case(key=key)
                B.checked('C08/mirror/value == resolve(reference)', nval)
                B.checked('C08/override-relink/old sources keep no watcher of the target', nleak)
                rallv += viols
        for fu in nfuts:
            for key, nval, nleak, _n, viols in fu.result():
                B.case(key=key)
                B.checked('C08/mirror/value == resolve(reference)', nval)
                B.checked('C08/override-relink/old sources keep no watcher of the target', nleak)
                nallv += viols
        for fu in kfuts:
            for key, nval, _nl, _n, viols in fu.result():
                B.case(key=key)
                B.checked(c08_kw.C_MIRROR, nval)
                kallv += viols
        for fu in xfuts:
            for key, nval, nleak, nref, viols in fu.result():
                B.case(key=key)
                B.checked('C08/mirror/value == resolve(reference)', nval)
                B.checked('C08/override-relink/old sources keep no watcher of the target', nleak)
                if nref:
                    B.checked(c08_ext.C_REFUSED, nref)
                xallv += viols
        for fu in futs:
            for cfg, h, nval, nleak, viols in fu.result():
                B.case(key=cfg_str(cfg) + ' hist=' + ','.join(h))
                B.checked('C08/mirror/value == resolve(reference)', nval)
                if has_skip(cfg):
                    B.checked('C08/skip/reference yields no value: the parameter keeps the value it held', nval)
                B.checked('C08/override-relink/old sources keep no watcher of the target', nleak)
                if B.evaluations % 20011 == 1:
                    samples.append((cfg, h))
                allv += viols
    groups = {}
    for v in allv:
        groups.setdefault(vclass(v), []).append(v)

    def cfg_rank(cfg):
        k1, k2, mode, a1, a2, nested = cfg
        k1s, k2s, a1s, a2s = K1 + SK1, K2 + SK2, A1 + SA1, A2 + SA2
        return (k2s.index(k2) if nested else 9, k1s.index(k1), MODES.index(mode), a1s.index(a1), a2s.index(a2),
                1 - nested)
    reports = []
    for key in groups:
        best = None
        for v in groups[key]:
            sc, marks = build(v['cfg'], v['hist'])
            nsteps = 0
            for si, m in enumerate(marks):
                if v['upto'] < m:
                    nsteps = si + 1
                    break
            if v['tag'] == 'init':
                nsteps = 0
            rk = (nsteps, cfg_rank(v['cfg']), [(OPS + ZOPS + CXOPS).index(o) for o in v['hist'][:nsteps]])
            if best is None or rk < best[0]:
                best = (rk, v, nsteps)
        _rk, rep, nsteps = best
        rep = dict(rep, hist=tuple(rep['hist'][:nsteps]))
        clause = key[0]
        what = key[1]
        witness = '%s %s | %s hist=%s param=%s got=%s want=%s' % (
            what, key[2], cfg_str(rep['cfg']), ','.join(rep['hist']) or '-',
            ('p%d' % rep['param']) if rep['param'] else ('s%d' % rep.get('src', 0)), rep['got'], rep['want'])
        reports.append((clause, witness, replay_of(rep, clause, witness), len(groups[key]),
                        'links at the failing check: %r; %d failing cases in this class' % (rep['links'], len(groups[key])),
                        (nsteps, cfg_rank(rep['cfg']))))
    reports += c08_ext.reports(xallv)
    reports += c08_rj.reports(rallv)
    reports += c08_nm.reports(nallv)
    reports += c08_kw.reports(kallv)
    reports.sort(key=lambda r: (r[0], r[5], r[1]))
    per_clause, kept = {}, []
    for r in reports:
        per_clause[r[0]] = per_clause.get(r[0], 0) + 1
        if per_clause[r[0]] <= MAX_PER_CLAUSE:
            kept.append(r)
    with ProcessPoolExecutor(max_workers=8) as ex:
        oks = list(ex.map(confirm, [r[2].replace(REPO_LINE, REPO_LINE_ENV) for r in kept]))
    for (clause, witness, replay, n, detail, _s), ok in zip(kept, oks):
        if not ok:
            B.note('UNCONFIRMED (stand-alone replay did not reproduce, not reported): %s | %s' % (clause, witness))
            continue
        B.violation(clause, witness, detail=detail, replay=replay.replace(REPO_LINE, REPO_LINE_ENV))
        B.violations[-1]['count'] = n
    for clause, n in sorted(per_clause.items()):
        if n > MAX_PER_CLAUSE:
            B.note('%s: %d further witness classes suppressed (cap %d per clause)' % (clause, n - MAX_PER_CLAUSE, MAX_PER_CLAUSE))
    for cfg, h in samples[:5]:
        B.sample({'config': cfg_str(cfg), 'history': list(h)})
    return B.result()


def run(tier, seed):
    """entry point; leaves the warnings filters and param's logger level as it found them"""
    import param
    logger = param.parameterized.get_logger()
    level = logger.level
    with warnings.catch_warnings():
        warnings.simplefilter('ignore')
        try:
            return _run(tier, seed)
        finally:
            logger.setLevel(level)
