"""Helper of the bounded stand-in layer for C08: two further families of histories.

Family RE (re-entrant syncs -- links of ONE object that feed each other)
    one source s (Integer x, y), one target t with three allow_refs parameters a, b, c
        a <- P(s.x) | W(s.x)                                  W = bind(wrap, .)
        b <- P(t.a) | W(t.a) | B2(s.x, t.a) | B2(s.y, t.a) | R(s.x, t.a) | D(s.x, t.a) | L[s.x, t.a]
        c <- nothing | P(t.b) | B2(t.a, t.b) | B2(s.x, t.b)
    (B2 = bind of two references, R = s.param.x.rx().rx.pipe(pair, t.param.a), D = a function with
    @depends(s.param.x, t.param.a), L = list holding both; the second / third reference depends on a
    linked parameter of the SAME object, so one source update is delivered through nested syncs),
    a linked in the constructor or by a later assignment, and a user watcher
        none | clamp@a | clamp@b | clamp@c | bump@a | dclamp@a
    (clamp@p: a watcher on the linked parameter t.p that sets s.x back to 20 when it is above -- the
    source changes again while the sync is being delivered; bump@a: a watcher on t.a that sets
    s.y = s.x + 1000; dclamp@a: the clamp as a @depends('a', watch=True) method of the target).
    History over  ux (s.x = small)  uX (s.x = above the clamp)  uy  uxy (s.param.update(x=big, y=..))
    ova ovb ovc (plain value)  rla (a <- P(s.y))  rlb (b <- B2(s.y, t.a))  rlc (c <- P(t.a)).

Family CK (linked parameter declared constant=True; the link still drives it)
    sources s, u; target t with k (constant=True) and q; k <- P(s.x) | W(s.x) | R1(s.x) | L[s.x, s.y] |
    B2(s.x, s.y); q <- nothing | P(u.x) | W(s.x); link of k made in the constructor or under
    edit_constant; the reference of the refused relink over u (P(u.x), W(u.x), L[u.x, u.y]) or over the
    other parameter of the old source (P(s.y)).
    History over  us usy uu (source updates)  ovk (t.k = plain value)  rlk (t.k = new reference)
    idk (t.k = t.k)  eok / erk (the same two assignments under edit_constant)  ovq.
    Every assignment to k is made under try/except: when it is REFUSED (any exception) nothing may
    change -- the old link keeps driving k, the refused reference's source drives nothing and holds no
    watcher of t; when it is accepted it counts as an override / relink (lenient: the statement does
    not say which assignments a constant parameter refuses).

Oracle (both families, from the statement): after every step each linked parameter equals
resolve(reference) evaluated independently on the CURRENT values of the sources (read from the
source objects, so the effect of a user watcher on a source is taken as it is), each overridden
parameter holds its plain value, and no (object, parameter) that is not a dependency of a current
link carries a watcher that belongs to t.
"""
import itertools
import random

from bounded._api import REPLAY_HEADER

PRELUDE = '''import logging, warnings
import param
warnings.simplefilter('ignore')
param.parameterized.get_logger().setLevel(logging.CRITICAL)
class S(param.Parameterized):
    x = param.Integer(1)
    y = param.Integer(2)
class T3(param.Parameterized):
    a = param.Parameter(None, allow_refs=True, nested_refs=True)
    b = param.Parameter(None, allow_refs=True, nested_refs=True)
    c = param.Parameter(None, allow_refs=True, nested_refs=True)
    src = None
class T3D(T3):
    @param.depends('a', watch=True)
    def _clamp(self):
        if self.src is not None and self.src.x > 20:
            self.src.x = 20
class TK(param.Parameterized):
    k = param.Parameter(None, allow_refs=True, nested_refs=True, constant=True)
    q = param.Parameter(None, allow_refs=True, nested_refs=True)
def wrap(v):
    return ('w', v)
def pair(u, v):
    return ('p', u, v)
def mk(kind, *ps):
    """reference of `kind` over the Parameter objects ps"""
    if kind == 'P':
        return ps[0]
    if kind == 'W':
        return param.bind(wrap, ps[0])
    if kind == 'B2':
        return param.bind(pair, ps[0], ps[1])
    if kind == 'R':
        return ps[0].rx().rx.pipe(pair, ps[1])
    if kind == 'R1':
        return ps[0].rx().rx.pipe(wrap)
    if kind == 'D':
        @param.depends(*ps)
        def dep(u, v):
            return ('d', u, v)
        return dep
    if kind == 'L':
        return list(ps)
    raise ValueError(kind)
def clamp(t, s, name):
    """user watcher on the (linked) parameter t.<name>: clamps the source"""
    def clamp_source(event):
        if s.x > 20:
            s.x = 20
    t.param.watch(clamp_source, name)
def bump(t, s, name):
    def bump_source(event):
        s.y = s.x + 1000
    t.param.watch(bump_source, name)
def tw(t, o):
    """names of the parameters of o whose watcher table holds a watcher that belongs to t"""
    out = []
    for pname, d in o._param__private.watchers.items():
        for lst in d.values():
            for w in lst:
                if getattr(getattr(w.fn, '__self__', None), 'self', None) is t:
                    out.append(pname)
    return sorted(set(out))
'''

FEXPR = {'P': '{0}', 'W': "('w', {0})", 'R1': "('w', {0})", 'B2': "('p', {0}, {1})", 'R': "('p', {0}, {1})",
         'D': "('d', {0}, {1})", 'L': "[{0}, {1}]"}

C_MIRROR = 'C08/mirror/value == resolve(reference)'
C_LEAK = 'C08/override-relink/old sources keep no watcher of the target'
C_REFUSED = 'C08/refused-assignment/nothing changes: the old link keeps driving, the refused reference drives nothing'
C_RAISE = 'C08/operation raises'


def lk(kind, *atoms):
    return (kind, tuple(atoms))


def lk_str(link):
    if link is None:
        return '-'
    return '%s(%s)' % (link[0], ','.join(link[1]))


def lk_src(link):
    return "mk(%r, %s)" % (link[0], ', '.join('%s.param.%s' % tuple(a.split('.')) for a in link[1]))


# ------------------------------------------------------------------------------------------
# configurations
# ------------------------------------------------------------------------------------------
RE_KA = [lk('P', 's.x'), lk('W', 's.x')]
RE_KB = [lk('B2', 's.x', 't.a'), lk('P', 't.a'), lk('W', 't.a'), lk('B2', 's.y', 't.a'), lk('R', 's.x', 't.a'),
         lk('D', 's.x', 't.a'), lk('L', 's.x', 't.a')]
RE_KC = [None, lk('P', 't.b'), lk('B2', 't.a', 't.b'), lk('B2', 's.x', 't.b')]
RE_MODES = ['ctor', 'later']
RE_W = [None, ('clamp', 'a'), ('clamp', 'b'), ('clamp', 'c'), ('bump', 'a'), ('dclamp', 'a')]
RE_RL = {'a': lk('P', 's.y'), 'b': lk('B2', 's.y', 't.a'), 'c': lk('P', 't.a')}
RE_OPS = ['ux', 'uX', 'uy', 'uxy', 'ova', 'ovb', 'ovc', 'rla', 'rlb', 'rlc']

CK_KK = [lk('P', 's.x'), lk('W', 's.x'), lk('R1', 's.x'), lk('L', 's.x', 's.y'), lk('B2', 's.x', 's.y')]
CK_KQ = [None, lk('P', 'u.x'), lk('W', 's.x')]
CK_MODES = ['ctor', 'edit']
CK_RK = [lk('P', 'u.x'), lk('W', 'u.x'), lk('L', 'u.x', 'u.y'), lk('P', 's.y')]
CK_OPS = ['us', 'usy', 'uu', 'ovk', 'rlk', 'idk', 'eok', 'erk', 'ovq']


def re_configs():
    out = []
    for ka in RE_KA:
        for kb in RE_KB:
            for kc in RE_KC:
                for mode in RE_MODES:
                    for w in RE_W:
                        if w is not None and w[1] == 'c' and kc is None:
                            continue
                        out.append(('RE', ka, kb, kc, mode, w))
    return out


def ck_configs():
    return [('CK', kk, kq, mode, rk) for kk in CK_KK for kq in CK_KQ for mode in CK_MODES for rk in CK_RK]


def ops_of(cfg):
    if cfg[0] == 'CK':
        return CK_OPS
    ops = list(RE_OPS)
    if cfg[3] is None:
        ops = [o for o in ops if o not in ('ovc', 'rlc')]
    if cfg[5] is None or cfg[5][0] == 'bump':
        ops.remove('uX')            # without a clamp a big value is just another value
    return ops


def is_core(cfg):
    if cfg[0] == 'RE':
        _f, ka, kb, kc, mode, w = cfg
        return (ka == RE_KA[0] and kb in RE_KB[:2] and kc in (None, RE_KC[1])
                and w in (None, ('clamp', 'a')))
    _f, kk, kq, mode, rk = cfg
    return kk == CK_KK[0] and kq in CK_KQ[:2] and rk in CK_RK[:2]


def cfg_str(cfg):
    if cfg[0] == 'RE':
        _f, ka, kb, kc, mode, w = cfg
        return 'fam=reentrant a=%s b=%s c=%s mode=%s watcher=%s' % (
            lk_str(ka), lk_str(kb), lk_str(kc), mode, '-' if w is None else '%s@%s' % w)
    _f, kk, kq, mode, rk = cfg
    return 'fam=constant k=%s q=%s mode=%s newref=%s' % (lk_str(kk), lk_str(kq), mode, lk_str(rk))


def cfg_rank(cfg):
    if cfg[0] == 'RE':
        _f, ka, kb, kc, mode, w = cfg
        return (0, RE_KC.index(kc), RE_W.index(w), RE_KB.index(kb), RE_KA.index(ka), RE_MODES.index(mode))
    _f, kk, kq, mode, rk = cfg
    return (1, CK_KQ.index(kq), CK_KK.index(kk), CK_RK.index(rk), CK_MODES.index(mode), 0)


# ------------------------------------------------------------------------------------------
# script + shadow model, run in lockstep (the outcome accepted / refused of an assignment to the
# constant parameter is observed, recorded and replayed)
# ------------------------------------------------------------------------------------------
class Abort(Exception):
    pass


_CODE = {}


def _code(src, mode='exec'):
    c = _CODE.get((src, mode))
    if c is None:
        c = _CODE[(src, mode)] = compile(src, '<c08x step>', mode)
    return c


class XScript:
    def __init__(self, cfg, env=None, outcomes=None):
        self.cfg = cfg
        self.env = env
        self.replaying = list(outcomes) if outcomes is not None else None
        self.outcomes = []
        self.lines = []
        self.viols = []
        self.nval = self.nleak = self.nref = 0
        self.fresh = 0
        self.nsteps = 0
        self.refused_seen = False
        self.diverged = {}
        self.leaked = {}
        self.hist = ()
        if cfg[0] == 'RE':
            self.names = ('a', 'b', 'c')
            self.objs = ('s', 't')
        else:
            self.names = ('k', 'q')
            self.objs = ('s', 'u')
        self.link = {n: None for n in self.names}
        self.plain = {n: None for n in self.names}
        self.setup()

    # -- emitting -----------------------------------------------------------------------
    def emit(self, src):
        self.lines.append(src)
        if self.env is not None:
            try:
                exec(_code(src), self.env)
            except Exception as e:
                self.viols.append(dict(cfg=self.cfg, hist=self.hist, nsteps=self.nsteps, tag='raise', kind='raised',
                                       param=None, got='%s: %s' % (type(e).__name__, str(e)[:80]),
                                       want='no exception', link=None, outcomes=tuple(self.outcomes),
                                       refused=self.refused_seen, nlines=len(self.lines)))
                raise Abort()

    def attempt(self, stmts):
        """assignment to the constant parameter: accepted or refused (observed at run time)"""
        body = ''.join('    %s\n' % s for s in stmts)
        src = "try:\n%s    refused = False\nexcept Exception as exc:\n    refused = repr(exc)\n" % body
        self.lines.append(src)
        if self.env is not None:
            exec(_code(src), self.env)
            r = bool(self.env['refused'])
        else:
            r = self.replaying.pop(0)
        self.outcomes.append(r)
        if r:
            self.refused_seen = True
        return r

    # -- expectations -------------------------------------------------------------------
    def expr(self, name):
        link = self.link[name]
        if link is None:
            return repr(self.plain[name])
        args = []
        for atom in link[1]:
            o, p = atom.split('.')
            args.append('(%s)' % self.expr(p) if o == 't' and self.cfg[0] == 'RE' else atom)
        return FEXPR[link[0]].format(*args)

    def allowed(self):
        out = {o: set() for o in self.objs}
        for n in self.names:
            if self.link[n] is not None:
                for atom in self.link[n][1]:
                    o, p = atom.split('.')
                    out[o].add(p)
        return {o: sorted(v) for o, v in out.items()}

    def check(self, tag, reset=()):
        exprs = {n: self.expr(n) for n in self.names}
        allowed = self.allowed()
        links = dict(self.link)
        self.lines.append(('CHECK', tag, exprs, allowed, links))
        for n in reset:
            self.diverged[n] = False
        if self.env is None:
            return
        t = self.env['t']
        if self.refused_seen:
            self.nref += len(self.names) + len(self.objs)
        for n in self.names:
            self.nval += 1
            got = getattr(t, n)
            want = eval(_code(exprs[n], 'eval'), self.env)
            if not (got == want and type(got) is type(want)):
                if not self.diverged.get(n):
                    self.viols.append(dict(cfg=self.cfg, hist=self.hist, nsteps=self.nsteps, tag=tag, kind='mismatch',
                                           param=n, got=repr(got), want=repr(want), link=links[n],
                                           outcomes=tuple(self.outcomes), refused=self.refused_seen,
                                           nlines=len(self.lines)))
                self.diverged[n] = True
        for o in self.objs:
            self.nleak += 1
            extra = [p for p in self.env['tw'](t, self.env[o]) if p not in allowed[o]]
            if extra:
                if not self.leaked.get(o):
                    self.viols.append(dict(cfg=self.cfg, hist=self.hist, nsteps=self.nsteps, tag=tag, kind='leak',
                                           param=None, src=o, got='%s.%s' % (o, '+'.join(extra)), want='none',
                                           link=None, outcomes=tuple(self.outcomes), refused=self.refused_seen,
                                           nlines=len(self.lines)))
                self.leaked[o] = True
            else:
                self.leaked[o] = False

    # -- the two families ---------------------------------------------------------------
    def setup(self):
        cfg = self.cfg
        if cfg[0] == 'RE':
            _f, ka, kb, kc, mode, w = cfg
            T = 'T3D' if (w and w[0] == 'dclamp') else 'T3'
            self.emit("s = S()")
            if mode == 'ctor':
                self.emit("t = %s(a=%s)" % (T, lk_src(ka)))
            else:
                self.emit("t = %s()" % T)
                self.emit("t.a = %s" % lk_src(ka))
            self.link['a'] = ka
            self.emit("t.b = %s" % lk_src(kb))
            self.link['b'] = kb
            if kc is not None:
                self.emit("t.c = %s" % lk_src(kc))
                self.link['c'] = kc
            if w is not None:
                if w[0] == 'dclamp':
                    self.emit("t.src = s")
                else:
                    self.emit("%s(t, s, %r)" % w)
        else:
            _f, kk, kq, mode, rk = cfg
            self.emit("s = S(); u = S(x=7, y=8)")
            if mode == 'ctor':
                self.emit("t = TK(k=%s)" % lk_src(kk))
            else:
                self.emit("t = TK()")
                self.emit("with param.edit_constant(t):\n    t.k = %s" % lk_src(kk))
            self.link['k'] = kk
            if kq is not None:
                self.emit("t.q = %s" % lk_src(kq))
                self.link['q'] = kq
        self.check('init')

    def op(self, name):
        self.nsteps += 1
        self.fresh += 1
        n = self.fresh
        if self.cfg[0] == 'RE':
            if name == 'ux':
                self.emit("s.x = %d" % (2 + n))
                self.check(name)
            elif name == 'uX':
                self.emit("s.x = %d" % (50 + n))
                self.check(name)
            elif name == 'uy':
                self.emit("s.y = %d" % (200 + n))
                self.check(name)
            elif name == 'uxy':
                self.emit("s.param.update(x=%d, y=%d)" % (60 + n, 300 + n))
                self.check(name)
            elif name[:2] == 'ov':
                p = name[2]
                self.emit("t.%s = ('plain', %d)" % (p, n))
                self.link[p] = None
                self.plain[p] = ('plain', n)
                self.check(name, reset=(p,))
            elif name[:2] == 'rl':
                p = name[2]
                self.emit("t.%s = %s" % (p, lk_src(RE_RL[p])))
                self.link[p] = RE_RL[p]
                self.check(name, reset=(p,))
            else:
                raise ValueError(name)
            return
        rk = self.cfg[4]
        if name == 'us':
            self.emit("s.x = %d" % (10 + n))
            self.check(name)
        elif name == 'usy':
            self.emit("s.y = %d" % (30 + n))
            self.check(name)
        elif name == 'uu':
            self.emit("u.param.update(x=%d, y=%d)" % (70 + n, 90 + n))
            self.check(name)
        elif name == 'ovq':
            self.emit("t.q = ('plain', %d)" % n)
            self.link['q'] = None
            self.plain['q'] = ('plain', n)
            self.check(name, reset=('q',))
        elif name in ('ovk', 'eok'):
            stmt = "t.k = ('plain', %d)" % n
            r = self.attempt([stmt] if name == 'ovk' else ["with param.edit_constant(t):", "    " + stmt])
            if not r:
                self.link['k'] = None
                self.plain['k'] = ('plain', n)
            self.check(name + (':refused' if r else ':accepted'), reset=() if r else ('k',))
        elif name in ('rlk', 'erk'):
            stmt = "t.k = %s" % lk_src(rk)
            r = self.attempt([stmt] if name == 'rlk' else ["with param.edit_constant(t):", "    " + stmt])
            if not r:
                self.link['k'] = rk
            self.check(name + (':refused' if r else ':accepted'), reset=() if r else ('k',))
        elif name == 'idk':
            r = self.attempt(["held%d = t.k" % n, "t.k = held%d" % n])
            if not r:
                self.link['k'] = None
                self.plain['k'] = _Held(n)
            self.check(name + (':refused' if r else ':accepted'), reset=() if r else ('k',))
        else:
            raise ValueError(name)


class _Held:
    """plain value of k after `t.k = t.k`: whatever it held (the script keeps it in the variable held<n>)"""
    def __init__(self, n):
        self.n = n

    def __repr__(self):
        return 'held%d' % self.n

_NS = {}


def namespace():
    if 'ns' not in _NS:
        ns = {}
        exec(compile(PRELUDE, '<c08x prelude>', 'exec'), ns)
        _NS['ns'] = ns
    return _NS['ns']


def run_case(cfg, hist):
    env = dict(namespace())
    try:
        sc = XScript(cfg, env=env)
        sc.hist = hist
        for o in hist:
            sc.op(o)
    except Abort:
        pass
    return sc.nval, sc.nleak, sc.nref, sc.viols


def run_chunk(tasks):
    res = []
    for cfg, hist in tasks:
        nval, nleak, nref, viols = run_case(cfg, hist)
        res.append((cfg_str(cfg) + ' hist=' + ','.join(hist), nval, nleak, nref, viols))
    return res


# ------------------------------------------------------------------------------------------
def tasks(tier, seed):
    """list of (cfg, history of maximal length); shorter histories are its prefixes"""
    rnd = random.Random(8800 + seed)
    out = []
    for cfg in re_configs() + ck_configs():
        ops = ops_of(cfg)
        h2 = list(itertools.product(ops, repeat=2))
        if tier == 'quick':
            if is_core(cfg):
                out += [(cfg, h) for h in h2]
            else:
                frac = 1 / 40.0 if cfg[0] == 'RE' else 1 / 10.0
                out += [(cfg, h) for h in h2 if rnd.random() < frac]
        else:
            if is_core(cfg):
                out += [(cfg, h) for h in itertools.product(ops, repeat=3)]
            else:
                out += [(cfg, h) for h in h2]
    return out


def bound_text(tier):
    nre, nck = len(re_configs()), len(ck_configs())
    ncre = sum(1 for c in re_configs() if is_core(c))
    ncck = sum(1 for c in ck_configs() if is_core(c))
    if tier == 'quick':
        return ("re-entrant family: all histories of length <= 2 on %d core configurations, a seeded 1/40 of the "
                "length-2 histories of the other %d; constant family: all histories of length <= 2 on %d core "
                "configurations, a seeded 1/10 of those of the other %d" % (ncre, nre - ncre, ncck, nck - ncck))
    return ("re-entrant family: all histories of length <= 2 on %d configurations, <= 3 on the %d core ones; constant "
            "family: all histories of length <= 2 on %d configurations, <= 3 on the %d core ones" % (nre, ncre, nck, ncck))


RULE = ("Re-entrant family: one source, one target with three linked parameters where b's / c's reference depends on "
        "the linked parameter a / b of the same object (a {P,W}(s.x) x b {B2(s.x,t.a), P(t.a), W(t.a), B2(s.y,t.a), "
        "rx pipe, depends function, list} x c {none, P(t.b), B2(t.a,t.b), B2(s.x,t.b)} x a linked in constructor / "
        "later) x user watcher {none, clamp of s.x on a / b / c, bump of s.y on a, clamp as depends(watch=True) "
        "method}; histories over {ux,uX,uy,uxy source updates, ova,ovb,ovc plain value, rla,rlb,rlc relink}. "
        "Constant family: k constant=True linked to {P,W,rx pipe,list,B2} over s x q {none, P(u.x), W(s.x)} x link "
        "made in constructor / under edit_constant x reference of the attempted relink {P(u.x), W(u.x), [u.x,u.y], "
        "P(s.y)}; histories over {us,usy,uu source updates, ovk plain value (refused), rlk new reference (refused), "
        "idk t.k = t.k, eok/erk the same under edit_constant, ovq}; a refused assignment must change nothing")


# ------------------------------------------------------------------------------------------
def vclass(v):
    cfg = v['cfg']
    fam = 'reentrant' if cfg[0] == 'RE' else 'constant'
    tag = v['tag']
    at = tag
    if tag[:1] == 'u':
        at = 'source-update'
    elif tag[:2] in ('ov', 'rl') and cfg[0] == 'RE':
        at = tag[:2]
    if cfg[0] == 'RE':
        extra = 'user-watcher=%d' % int(cfg[5] is not None)
    else:
        extra = 'after-refused=%d' % int(bool(v['refused']))
    if v['kind'] == 'mismatch':
        clause = C_REFUSED if (cfg[0] == 'CK' and v['refused']) else C_MIRROR
        lkd = v['link']
        if lkd is None:
            desc = 'link=none(plain value expected)'
        elif cfg[0] == 'RE':
            desc = 'link=%s' % ('over-own-linked-parameter' if any(a[0] == 't' for a in lkd[1]) else 'over-source')
        else:
            desc = 'link=%s' % ('container' if lkd[0] == 'L' else 'scalar')
        return (clause, 'fam=%s %s %s' % (fam, desc, extra), 'at=' + at)
    if v['kind'] == 'leak':
        clause = C_REFUSED if (cfg[0] == 'CK' and v['refused']) else C_LEAK
        return (clause, 'fam=%s leak %s' % (fam, extra), 'at=' + at)
    return (C_RAISE, 'fam=%s %s %s' % (fam, v['got'].split(':')[0], extra), 'at=' + at)


def replay_of(v, clause, witness):
    sc = XScript(v['cfg'], env=None, outcomes=v['outcomes'] + (False,) * 4)
    try:
        for o in v['hist'][:v['nsteps']]:
            sc.op(o)
    except Abort:
        pass
    lines = sc.lines[:v['nlines']]
    src = REPLAY_HEADER.format(prop='C08', name='replay_c08.py', clause=clause, witness=witness)
    src += PRELUDE
    objs = sc.objs
    for idx, ln in enumerate(lines):
        last = idx == len(lines) - 1
        if isinstance(ln, tuple):
            _c, tag, exprs, allowed, _links = ln
            if not last:
                src += "# check %s: expected %s\n" % (tag, ', '.join('%s == %s' % (n, exprs[n]) for n in sc.names))
                continue
            src += "print('after %s:', %s, ' watchers of t on', %s)\n" % (
                tag, ', '.join("'%s =', repr(t.%s)" % (n, n) for n in sc.names),
                ', '.join("'%s:', tw(t, %s)" % (o, o) for o in objs))
            if v['kind'] == 'mismatch':
                n = v['param']
                src += "got = t.%s\nwant = %s      # resolve(reference) on the current sources / the plain value\n" % (n, exprs[n])
                src += "if not (got == want and type(got) is type(want)):\n"
                src += "    print('REPRODUCED: %s holds %%r, expected %%r' %% (got, want))\n    sys.exit(1)\n" % n
            elif v['kind'] == 'leak':
                o = v['src']
                src += "extra = [p for p in tw(t, %s) if p not in %r]\n" % (o, allowed[o])
                src += ("if extra:\n    print('REPRODUCED: %s.%%s is used by no current link of t but carries a watcher of t' "
                        "%% '+'.join(extra))\n    sys.exit(1)\n" % o)
        else:
            if last and v['kind'] == 'raised':
                body = ''.join('    %s\n' % s for s in ln.split('\n'))
                src += "try:\n%sexcept Exception as e:\n    print('REPRODUCED: raised', repr(e))\n    sys.exit(1)\n" % body
            elif ln.startswith('try:'):
                src += ln + "print('assignment', ('REFUSED: ' + refused) if refused else 'accepted')\n"
            else:
                src += ln + '\n'
    src += "print('NOT-REPRODUCED')\n"
    return src


def reports(allv):
    """one report per class of failing checks: (clause, witness, replay, count, detail, sortkey)"""
    groups = {}
    for v in allv:
        groups.setdefault(vclass(v), []).append(v)
    out = []
    for key, vs in groups.items():
        best = None
        for v in vs:
            ops = RE_OPS if v['cfg'][0] == 'RE' else CK_OPS
            rk = (v['nsteps'], cfg_rank(v['cfg']), [ops.index(o) for o in v['hist'][:v['nsteps']]])
            if best is None or rk < best[0]:
                best = (rk, v)
        rk, rep = best
        clause = key[0]
        witness = '%s %s | %s hist=%s %sgot=%s want=%s' % (
            key[1], key[2], cfg_str(rep['cfg']), ','.join(rep['hist'][:rep['nsteps']]) or '-',
            ('param=%s ' % rep['param']) if rep['param'] else '', rep['got'], rep['want'])
        out.append((clause, witness, replay_of(rep, clause, witness), len(vs),
                    'outcomes of the assignments to the constant parameter (True = refused): %r; %d failing cases in '
                    'this class' % (list(rep['outcomes']), len(vs)), (10 + rk[0], rk[1])))
    return out
