"""Helper of the bounded stand-in layer for C08: family KW -- operand POSITIONS of reactive expressions and
expressions that RAISE for some operand values and recover.

    three sources a, b, c (class S, untyped Parameter v = 1, 2, 3), target t with
        p = Parameter(allow_refs=True)   linked to an expression over (A, B, C) = (a.v, b.v, c.v)
        q = Parameter(allow_refs=True)   nothing | P(b.v) | P(c.v)
    Expression forms (the position every source enters the expression in is the dimension; f3(u, v, w) builds the
    tuple ('f', u, v, w) and raises ValueError when an operand is the string 'bad'):
        PK   A.rx.pipe(f3, v=B, w=C)              root, keyword, keyword
        PP   A.rx.pipe(f3, B, C)                  root, positional, positional
        PM   A.rx.pipe(f3, B, w=C)                root, positional, keyword
        XK   A.rx().rx.pipe(f3, v=B.rx(), w=C)    keyword operand that is itself an expression
        MK   rx('{u:d}|{v:d}|{w:d}').format(u=A, v=B, w=C)         method call, keywords only
        MP   rx('{0:d}|{1:d}|{2:d}').format(A, B, C)              method call, positional
        MM   rx('{0:d}|{v:d}|{w:d}').format(A, v=B, w=C)          method call, mixed
        MT   d.v.rx().format(u=A, v=B, w=C)      the template '{w:d}/{v:d}/{u:d}' held by a fourth source d
        WK   A.rx().rx.where(x=B, y=C)            WP   A.rx().rx.where(B, C)         (B if A else C)
        BK   bind(f3, A, v=B, w=C)                BKK  bind(f3, u=A, v=B, w=C)       RBK  rx(bind(f3, u=A, v=B, w=C))
        DK   depends(u=A, v=B, w=C)(f3)
        OP   A.rx() / B.rx() + C.rx()             OR   12 / A.rx() + B.rx() * C.rx()  (operators: root / operands)
    link of p made in the constructor or by a later assignment.
    History over
        uA uB uC   source update to a fresh valid integer (2, 3, 4, ...)
        xA xB xC   source update to 'bad'  (f3 / the format specification / the arithmetic raise)
        zA zB zC   source update to 0      (division raises; `where` takes the other branch; harmless elsewhere)
        ovp        plain value             rlp   p <- the same form over the rotated sources (B, C, A)

Oracle (from the statement; a plain-Python model of every form evaluated on the CURRENT source values):
    * while the model evaluates, a linked p equals the model value -- whichever operand position the updated
      source has; while the model raises there is no resolved value and nothing is claimed about p;
      as soon as the sources are back at values for which the expression evaluates, p mirrors it again
      (a failed evaluation may not poison the link), and that update must not raise;
    * an update may raise only if afterwards some current link of t has no value (its model raises);
    * q follows its own source throughout; lenient: when an update raised, a link over the very source that was
      updated may have been starved (new or earlier value) until the next update of that source that changes its value and does not raise;
    * after `ovp` p keeps the plain value; a relink that raises (the new expression has no value yet) leaves p
      unspecified for the rest of the history.
"""
import itertools
import random

from bounded._api import REPLAY_HEADER

C_MIRROR = 'C08/operand-positions/value == model(expression) whenever the expression evaluates'
C_RAISE = 'C08/operand-positions/update to values for which every link evaluates does not raise'
C_OVER = 'C08/operand-positions/overridden parameter keeps the plain value'

HARNESS_SRC = r'''import logging, warnings
import param
C_MIRROR = '@M@'
C_RAISE = '@R@'
C_OVER = '@O@'
warnings.simplefilter('ignore')
param.parameterized.get_logger().setLevel(logging.CRITICAL + 1)

class S(param.Parameterized):
    v = param.Parameter(1)
class T(param.Parameterized):
    p = param.Parameter(None, allow_refs=True)
    q = param.Parameter(None, allow_refs=True)
def f3(u, v, w):
    if 'bad' in (u, v, w):
        raise ValueError('f3 cannot take %r' % ((u, v, w),))
    return ('f', u, v, w)
TPL = {'MK': '{u:d}|{v:d}|{w:d}', 'MP': '{0:d}|{1:d}|{2:d}', 'MM': '{0:d}|{v:d}|{w:d}', 'MT': '{w:d}/{v:d}/{u:d}'}
def mk(form, A, B, C, D):
    """the reference of `form` over the Parameter objects A, B, C (D: the source holding the template of MT)"""
    bind, depends, rx = param.bind, param.depends, param.rx
    if form == 'PK':
        return A.rx.pipe(f3, v=B, w=C)
    if form == 'PP':
        return A.rx.pipe(f3, B, C)
    if form == 'PM':
        return A.rx.pipe(f3, B, w=C)
    if form == 'XK':
        return A.rx().rx.pipe(f3, v=B.rx(), w=C)
    if form == 'MK':
        return rx(TPL['MK']).format(u=A, v=B, w=C)
    if form == 'MP':
        return rx(TPL['MP']).format(A, B, C)
    if form == 'MM':
        return rx(TPL['MM']).format(A, v=B, w=C)
    if form == 'MT':
        return D.rx().format(u=A, v=B, w=C)
    if form == 'WK':
        return A.rx().rx.where(x=B, y=C)
    if form == 'WP':
        return A.rx().rx.where(B, C)
    if form == 'BK':
        return bind(f3, A, v=B, w=C)
    if form == 'BKK':
        return bind(f3, u=A, v=B, w=C)
    if form == 'RBK':
        return rx(bind(f3, u=A, v=B, w=C))
    if form == 'DK':
        return depends(u=A, v=B, w=C)(f3)
    if form == 'OP':
        return A.rx() / B.rx() + C.rx()
    if form == 'OR':
        return 12 / A.rx() + B.rx() * C.rx()
    raise ValueError(form)
def model(form, a, b, c):
    """plain-Python value of the form for the source values a, b, c (raises when the expression has no value)"""
    if form in ('PK', 'PP', 'PM', 'XK', 'BK', 'BKK', 'RBK', 'DK'):
        return f3(a, b, c)
    if form == 'MK' or form == 'MT':
        return TPL[form].format(u=a, v=b, w=c)
    if form == 'MP':
        return TPL[form].format(a, b, c)
    if form == 'MM':
        return TPL[form].format(a, v=b, w=c)
    if form in ('WK', 'WP'):
        return b if a else c
    if form == 'OP':
        return a / b + c
    if form == 'OR':
        return 12 / a + b * c
    raise ValueError(form)
def same(x, y):
    return type(x) is type(y) and x == y

def run_kw(cfg, hist, verbose=False):
    """-> (number of value checks, violations)"""
    form, mode, qk = cfg
    a, b, c, d = S(), S(v=2), S(v=3), S(v=TPL['MT'])
    src = {'A': a, 'B': b, 'C': c}
    order = ['A', 'B', 'C']                       # sources of p's expression, in operand order
    qsrc = {'-': None, 'PB': 'B', 'PC': 'C'}[qk]
    def ref():
        return mk(form, src[order[0]].param.v, src[order[1]].param.v, src[order[2]].param.v, d.param.v)
    viols, nval = [], 0
    kw = {}
    if qsrc:
        kw['q'] = src[qsrc].param.v
    if mode == 'ctor':
        t = T(p=ref(), **kw)
    else:
        t = T()
        t.p = ref()
        if qsrc:
            t.q = src[qsrc].param.v
    pstate = ['link']                             # link | plain | unknown
    plain = [None]
    starved = set()                               # sources whose last update raised
    fresh = [1]
    def check(step, tag, raised, upd):
        nonlocal nval
        vals = [src[k].v for k in order]
        undefined = False
        if pstate[0] == 'link':
            nval += 1
            try:
                want = model(form, *vals)
            except Exception as e:
                undefined = True
                want = None
            if not undefined and not same(t.p, want):
                viols.append(dict(kind='mismatch', clause=C_MIRROR, step=step, tag=tag, param='p',
                                  got=repr(t.p), want=repr(want), pos=position(upd), after_error=bool(had_error[0])))
        elif pstate[0] == 'plain':
            nval += 1
            if not same(t.p, plain[0]):
                viols.append(dict(kind='override', clause=C_OVER, step=step, tag=tag, param='p',
                                  got=repr(t.p), want=repr(plain[0]), pos=position(upd), after_error=bool(had_error[0])))
        if qsrc and qsrc not in starved:
            nval += 1
            if not same(t.q, src[qsrc].v):
                viols.append(dict(kind='mismatch', clause=C_MIRROR, step=step, tag=tag, param='q',
                                  got=repr(t.q), want=repr(src[qsrc].v), pos='other-link', after_error=bool(had_error[0])))
        if raised is not None and not undefined and pstate[0] != 'unknown':
            viols.append(dict(kind='raise', clause=C_RAISE, step=step, tag=tag, param='p',
                              got=raised, want='no exception', pos=position(upd), after_error=bool(had_error[0])))
        if undefined:
            had_error[0] = True
    def position(upd):
        if upd is None or pstate[0] != 'link':
            return 'none'
        i = order.index(upd)
        if form in ('MK', 'MT', 'BKK', 'RBK', 'DK'):
            return 'keyword'
        if form in ('MP',):
            return 'positional'
        if form in ('OP', 'OR'):
            return ['root', 'operand', 'operand'][i]
        if form in ('MM', 'BK'):
            return ['positional', 'keyword', 'keyword'][i]
        return {'PK': ['root', 'keyword', 'keyword'], 'PP': ['root', 'positional', 'positional'],
                'PM': ['root', 'positional', 'keyword'], 'XK': ['root', 'keyword', 'keyword'],
                'WK': ['root', 'keyword', 'keyword'], 'WP': ['root', 'positional', 'positional']}[form][i]
    had_error = [False]
    check(0, 'init', None, None)
    for step, op in enumerate(hist, 1):
        if viols:
            break
        raised, upd = None, None
        if op[0] in 'uxz':
            upd = op[1]
            if op[0] == 'u':
                fresh[0] += 3
                val = fresh[0]
            else:
                val = 'bad' if op[0] == 'x' else 0
            noop = same(src[upd].v, val)            # the value does not change: no event, nothing is delivered
            try:
                src[upd].v = val
                if not noop:
                    starved.discard(upd)
            except Exception as e:
                raised = type(e).__name__
                starved.add(upd)
        elif op == 'ovp':
            plain[0] = ('plain', step)
            t.p = plain[0]
            pstate[0] = 'plain'
        elif op == 'rlp':
            order = order[1:] + order[:1]
            try:
                t.p = ref()
                pstate[0] = 'link'
            except Exception as e:
                pstate[0] = 'unknown'
        if verbose:
            print('step %d %s: sources %r p=%r q=%r raised=%s' % (step, op, [src[k].v for k in 'ABC'], t.p, t.q, raised))
        check(step, op, raised, upd)
    return nval, viols
'''

HARNESS_SRC = HARNESS_SRC.replace('@M@', C_MIRROR).replace('@R@', C_RAISE).replace('@O@', C_OVER)

FORMS = ('PK', 'PP', 'PM', 'XK', 'MK', 'MP', 'MM', 'MT', 'WK', 'WP', 'BK', 'BKK', 'RBK', 'DK', 'OP', 'OR')
MODES = ('ctor', 'later')
QKINDS = ('-', 'PB', 'PC')
OPS = ('uA', 'uB', 'uC', 'xA', 'xB', 'xC', 'zA', 'zB', 'zC', 'ovp', 'rlp')
FAULTS = ('xA', 'xB', 'xC', 'zA', 'zB', 'zC')
UPD = ('uA', 'uB', 'uC')

RULE = ("Family KW (operand positions, raising expressions): p linked to one of %d expression forms (rx.pipe with "
        "positional / keyword / mixed operands, a keyword operand that is an expression, method calls with keyword / "
        "positional / mixed operands, rx.where by keyword / position, bind / rx(bind) / depends with keyword operands, "
        "operator expressions) over three sources, link made in the constructor or later, q nothing or a plain "
        "Parameter link; histories over {uX valid update, xX update to a value every form refuses, zX update to 0 "
        "(division raises), ovp, rlp}; after every step p is compared with a plain-Python model of the form on the "
        "current source values whenever the model evaluates (nothing is claimed while it raises), an update after "
        "which every link evaluates must not raise, q follows its source (lenient for the source whose update raised)."
        % len(FORMS))

_H = {}


def harness():
    if not _H:
        exec(compile(HARNESS_SRC, '<c08_kw harness>', 'exec'), _H)
    return _H


def configs():
    return [(f, m, q) for f in FORMS for m in MODES for q in QKINDS]


def cfg_str(cfg):
    return 'fam=operand-positions form=%s made=%s q=%s' % cfg


def cfg_rank(cfg):
    return (QKINDS.index(cfg[2]), MODES.index(cfg[1]), FORMS.index(cfg[0]))


def guided():
    """fault at one operand position; recovery / other update; one more update"""
    for f in FAULTS:
        for u1 in UPD:
            for u2 in UPD:
                yield (f, u1, u2)


def tasks(tier, seed):
    rnd = random.Random(8800 + seed)
    out = []
    for cfg in configs():
        if tier == 'quick':
            if cfg[2] == 'PC':
                continue
            if cfg[2] == '-':
                out += [(cfg, h) for h in itertools.product(OPS, repeat=2)]
                out += [(cfg, h) for h in guided()]
            else:
                out += [(cfg, h) for h in itertools.product(OPS, repeat=2) if rnd.random() < 0.25]
                out += [(cfg, h) for h in guided() if rnd.random() < 0.25]
        else:
            out += [(cfg, h) for h in itertools.product(OPS, repeat=3) if cfg[2] == '-' or rnd.random() < 1 / 3.0]
            out += [(cfg, f + h) for f in itertools.product(FAULTS, repeat=2) for h in itertools.product(UPD, repeat=2)
                    if cfg[2] == '-']
    return out


def bound_text(tier):
    n = len(configs())
    if tier == 'quick':
        return ("operand-position family: %d forms x {constructor, later} x q in {nothing, P(b.v)}: the %d histories of "
                "length 2 over %d operations and the %d guided histories fault;update;update (q = nothing: all, "
                "q = P(b.v): a seeded quarter)" % (len(FORMS), len(OPS) ** 2, len(OPS), len(list(guided()))))
    return ("operand-position family: histories of length 3 over %d operations on %d configurations (%d forms x "
            "{constructor, later} x q in {nothing, P(b.v), P(c.v)}; all of them without q, a seeded third with q), and "
            "fault;fault;update;update on the configurations without q" % (len(OPS), n, len(FORMS)))


def run_chunk(tasks_):
    H = harness()
    res = []
    for cfg, hist in tasks_:
        nval, viols = H['run_kw'](cfg, hist)
        for v in viols:
            v['cfg'] = cfg
            v['hist'] = hist
        res.append((cfg_str(cfg) + ' hist=' + ','.join(hist), nval, 0, 0, viols))
    return res


def vclass(v):
    tag = v['tag']
    at = 'init' if tag == 'init' else tag if tag in ('ovp', 'rlp') else {'u': 'valid-update', 'x': 'bad-update',
                                                                         'z': 'valid-update'}[tag[0]]
    kind = v['cfg'][0]
    group = ('pipe' if kind in ('PK', 'PP', 'PM', 'XK') else 'method' if kind[0] == 'M' else 'where' if kind[0] == 'W'
             else 'function' if kind in ('BK', 'BKK', 'RBK', 'DK') else 'operator')
    return (v['clause'], 'fam=operand-positions expr=%s param=%s updated=%s after-error=%d' % (
        group, v['param'], v['pos'], int(v['after_error'])), 'at=' + at)


def replay_of(v, clause, witness):
    hist = tuple(v['hist'][:v['step']])
    head = REPLAY_HEADER.format(prop='C08', name='replay_c08_kw.py', clause=clause, witness=witness)
    body = HARNESS_SRC + '''
cfg, hist = %r, %r
nval, viols = run_kw(cfg, hist, verbose=True)
hits = [v for v in viols if v['clause'] == %r]
if hits:
    v = hits[0]
    print('REPRODUCED: after step %%d (%%s) t.%%s is %%s, expected %%s' %% (v['step'], v['tag'], v['param'], v['got'], v['want']))
    sys.exit(1)
print('NOT-REPRODUCED' + (' (other findings: %%r)' %% (viols,) if viols else ''))
sys.exit(0)
''' % (v['cfg'], hist, clause)
    return head + body


def reports(allv):
    groups = {}
    for v in allv:
        groups.setdefault(vclass(v), []).append(v)
    out = []
    for key, vs in groups.items():
        best = None
        for v in vs:
            rk = (v['step'], cfg_rank(v['cfg']), [OPS.index(o) for o in v['hist'][:v['step']]])
            if best is None or rk < best[0]:
                best = (rk, v)
        rk, rep = best
        clause = key[0]
        witness = '%s %s | %s hist=%s got=%s want=%s' % (
            key[1], key[2], cfg_str(rep['cfg']).replace('fam=operand-positions ', ''),
            ','.join(rep['hist'][:rep['step']]) or '-', rep['got'], rep['want'])
        out.append((clause, witness, replay_of(rep, clause, witness), len(vs),
                    '%d failing cases in this class' % len(vs), (30 + rk[0], rk[1])))
    return out
