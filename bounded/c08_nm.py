"""Helper of the bounded stand-in layer for C08: two further families of references.

Family NF (nested functions -- a bound function that takes ANOTHER bound / depends function as an argument,
the inner function depending on SAME-NAMED parameters of two different objects)
    sources a, b, c (class S, Integer x, y; all dependencies are the parameter `x` of different objects),
    target t with p, q (allow_refs=True; nested_refs=True or False).  Reference of p over (A, B) = (a.x, b.x):
        BB   bind(outer, bind(inner, A, B))                 BD   bind(outer, depends(A, B)(inner))
        BkB  bind(outer, z=bind(inner, A, B))               BkD  bind(outer, z=depends(A, B)(inner))
        BBk  bind(outer, bind(inner, u=A, v=B))             BDk  bind(outer, depends(u=A, v=B)(inner))
        BkBk bind(outer, z=bind(inner, u=A, v=B))           BBm  bind(outer, bind(inner, A, v=B))
        BkDc bind(outer, z=depends(A, arg0=B)(inner_a0))    (a keyword dependency NAMED like a generated positional key)
        B3   bind(outer, bind(mid, bind(inner, A, B)))      B3k  bind(outer, z=bind(mid, z=bind(inner, A, v=B)))
        B3D  bind(outer, bind(mid, depends(A, B)(inner)))
        BC   bind(outer, bind(inner3, A, B, 7))             BCm  bind(outer, bind(inner3, A, 7, B))
        BCk  bind(outer, bind(inner3, A, w=7, v=B))
        B2   bind(inner, bind(outer, A), bind(mid, B))      BP   bind(inner, A, bind(outer, B))
        BPk  bind(inner, v=A, u=bind(outer, B))
        BR   bind(outer, A.rx() + B.rx())                   RB   bind(inner, A, B).rx().rx.pipe(outer)
        MD   the METHOD a.both declared with @depends('x', 'other.x') where a.other is b (string specs)
        LB   [BB, 3]     KB   {'k': BB}                      (nested_refs=True only)
    (inner / inner3 / mid / outer build tuples, so the order and the origin of every argument is visible in the
    value), link of q: nothing | P(a.x) | P(b.x) | BB over (b.x, a.x) | BD over (a.x, c.x) | SH = bind(mid, <the
    very function object p is linked to>); links made in the
    constructor / by later assignments / p in the constructor and q later.
    History over  ua ub uc (x of one source)  uy (a.y and b.y: no dependency)  ovp ovq (plain value)
    rlp (p <- the SAME kind over (b.x, c.x): a is dropped, c is new)  rlq (q <- P(c.x))
    cxp (`with t.param.update(p=plain)`: a.x and b.x are updated inside; the exit re-establishes the link).

Family MC (nested_refs=True parameter linked to a MUTABLE container that is modified in place and assigned again)
    sources a, b, c, d; container `box` of shape
        list  [a.x, W(b.x), 3]                dict  {'u': a.x, 'v': W(b.x), 'k': 3}
        deep  [a.x, [W(b.x), 3]]              dlist {'u': a.x, 'k': [W(b.x), 3]}         tup  (a.x, [W(b.x), 3])
    (W = bind(wrap, .); for deep / dlist / tup the INNER list is the one that is modified), element added by the
    modifications: P (a Parameter) | W (a bound function) | N (bind(outer, bind(inner, X, b.x))) over the sources
    c, d, a, b in turn; q: nothing | P(a.x) | P(c.x) | W(a.x) | [a.x, 5]; first link in the constructor / later.
    History over  ua ub uc ud (source updates)
        ap (append / new key)  in (insert at the front, lists)  rp (replace the first reference by a new one)
        rpv (replace the first reference by a plain value)  rm (remove the first reference)       -- in place
        as (t.p = box: the SAME object again)  af (t.p = fresh(box): an equal copy made of new containers)
        au (t.param.update(p=box))  cxp (update context with a plain value; the exit assigns the reference again)
        ovp ovq rlq.
    Oracle (from the statement, lenient where it is silent): an in-place modification WITHOUT re-assignment need
    not be noticed -- from the modification until the next assignment to p nothing is claimed about p's value
    (sources of the old and of the new content may hold a watcher).  After the container (the same object or a
    copy) has been ASSIGNED, p holds the container's current resolved content, follows every source the content
    uses NOW (also the ones added in place), is not affected by sources that were removed, and only the sources
    of current links hold a watcher of t.  A container left without any reference is a plain value.

Oracle of both families: after every step each linked parameter equals the reference evaluated independently on
the CURRENT values of the sources; an overridden parameter holds its plain value; no (object, parameter) that is
not a dependency of a current link carries a watcher that belongs to t.
"""
import copy
import itertools
import random
import re

from bounded._api import REPLAY_HEADER

PRELUDE = '''import logging, warnings
import param
warnings.simplefilter('ignore')
param.parameterized.get_logger().setLevel(logging.CRITICAL)
class S(param.Parameterized):
    x = param.Integer(1)
    y = param.Integer(2)
    other = param.Parameter(None)
    @param.depends('x', 'other.x')
    def both(self):
        return ('i', self.x, self.other.x)
class TN(param.Parameterized):
    p = param.Parameter(None, allow_refs=True, nested_refs=True)
    q = param.Parameter(None, allow_refs=True, nested_refs=True)
class TF(param.Parameterized):
    p = param.Parameter(None, allow_refs=True)
    q = param.Parameter(None, allow_refs=True)
def inner(u, v):
    return ('i', u, v)
def inner3(u, v, w):
    return ('i', u, v, w)
def inner_a0(u, arg0):
    return ('i', u, arg0)
def mid(z):
    return ('m', z)
def outer(z):
    return ('o', z)
def wrap(z):
    return ('w', z)
def nf(kind, A, B=None):
    """reference of `kind` over the Parameter objects A, B"""
    bind, depends = param.bind, param.depends
    if kind == 'P':
        return A
    if kind == 'W':
        return bind(wrap, A)
    if kind == 'L5':
        return [A, 5]
    if kind == 'BB':
        return bind(outer, bind(inner, A, B))
    if kind == 'BD':
        return bind(outer, depends(A, B)(inner))
    if kind == 'BkB':
        return bind(outer, z=bind(inner, A, B))
    if kind == 'BkD':
        return bind(outer, z=depends(A, B)(inner))
    if kind == 'BBk':
        return bind(outer, bind(inner, u=A, v=B))
    if kind == 'BDk':
        return bind(outer, depends(u=A, v=B)(inner))
    if kind == 'BkBk':
        return bind(outer, z=bind(inner, u=A, v=B))
    if kind == 'BkDc':
        return bind(outer, z=depends(A, arg0=B)(inner_a0))
    if kind == 'BBm':
        return bind(outer, bind(inner, A, v=B))
    if kind == 'B3':
        return bind(outer, bind(mid, bind(inner, A, B)))
    if kind == 'B3k':
        return bind(outer, z=bind(mid, z=bind(inner, A, v=B)))
    if kind == 'B3D':
        return bind(outer, bind(mid, depends(A, B)(inner)))
    if kind == 'BC':
        return bind(outer, bind(inner3, A, B, 7))
    if kind == 'BCm':
        return bind(outer, bind(inner3, A, 7, B))
    if kind == 'BCk':
        return bind(outer, bind(inner3, A, w=7, v=B))
    if kind == 'B2':
        return bind(inner, bind(outer, A), bind(mid, B))
    if kind == 'BP':
        return bind(inner, A, bind(outer, B))
    if kind == 'BPk':
        return bind(inner, v=A, u=bind(outer, B))
    if kind == 'BR':
        return bind(outer, A.rx() + B.rx())
    if kind == 'RB':
        return bind(inner, A, B).rx().rx.pipe(outer)
    if kind == 'MD':
        if A.owner.other is not B.owner:
            A.owner.other = B.owner
        return A.owner.both
    if kind == 'LB':
        return [nf('BB', A, B), 3]
    if kind == 'KB':
        return {'k': nf('BB', A, B)}
    raise ValueError(kind)
def fresh(c):
    """an equal copy of a container made of new list / dict / tuple objects (the references are shared)"""
    if isinstance(c, list):
        return [fresh(v) for v in c]
    if isinstance(c, tuple):
        return tuple(fresh(v) for v in c)
    if isinstance(c, dict):
        return {k: fresh(v) for k, v in c.items()}
    return c
def tw(t, o):
    """names of the parameters of o whose watcher table holds a watcher that belongs to t"""
    out = []
    for pname, d in o._param__private.watchers.items():
        for lst in d.values():
            for w in lst:
                if getattr(getattr(w.fn, '__self__', None), 'self', None) is t:
                    out.append(pname)
    return sorted(set(out))
'''

C_MIRROR = 'C08/mirror/value == resolve(reference)'
C_LEAK = 'C08/override-relink/old sources keep no watcher of the target'
C_RAISE = 'C08/operation raises'

# value of a reference of each kind, {0} {1}: the current values of its two dependencies
FEXPR = {
    'P': '{0}', 'W': "('w', {0})", 'L5': '[{0}, 5]', 'SH': 'None',     # SH: set by the script (depends on p's kind)
    'BB': "('o', ('i', {0}, {1}))", 'BD': "('o', ('i', {0}, {1}))", 'BkB': "('o', ('i', {0}, {1}))",
    'BkD': "('o', ('i', {0}, {1}))", 'BBk': "('o', ('i', {0}, {1}))", 'BDk': "('o', ('i', {0}, {1}))",
    'BkBk': "('o', ('i', {0}, {1}))", 'BkDc': "('o', ('i', {0}, {1}))", 'BBm': "('o', ('i', {0}, {1}))",
    'B3': "('o', ('m', ('i', {0}, {1})))", 'B3k': "('o', ('m', ('i', {0}, {1})))",
    'B3D': "('o', ('m', ('i', {0}, {1})))",
    'BC': "('o', ('i', {0}, {1}, 7))", 'BCm': "('o', ('i', {0}, 7, {1}))", 'BCk': "('o', ('i', {0}, {1}, 7))",
    'B2': "('i', ('o', {0}), ('m', {1}))", 'BP': "('i', {0}, ('o', {1}))", 'BPk': "('i', ('o', {1}), {0})",
    'BR': "('o', {0} + {1})", 'RB': "('o', ('i', {0}, {1}))", 'MD': "('i', {0}, {1})",
    'LB': "[('o', ('i', {0}, {1})), 3]", 'KB': "{{'k': ('o', ('i', {0}, {1}))}}",
}
NF_KINDS = ['BB', 'BD', 'BkB', 'BkD', 'BBk', 'BDk', 'BkBk', 'BkDc', 'BBm', 'B3', 'B3k', 'B3D', 'BC', 'BCm', 'BCk', 'B2',
            'BP', 'BPk', 'BR', 'RB', 'MD', 'LB', 'KB']
NF_NESTED_ONLY = ('LB', 'KB')
NF_Q = [None, ('P', 'a'), ('P', 'b'), ('BB', 'b', 'a'), ('BD', 'a', 'c'), ('SH', 'a', 'b')]
NF_NO_SH = ('LB', 'KB', 'MD')           # p's reference is not a function that bind accepts as an argument
NF_MODES = ['ctor', 'later', 'mixed']
NF_OPS = ['ua', 'ub', 'uc', 'uy', 'ovp', 'ovq', 'rlp', 'rlq', 'cxp']

MC_SHAPES = ['list', 'dict', 'deep', 'dlist', 'tup']
MC_ADD = ['P', 'W', 'N']
MC_Q = [None, ('P', 'a'), ('P', 'c'), ('W', 'a'), ('L5', 'a')]
MC_MODES = ['ctor', 'later']
MC_UPD = ['ua', 'ub', 'uc', 'ud']
MC_MODS = ['ap', 'in', 'rp', 'rpv', 'rm']
MC_RE = ['as', 'af', 'au', 'cxp']
MC_OPS = MC_UPD + MC_MODS + MC_RE + ['ovp', 'ovq', 'rlq']
ADD_SRC = ['c', 'd', 'a', 'b']
SRC_BASE = {'a': 0, 'b': 1000, 'c': 2000, 'd': 3000}


def lk_str(link):
    if link is None:
        return '-'
    return '%s(%s)' % (link[0], ','.join('%s.x' % s for s in link[1:]))


def lk_src(link):
    return "nf(%r, %s)" % (link[0], ', '.join('%s.param.x' % s for s in link[1:]))


def lk_expr(link):
    return FEXPR[link[0]].format(*['%s.x' % s for s in link[1:]])


# -- model of a container: python lists / dicts / tuples of elements; element = int | ('P', s) | ('W', s) | ('N', s, s2)
def is_elem(e):
    return isinstance(e, tuple) and e and e[0] in ('P', 'W', 'N')


def el_src(e):
    if is_elem(e):
        if e[0] == 'P':
            return '%s.param.x' % e[1]
        if e[0] == 'W':
            return "nf('W', %s.param.x)" % e[1]
        return "nf('BB', %s.param.x, %s.param.x)" % (e[1], e[2])
    return repr(e)


def st_src(st):
    if is_elem(st) or isinstance(st, int):
        return el_src(st)
    if isinstance(st, list):
        return '[%s]' % ', '.join(st_src(v) for v in st)
    if isinstance(st, tuple):
        return '(%s,)' % ', '.join(st_src(v) for v in st)
    return '{%s}' % ', '.join('%r: %s' % (k, st_src(v)) for k, v in st.items())


def st_expr(st):
    if is_elem(st):
        return {'P': '{0}', 'W': "('w', {0})", 'N': "('o', ('i', {0}, {1}))"}[st[0]].format(*['%s.x' % s for s in st[1:]])
    if isinstance(st, int):
        return repr(st)
    if isinstance(st, list):
        return '[%s]' % ', '.join(st_expr(v) for v in st)
    if isinstance(st, tuple):
        return '(%s,)' % ', '.join(st_expr(v) for v in st)
    return '{%s}' % ', '.join('%r: %s' % (k, st_expr(v)) for k, v in st.items())


def st_sources(st):
    if is_elem(st):
        return set(st[1:])
    if isinstance(st, int):
        return set()
    out = set()
    for v in (st.values() if isinstance(st, dict) else st):
        out |= st_sources(v)
    return out


def mc_initial(shape):
    """(model of box, function returning the mutable part of a model, source text of the mutable part)"""
    a, wb = ('P', 'a'), ('W', 'b')
    if shape == 'list':
        return [a, wb, 3], (lambda st: st), 'box'
    if shape == 'dict':
        return {'u': a, 'v': wb, 'k': 3}, (lambda st: st), 'box'
    if shape == 'deep':
        return [a, [wb, 3]], (lambda st: st[1]), 'box[1]'
    if shape == 'dlist':
        return {'u': a, 'k': [wb, 3]}, (lambda st: st['k']), "box['k']"
    if shape == 'tup':
        return (a, [wb, 3]), (lambda st: st[1]), 'box[1]'
    raise ValueError(shape)


# ------------------------------------------------------------------------------------------
def nf_configs():
    out = []
    for kind in NF_KINDS:
        for q in NF_Q:
            for mode in NF_MODES:
                if mode == 'mixed' and q is None:
                    continue
                if q is not None and q[0] == 'SH' and kind in NF_NO_SH:
                    continue
                for nested in (1, 0):
                    if not nested and kind in NF_NESTED_ONLY:
                        continue
                    out.append(('NF', kind, q, mode, nested))
    return out


def mc_configs():
    return [('MC', shape, add, q, mode) for shape in MC_SHAPES for add in MC_ADD for q in MC_Q for mode in MC_MODES]


def cfg_str(cfg):
    if cfg[0] == 'NF':
        _f, kind, q, mode, nested = cfg
        return 'fam=nested-function p=%s(a.x,b.x) q=%s mode=%s nested=%d' % (kind, lk_str(q), mode, nested)
    _f, shape, add, q, mode = cfg
    return 'fam=mutable-container box=%s added=%s q=%s mode=%s' % (shape, add, lk_str(q), mode)


def cfg_rank(cfg):
    if cfg[0] == 'NF':
        _f, kind, q, mode, nested = cfg
        return (0, NF_Q.index(q), NF_KINDS.index(kind), NF_MODES.index(mode), 1 - nested)
    _f, shape, add, q, mode = cfg
    return (1, MC_Q.index(q), MC_SHAPES.index(shape), MC_ADD.index(add), MC_MODES.index(mode))


def ops_of(cfg):
    if cfg[0] == 'NF':
        return [o for o in NF_OPS if cfg[2] is not None or o != 'ovq']
    ops = list(MC_OPS)
    if cfg[1] == 'dict':
        ops.remove('in')
    if cfg[3] is None:
        ops.remove('ovq')
    return ops


class Abort(Exception):
    pass


_ADDR = re.compile(r' at 0x[0-9a-fA-F]+')


_CODE = {}


def _code(src, mode='exec'):
    c = _CODE.get((src, mode))
    if c is None:
        c = _CODE[(src, mode)] = compile(src, '<c08nm step>', mode)
    return c


class NScript:
    """the straight-line program of one case and its shadow model, run in lockstep (env) or only built (env=None)"""

    def __init__(self, cfg, env=None):
        self.cfg = cfg
        self.env = env
        self.lines = []
        self.viols = []
        self.nval = self.nleak = 0
        self.fresh = 0
        self.nsteps = 0
        self.hist = ()
        self.diverged = {}
        self.leaked = {}
        self.names = ('p', 'q')
        self.objs = ('a', 'b', 'c') if cfg[0] == 'NF' else ('a', 'b', 'c', 'd')
        # p: None (plain) | dict(expr, sources, how) ; q the same
        self.link = {'p': None, 'q': None}
        self.plain = {'p': 'None', 'q': 'None'}      # expression text of the plain value
        self.dirty = False                          # MC: box modified in place since it was assigned to p
        self.dirty_sources = set()
        self.setup()

    # -- emitting -----------------------------------------------------------------------
    def emit(self, src):
        self.lines.append(src)
        if self.env is not None:
            try:
                exec(_code(src), self.env)
            except Exception as e:
                self.viols.append(dict(cfg=self.cfg, hist=self.hist, nsteps=self.nsteps, tag='raise', kind='raised',
                                       param=None, got='%s: %s' % (type(e).__name__, str(e)[:80]),
                                       want='no exception', link=None, nlines=len(self.lines), role='-'))
                raise Abort()

    def mklink(self, link, how):
        return dict(expr=lk_expr(link), sources=set(link[1:]), how=how, desc=lk_str(link), cont=False)

    # -- checks -------------------------------------------------------------------------
    def allowed(self):
        out = set()
        for n in self.names:
            if self.link[n] is not None:
                out |= self.link[n]['sources']
        if self.dirty and self.link['p'] is not None and self.link['p'].get('isbox'):
            # every content the box had since it was assigned: the watchers may have been rebuilt (by an
            # assignment to q, by the exit of an update context) while it held any of them
            out |= self.dirty_sources
        return out

    def check(self, tag, reset=(), leak=True, role='-'):
        exprs = {}
        for n in self.names:
            if n == 'p' and self.dirty and self.link['p'] is not None and self.link['p'].get('isbox'):
                exprs[n] = None                     # modified in place, not assigned again: no claim
            else:
                exprs[n] = self.plain[n] if self.link[n] is None else self.link[n]['expr']
        allowed = sorted(self.allowed()) if leak else None
        info = {n: (None if self.link[n] is None else (self.link[n]['desc'], self.link[n]['how'])) for n in self.names}
        self.lines.append(('CHECK', tag, exprs, allowed, info))
        for n in reset:
            self.diverged[n] = False
        if self.env is None:
            return
        t = self.env['t']
        for n in self.names:
            if exprs[n] is None:
                continue
            self.nval += 1
            got = getattr(t, n)
            want = eval(_code(exprs[n], 'eval'), self.env)
            if not (got == want and type(got) is type(want)):
                if not self.diverged.get(n):
                    self.viols.append(dict(cfg=self.cfg, hist=self.hist, nsteps=self.nsteps, tag=tag, kind='mismatch',
                                           param=n, got=_ADDR.sub('', repr(got)), want=repr(want), link=info[n],
                                           nlines=len(self.lines), role=role))
                self.diverged[n] = True
        if allowed is not None:
            for o in self.objs:
                self.nleak += 1
                names = self.env['tw'](t, self.env[o])
                extra = [x for x in names if not (x == 'x' and o in allowed)]
                if extra:
                    if not self.leaked.get(o):
                        self.viols.append(dict(cfg=self.cfg, hist=self.hist, nsteps=self.nsteps, tag=tag, kind='leak',
                                               param=None, src=o, got='%s.%s' % (o, '+'.join(extra)), want='none',
                                               link=None, nlines=len(self.lines), role=role))
                    self.leaked[o] = True
                else:
                    self.leaked[o] = False

    # -- set-up -------------------------------------------------------------------------
    def setup(self):
        cfg = self.cfg
        if cfg[0] == 'NF':
            _f, kind, q, mode, nested = cfg
            T = 'TN' if nested else 'TF'
            self.emit("a = S(x=1); b = S(x=1001); c = S(x=2001)")
            pl = (kind, 'a', 'b')
            self.emit("r1 = %s" % lk_src(pl))
            if q is not None:
                self.emit("r2 = %s" % ('param.bind(mid, r1)' if q[0] == 'SH' else lk_src(q)))
            if mode == 'ctor':
                self.emit("t = %s(%s)" % (T, 'p=r1' + (', q=r2' if q else '')))
                how = ('ctor', 'ctor')
            elif mode == 'later':
                self.emit("t = %s()" % T)
                self.emit("t.p = r1")
                if q is not None:
                    self.emit("t.q = r2")
                how = ('assign', 'assign')
            else:
                self.emit("t = %s(p=r1)" % T)
                self.emit("t.q = r2")
                how = ('ctor', 'assign')
            self.link['p'] = self.mklink(pl, how[0])
            if q is not None:
                self.link['q'] = self.mklink(q, how[1])
                if q[0] == 'SH':        # q's function takes p's whole reference (the same object) as its argument
                    self.link['q']['expr'] = "('m', %s)" % lk_expr(pl)
        else:
            _f, shape, add, q, mode = cfg
            self.box, self.mpart, self.msrc = mc_initial(shape)
            self.nadd = 0
            self.first_sources = st_sources(self.box)
            self.emit("a = S(x=1); b = S(x=1001); c = S(x=2001); d = S(x=3001)")
            self.emit("box = %s" % st_src(self.box))
            if q is not None:
                self.emit("r2 = %s" % lk_src(q))
            if mode == 'ctor':
                self.emit("t = TN(%s)" % ('p=box' + (', q=r2' if q else '')))
                how = 'ctor'
            else:
                self.emit("t = TN()")
                self.emit("t.p = box")
                if q is not None:
                    self.emit("t.q = r2")
                how = 'assign'
            self.link_box(how, isbox=True)
            if q is not None:
                self.link['q'] = self.mklink(q, how)
        self.check('init')

    def link_box(self, how, isbox):
        """p has just been assigned box (isbox) or an equal copy of it"""
        self.dirty = False if isbox else self.dirty
        snap = copy.deepcopy(self.box)
        # (a container left without references is a plain value: no sources, same expression)
        self.link['p'] = dict(expr=st_expr(snap), sources=st_sources(snap), how=how, isbox=isbox, cont=True,
                              desc='container')

    def role_of(self, s):
        """MC: role of source s for the current link of p (for the witness class of a failing source update)"""
        lp = self.link['p']
        if lp is None or not lp.get('cont'):
            return 'unlinked'
        if s in lp['sources']:
            return 'kept' if s in self.first_sources else 'added'
        return 'removed' if s in self.first_sources else 'unused'

    # -- operations ---------------------------------------------------------------------
    def op(self, name):
        self.nsteps += 1
        self.fresh += 1
        n = self.fresh
        fam = self.cfg[0]
        if name[0] == 'u' and name != 'uy':
            s = name[1]
            self.emit("%s.x = %d" % (s, SRC_BASE[s] + 10 + n))
            self.check(name, role=self.role_of(s) if fam == 'MC' else '-')
        elif name == 'uy':
            self.emit("a.y = %d; b.y = %d" % (500 + n, 600 + n))
            self.check(name)
        elif name in ('ovp', 'ovq'):
            p = name[2]
            self.emit("t.%s = ('plain', %d)" % (p, n))
            self.link[p] = None
            self.plain[p] = "('plain', %d)" % n
            if p == 'p':
                self.dirty = False
            self.check(name, reset=(p,))
        elif name == 'rlq':
            self.emit("t.q = c.param.x")
            self.link['q'] = self.mklink(('P', 'c'), 'assign')
            self.check(name, reset=('q',))
        elif name == 'rlp':
            lk = (self.cfg[1], 'b', 'c')
            self.emit("t.p = %s" % lk_src(lk))
            self.link['p'] = self.mklink(lk, 'assign')
            self.check(name, reset=('p',))
        elif name == 'cxp':
            saved = (self.link['p'], self.plain['p'])
            self.emit("ctx = t.param.update(p=('ctx', %d))" % n)
            self.emit("ctx.__enter__()")
            self.link['p'], self.plain['p'] = None, "('ctx', %d)" % n
            self.check(name + ':enter', reset=('p',), leak=False)
            self.emit("a.x = %d; b.x = %d" % (SRC_BASE['a'] + 300 + n, SRC_BASE['b'] + 300 + n))
            self.check(name + ':inside', leak=False)
            self.emit("ctx.__exit__(None, None, None)")
            self.link['p'], self.plain['p'] = saved
            if self.link['p'] is not None:
                self.link['p'] = dict(self.link['p'], how='restore')
                if fam == 'MC' and self.link['p'].get('isbox') and not self.dirty:
                    pass
            self.check(name + ':exit', reset=('p',))
        elif name in MC_MODS:
            self.modify(name)
        elif name in ('as', 'au'):
            self.emit("t.p = box" if name == 'as' else "t.param.update(p=box)")
            self.link_box('same-object' if name == 'as' else 'update(same-object)', isbox=True)
            self.dirty = False
            self.check(name, reset=('p',))
        elif name == 'af':
            self.emit("t.p = fresh(box)")
            self.link_box('fresh-copy', isbox=False)
            self.dirty = False
            self.check(name, reset=('p',))
        else:
            raise ValueError(name)

    def new_elem(self):
        s = ADD_SRC[self.nadd % len(ADD_SRC)]
        self.nadd += 1
        add = self.cfg[2]
        if add == 'N':
            return ('N', s, 'a' if s == 'b' else 'b')
        return (add, s)

    def modify(self, name):
        m = self.mpart(self.box)
        ms = self.msrc
        isd = isinstance(m, dict)
        keys = list(m.keys()) if isd else list(range(len(m)))
        first = next((k for k in keys if is_elem(m[k])), None)
        if name in ('ap', 'in'):
            e = self.new_elem()
            if isd:
                k = 'n%d' % self.nadd
                self.emit("%s[%r] = %s" % (ms, k, el_src(e)))
                m[k] = e
            elif name == 'ap':
                self.emit("%s.append(%s)" % (ms, el_src(e)))
                m.append(e)
            else:
                self.emit("%s.insert(0, %s)" % (ms, el_src(e)))
                m.insert(0, e)
        elif first is None:
            self.emit("pass      # %s: no reference left in the container" % name)
        elif name == 'rp':
            e = self.new_elem()
            self.emit("%s[%r] = %s" % (ms, first, el_src(e)))
            m[first] = e
        elif name == 'rpv':
            self.emit("%s[%r] = 5" % (ms, first))
            m[first] = 5
        elif name == 'rm':
            self.emit("del %s[%r]" % (ms, first))
            del m[first]
        lp = self.link['p']
        if lp is not None and lp.get('isbox'):
            if not self.dirty:
                self.dirty_sources = set(lp['sources'])
            self.dirty = True
            self.dirty_sources |= st_sources(self.box)
        self.check(name)


_NS = {}


def namespace():
    if 'ns' not in _NS:
        ns = {}
        exec(compile(PRELUDE, '<c08nm prelude>', 'exec'), ns)
        _NS['ns'] = ns
    return _NS['ns']


def run_case(cfg, hist):
    env = dict(namespace())
    try:
        sc = NScript(cfg, env=env)
        sc.hist = hist
        for o in hist:
            sc.op(o)
    except Abort:
        pass
    return sc.nval, sc.nleak, 0, sc.viols


def run_chunk(tasks_):
    res = []
    for cfg, hist in tasks_:
        nval, nleak, nref, viols = run_case(cfg, hist)
        res.append((cfg_str(cfg) + ' hist=' + ','.join(hist), nval, nleak, nref, viols))
    return res


# ------------------------------------------------------------------------------------------
# enumeration
# ------------------------------------------------------------------------------------------
def nf_core(cfg):
    _f, kind, q, mode, nested = cfg
    return nested == 1 and mode != 'mixed' and q in (None, ('P', 'a'))


NF_FIXED = [('ua', 'ub', 'ua', 'ub'), ('ub', 'ua', 'ub', 'ua'), ('ub', 'ub', 'ua', 'ua'), ('rlp', 'ub', 'uc', 'ua'),
            ('ovp', 'ua', 'ub'), ('cxp', 'ub', 'ua'), ('ua', 'rlp', 'uc', 'ub'), ('uy', 'ub', 'ua')]


def nf_tasks(tier, rnd):
    out = []
    for cfg in nf_configs():
        ops = ops_of(cfg)
        if tier == 'quick':
            if nf_core(cfg):
                out += [(cfg, h) for h in NF_FIXED]
                out += [(cfg, h) for h in itertools.product(ops, repeat=3) if rnd.random() < 1 / 90.0]
            else:
                out += [(cfg, h) for h in NF_FIXED[:2]]
                out += [(cfg, h) for h in NF_FIXED[2:] if rnd.random() < 1 / 4.0]
        else:
            # every history of source updates over {ua, ub} up to length 5, every history of length 3 over all
            # operations, length 4 on the core configurations for the histories that start with a (re)link step
            out += [(cfg, h) for h in itertools.product(('ua', 'ub'), repeat=5)]
            if (cfg[4] == 1 and cfg[3] != 'mixed') or cfg[2] is None:
                out += [(cfg, h) for h in itertools.product(ops, repeat=3)]
            else:
                out += [(cfg, h) for h in NF_FIXED]
            if nf_core(cfg):
                out += [(cfg, (o,) + h) for o in ('rlp', 'cxp', 'ovp', 'rlq') if o in ops
                        for h in itertools.product(('ua', 'ub', 'uc', 'rlp'), repeat=3)]
    return out


def mc_core(cfg):
    _f, shape, add, q, mode = cfg
    return q in (None, ('P', 'a'))


def mc_round(mods, re, order):
    return tuple(mods) + (re,) + tuple(order)


TAILS = [('uc', 'ua', 'ud', 'ub'), ('ua', 'uc', 'ub', 'ud'), ('ud', 'ub', 'uc', 'ua')]


def mc_histories(cfg, tier, rnd):
    """histories  round ; round ; [finale]  with  round = in-place modifications (1 or 2) ; [a source update while
    the modification is not yet assigned] ; assignment (same object / fresh copy / update() / update context) ;
    an update of every source"""
    ops = ops_of(cfg)
    mods = [m for m in MC_MODS if m in ops]
    mseqs = [(m,) for m in mods] + [(m1, m2) for m1 in mods for m2 in mods]
    out = []
    rounds1 = [(ms, re) for ms in mseqs for re in MC_RE]
    for i, (ms, re) in enumerate(rounds1):
        tail = TAILS[i % len(TAILS)]
        h1 = tuple(ms) + (re,) + tail
        if tier == 'quick':
            # single modifications always on the core configurations; the pairs are sampled
            single = len(ms) == 1
            if mc_core(cfg):
                if not (single or rnd.random() < 1 / 8.0):
                    continue
            elif not (rnd.random() < (1 / 3.0 if single else 1 / 40.0)):
                continue
            out.append(h1)
            # second round: another modification assigned again (one sampled continuation)
            m2 = rnd.choice(mods)
            re2 = rnd.choice(MC_RE)
            pre = rnd.choice([(), ('ua',), ('uc',)])
            fin = rnd.choice([(), ('ovp', 'ua', 'uc'), ('rlq', 'uc', 'ua')])
            out.append(tuple(ms) + (re,) + tail[:2] + (m2,) + pre + (re2,) + TAILS[(i + 1) % 3] + fin)
        else:
            out.append(h1)
            if len(ms) == 2 and not mc_core(cfg):
                continue
            for m2 in mods:
                for re2 in MC_RE:
                    for pre in ((), ('ua',), ('uc',)):
                        if pre and not (mc_core(cfg) and len(ms) == 1):
                            continue
                        out.append(tuple(ms) + (re,) + tail[:2] + (m2,) + pre + (re2,) + TAILS[(i + 1) % 3])
            for fin in (('ovp', 'ua', 'uc', 'ud'), ('rlq', 'uc', 'ua'), ('ovq', 'ua', 'uc')):
                if fin[0] in ops:
                    out.append(tuple(ms) + (re,) + fin)
    return out


def tasks(tier, seed):
    rnd = random.Random(6600 + seed)
    out = nf_tasks(tier, rnd)
    for cfg in mc_configs():
        out += [(cfg, h) for h in mc_histories(cfg, tier, rnd)]
    return list(dict.fromkeys(out))         # a sampled history may coincide with a fixed one


def bound_text(tier):
    nnf, nmc = len(nf_configs()), len(mc_configs())
    cnf = sum(1 for c in nf_configs() if nf_core(c))
    cmc = sum(1 for c in mc_configs() if mc_core(c))
    if tier == 'quick':
        return ("nested-function family: %d configurations (%d nestings x 6 links of q x 3 link modes x nested_refs), "
                "8 fixed histories (every order of repeated a.x / b.x updates, relink, override, update context) + a "
                "seeded 1/90 of the length-3 histories on the %d core ones, 2 fixed + a sample on the others; "
                "mutable-container family: %d configurations (5 shapes x 3 kinds of added element x 5 links of q x 2 "
                "link modes), histories modification(s);assignment;update of all 4 sources[;modification;assignment;"
                "updates[;override/relink]]: every single modification x 4 ways of assigning on the %d core "
                "configurations, pairs of modifications and the other configurations sampled"
                % (nnf, len(NF_KINDS), cnf, nmc, cmc))
    return ("nested-function family: on all %d configurations every {ua,ub} history of length 5; every history of "
            "length 3 over 9 operations on those with nested_refs=True and both links made the same way, or without "
            "a link of q (8 fixed histories on the rest), length 4 after a (re)link step on the %d core ones; mutable-container family: on all %d "
            "configurations every round of 1 or 2 modifications x 4 ways of assigning x an update of every source; "
            "on the %d core ones followed by every second round (1 modification, after a single first modification "
            "also with a source update before the assignment) and by the finales override / relink of q; on the "
            "others the second rounds after single modifications only" % (nnf, cnf, nmc, cmc))


RULE = ("Nested-function family: p linked to a bound function taking another bound / depends function as positional "
        "or keyword argument (2 and 3 levels, inner function over a.x and b.x -- same-named parameters of two "
        "objects -- positional / keyword / mixed with a constant, two inner functions, rx arguments, inside a "
        "container) x q {none, P(a.x), P(b.x), nested over (b.x,a.x), nested over (a.x,c.x), bind(mid, p's own function object)} x links made in the "
        "constructor / later / mixed x nested_refs; histories over {ua,ub,uc source updates, uy unrelated "
        "parameter, ovp,ovq plain value, rlp relink to the same nesting over (b.x,c.x), rlq, cxp update context}. "
        "Mutable-container family: p (nested_refs) linked to a list / dict / nested list / dict of list / tuple of "
        "list holding a Parameter, a bound function and a plain value, modified in place {append, insert, replace "
        "by a new reference, replace by a plain value, remove} and assigned again {the same object, a fresh copy, "
        "through update(), by the exit of an update context}: after the assignment p mirrors the current content, "
        "follows added sources, ignores removed ones, which keep no watcher; nothing is claimed about p between an "
        "in-place modification and the next assignment")


# ------------------------------------------------------------------------------------------
def vclass(v):
    cfg = v['cfg']
    fam = 'nested-function' if cfg[0] == 'NF' else 'mutable-container'
    tag = v['tag']
    if tag[:1] == 'u':
        at = 'source-update'
        if cfg[0] == 'MC' and v['param'] == 'p':
            at += '(%s-source)' % v['role']
    elif ':' in tag:
        at = 'ctx-' + tag.split(':')[1]
    else:
        at = tag
    if v['kind'] == 'mismatch':
        lkd = v['link']
        if lkd is None:
            desc = 'link=none(plain value expected)'
        else:
            what = 'container' if lkd[0] == 'container' else ('nested-function' if cfg[0] == 'NF' and v['param'] == 'p'
                                                             or lkd[0][:1] in ('B', 'S') else 'other')
            desc = 'link=%s made=%s' % (what, lkd[1])
        return (C_MIRROR, 'fam=%s %s' % (fam, desc), 'at=' + at)
    if v['kind'] == 'leak':
        return (C_LEAK, 'fam=%s leak' % fam, 'at=' + at)
    return (C_RAISE, 'fam=%s %s' % (fam, v['got'].split(':')[0]), 'at=' + at)


def replay_of(v, clause, witness):
    sc = NScript(v['cfg'], env=None)
    try:
        for o in v['hist'][:v['nsteps']]:
            sc.op(o)
    except Abort:
        pass
    lines = sc.lines[:v['nlines']]
    src = REPLAY_HEADER.format(prop='C08', name='replay_c08.py', clause=clause, witness=witness)
    src += PRELUDE
    objs = sc.objs
    for idx, ln in enumerate(lines):
        last = idx == len(lines) - 1
        if isinstance(ln, tuple):
            _c, tag, exprs, allowed, _info = ln
            if not last:
                src += "# check %s: expected %s\n" % (tag, ', '.join(
                    '%s == %s' % (n, exprs[n]) if exprs[n] is not None else
                    '%s: no claim (modified in place, not assigned again)' % n for n in sc.names))
                continue
            src += "print('after %s:', %s, ' watchers of t on', %s)\n" % (
                tag, ', '.join("'%s =', repr(t.%s)" % (n, n) for n in sc.names),
                ', '.join("'%s:', tw(t, %s)" % (o, o) for o in objs))
            if v['kind'] == 'mismatch':
                n = v['param']
                src += "got = t.%s\nwant = %s      # the reference evaluated on the current sources / the plain value\n" % (n, exprs[n])
                src += "if not (got == want and type(got) is type(want)):\n"
                src += "    print('REPRODUCED: %s holds %%r, expected %%r' %% (got, want))\n    sys.exit(1)\n" % n
            elif v['kind'] == 'leak':
                o = v['src']
                src += "extra = [x for x in tw(t, %s) if not (x == 'x' and %r in %r)]\n" % (o, o, allowed)
                src += ("if extra:\n    print('REPRODUCED: %s.%%s is used by no current link of t but carries a watcher of t' "
                        "%% '+'.join(extra))\n    sys.exit(1)\n" % o)
        else:
            if last and v['kind'] == 'raised':
                body = ''.join('    %s\n' % s for s in ln.split('\n'))
                src += "try:\n%sexcept Exception as e:\n    print('REPRODUCED: raised', repr(e))\n    sys.exit(1)\n" % body
            else:
                src += ln + '\n'
    src += "print('NOT-REPRODUCED')\n"
    return src


def reports(allv):
    """one report per class of failing checks: (clause, witness, replay, count, detail, sortkey)"""
    groups = {}
    for v in allv:
        groups.setdefault(vclass(v), []).append(v)
    out = []
    for key, vs in groups.items():
        best = None
        for v in vs:
            ops = NF_OPS if v['cfg'][0] == 'NF' else MC_OPS
            rk = (v['nsteps'], cfg_rank(v['cfg']), [ops.index(o) for o in v['hist'][:v['nsteps']]])
            if best is None or rk < best[0]:
                best = (rk, v)
        rk, rep = best
        clause = key[0]
        witness = '%s %s | %s hist=%s %sgot=%s want=%s' % (
            key[1], key[2], cfg_str(rep['cfg']), ','.join(rep['hist'][:rep['nsteps']]) or '-',
            ('param=%s ' % rep['param']) if rep['param'] else '', rep['got'], rep['want'])
        out.append((clause, witness, replay_of(rep, clause, witness), len(vs),
                    '%d failing cases in this class' % len(vs), (30 + rk[0], rk[1])))
    return out
