"""Helper of the bounded stand-in layer for C08: family RJ -- syncs that REJECT the delivered value.

    two sources s1, s2 (class S, Integer v), one target t with
        q = Number(bounds=(0, 10), allow_refs=True)      linked to  P | B | R | D  over s1
        p = Parameter(allow_refs=True, nested_refs=True)  nothing | P@s2 | P@s1 | B@s1 | [s1.v, 3]
        r = Number(bounds=(0, 10), allow_refs=True)      nothing | P@s1 | P@s2
    (P s.param.v -> v; B bind(add1, s.param.v) -> v + 1; R s.param.v.rx() + 2 -> v + 2; D depends function
    -> 2 v; L [s.param.v, 3]), links made in the constructor or by later assignments, given in the order
    q,p,r or p,r,q (the order decides which link of a shared source is delivered first).
    History over
        g1 g2    source update to a value that is valid for every link
        b1 b2    source update to a value OUTSIDE the bounds of q / r: the sync of t raises out of `s.v = ..`
        ub1      the same through s1.param.update(v=..)      xb1  the same inside `with batch_call_watchers(s1)`
        ovq ovp ovr   plain value        rlq (q <- P@s2)  rlp (p <- B@s2)   relink

Oracle (from the statement; the current source values are read from the real sources):
    * a linked parameter equals resolve(reference) WHENEVER THAT VALUE IS VALID FOR IT; while the resolved value
      is invalid nothing is claimed about it (it keeps some earlier value) -- but as soon as the source moves
      back to a valid value it must mirror again: a rejected sync may not stop the link;
    * lenient: a link that shares the source with the rejected one may have been starved by the very update
      that raised (it holds either the new or its previous value) until the next update of that source;
    * links over the other source keep following; an update to a valid value never raises; an update to an
      invalid value may raise only when a bounded parameter is linked over that source;
    * a plain value / new reference assigned afterwards ends the link for good (so nothing may have stayed
      marked as "being synced"): later source updates do not touch it and the old source keeps no watcher of t.
"""
import itertools
import random

from bounded._api import REPLAY_HEADER

C_MIRROR = 'C08/mirror/value == resolve(reference)'
C_LEAK = 'C08/override-relink/old sources keep no watcher of the target'
C_RAISE = 'C08/operation raises'

HARNESS_SRC = r'''import logging, warnings
import param
warnings.simplefilter('ignore')
param.parameterized.get_logger().setLevel(logging.CRITICAL)
from param.parameterized import batch_call_watchers

class S(param.Parameterized):
    v = param.Integer(1)
class T(param.Parameterized):
    q = param.Number(1, bounds=(0, 10), allow_refs=True)
    p = param.Parameter(None, allow_refs=True, nested_refs=True)
    r = param.Number(2, bounds=(0, 10), allow_refs=True)
def add1(v):
    return v + 1
def mk(kind, s):
    if kind == 'P':
        return s.param.v
    if kind == 'B':
        return param.bind(add1, s.param.v)
    if kind == 'R':
        return s.param.v.rx() + 2
    if kind == 'D':
        @param.depends(s.param.v)
        def double(v):
            return 2 * v
        return double
    if kind == 'L':
        return [s.param.v, 3]
    raise ValueError(kind)
def f(kind, v):
    return {'P': v, 'B': v + 1, 'R': v + 2, 'D': 2 * v, 'L': [v, 3]}[kind]
def valid(name, val):
    return name == 'p' or (isinstance(val, (int, float)) and 0 <= val <= 10)
def tw(t, o):
    out = []
    for pname, d in o._param__private.watchers.items():
        for lst in d.values():
            for w in lst:
                if getattr(getattr(w.fn, '__self__', None), 'self', None) is t:
                    out.append(pname)
    return sorted(set(out))

def run_rj(cfg, hist, verbose=False):
    """-> (number of value checks, number of leak checks, violations)"""
    kq, kp, kr, mode, order = cfg
    src = {1: S(name='s1'), 2: S(name='s2')}
    decl = {'q': kq, 'p': kp, 'r': kr}
    link = {n: None for n in 'qpr'}
    plain = {'q': 1, 'p': None, 'r': 2}
    refs = [(n, mk(decl[n][0], src[decl[n][1]])) for n in order if decl[n]]
    if mode == 'ctor':
        t = T(**dict(refs))
    else:
        t = T()
        for n, ref in refs:
            setattr(t, n, ref)
    for n, _ in refs:
        link[n] = decl[n]
    viols = []
    state = dict(nval=0, nleak=0, rejected=False)
    diverged = {n: False for n in 'qpr'}
    leaked = {1: False, 2: False}
    starved = {}
    def check(step, tag):
        for n in 'qpr':
            got = getattr(t, n)
            if link[n] is None:
                want = plain[n]
                ok = got == want and type(got) is type(want)
            else:
                want = f(link[n][0], src[link[n][1]].v)
                if not valid(n, want):
                    continue                # no claim while the resolved value is invalid for the parameter
                ok = (got == want and type(got) is type(want)) or (n in starved and repr(got) == starved[n])
            state['nval'] += 1
            if verbose:
                print('   check %-4s %s = %r (expected %r%s)' % (tag, n, got, want,
                      ' or the previous value ' + starved[n] if n in starved else ''))
            if not ok:
                if not diverged[n]:
                    viols.append(dict(step=step, tag=tag, kind='mismatch', param=n, got=repr(got), want=repr(want),
                                      link=link[n], rejected=state['rejected']))
                diverged[n] = True
        for j in (1, 2):
            state['nleak'] += 1
            names = tw(t, src[j])
            used = any(link[n] is not None and link[n][1] == j for n in 'qpr')
            if names and not used:
                if not leaked[j]:
                    viols.append(dict(step=step, tag=tag, kind='leak', param='s%d' % j, got='+'.join(names), want='none',
                                      link=None, rejected=state['rejected']))
                leaked[j] = True
            elif not names:
                leaked[j] = False
    check(0, 'init')
    for step, op in enumerate(hist, 1):
        n = step
        exc = None
        if op[0] in 'gbux' and op[-1] in '12':
            j = int(op[-1])
            val = (1 + n) if op[0] == 'g' else 50 + n
            before = {m: repr(getattr(t, m)) for m in 'qpr'}
            try:
                if op[:2] == 'ub':
                    src[j].param.update(v=val)
                elif op[:2] == 'xb':
                    with batch_call_watchers(src[j]):
                        src[j].v = val
                else:
                    src[j].v = val
            except Exception as e:
                exc = e
            if verbose:
                print('%-4s s%d.v = %d %s' % (op, j, val, '-> raised %r' % exc if exc else ''))
            may_raise = op[0] != 'g' and any(link[m] is not None and link[m][1] == j for m in 'qr')
            if exc is not None and not may_raise:
                viols.append(dict(step=step, tag=op, kind='raised', param='s%d' % j,
                                  got='%s: %s' % (type(exc).__name__, str(exc)[:60]), want='no exception', link=None,
                                  rejected=state['rejected']))
                break
            for m in 'qpr':
                if link[m] is not None and link[m][1] == j:
                    if exc is not None:
                        state['rejected'] = True
                        starved.setdefault(m, before[m])
                    else:
                        starved.pop(m, None)
        else:
            m = op[2]
            if op[:2] == 'ov':
                val = ('plain', n) if m == 'p' else 5 + n
                newlink = None
                stmt = 't.%s = %r' % (m, val)
            else:
                newlink = ('P', 2) if m == 'q' else ('B', 2)
                val = mk(newlink[0], src[2])
                stmt = 't.%s = mk(%r, s2)' % (m, newlink[0])
            try:
                setattr(t, m, val)
            except Exception as e:
                exc = e
            if verbose:
                print('%-4s %s %s' % (op, stmt, '-> raised %r' % exc if exc else ''))
            refusable = newlink is not None and not valid(m, f(newlink[0], src[2].v))
            if exc is not None and not refusable:
                viols.append(dict(step=step, tag=op, kind='raised', param=m,
                                  got='%s: %s' % (type(exc).__name__, str(exc)[:60]), want='no exception', link=None,
                                  rejected=state['rejected']))
                break
            if exc is None:
                link[m] = newlink
                if newlink is None:
                    plain[m] = val
                diverged[m] = False
                starved.pop(m, None)
                if refusable:
                    # the reference was accepted although its value is invalid: nothing is claimed about this
                    # parameter until the source delivers a valid value (same as for a rejected sync)
                    pass
        check(step, op)
    return state['nval'], state['nleak'], viols
'''

KQ = [('P', 1), ('B', 1), ('R', 1), ('D', 1)]
KP = [None, ('P', 2), ('P', 1), ('B', 1), ('L', 1)]
KR = [None, ('P', 1), ('P', 2)]
MODES = ['ctor', 'later']
ORDERS = ['qpr', 'prq']
OPS = ['g1', 'g2', 'b1', 'b2', 'ub1', 'xb1', 'ovq', 'ovp', 'ovr', 'rlq', 'rlp']
BAD = ['b1', 'ub1', 'xb1']

RULE = ("Rejecting-sync family: q = Number(bounds) linked {P,B,R,D} over s1 x p {none, P@s2, P@s1, B@s1, [s1.v,3]} x "
        "r = Number(bounds) {none, P@s1, P@s2} x links made in the constructor / later x order of the links {q,p,r | "
        "p,r,q}; histories over {g1,g2 valid source value, b1,b2 source value outside the bounds (the sync raises), "
        "ub1 through update, xb1 inside a batch, ovq,ovp,ovr plain value, rlq,rlp relink}; a linked parameter mirrors "
        "whenever the value is valid for it, also after rejected syncs; other links keep following; an override after "
        "a rejected sync unlinks for good (later source updates do not reach it, the source keeps no watcher)")


def configs():
    return [(kq, kp, kr, mode, order) for kq in KQ for kp in KP for kr in KR for mode in MODES for order in ORDERS]


def is_core(cfg):
    kq, kp, kr, mode, order = cfg
    return kq in KQ[:2] and kp in KP[:3] and kr in KR[:2]


def cfg_str(cfg):
    kq, kp, kr, mode, order = cfg
    s = lambda k: '-' if k is None else '%s@s%d' % k
    return 'fam=rejecting-sync q=%s p=%s r=%s mode=%s order=%s' % (s(kq), s(kp), s(kr), mode, order)


def cfg_rank(cfg):
    kq, kp, kr, mode, order = cfg
    return (KR.index(kr), KP.index(kp), KQ.index(kq), MODES.index(mode), ORDERS.index(order))


def tasks(tier, seed):
    """(cfg, history).  Every history contains a rejected sync (the other histories are the base family's)."""
    rnd = random.Random(4400 + seed)
    out = []
    for cfg in configs():
        h3 = [h for h in itertools.product(OPS, repeat=3) if any(o in ('b1', 'b2', 'ub1', 'xb1') for o in h[:2])]
        if tier == 'quick':
            if is_core(cfg):
                # bad update first, then every pair of operations: 1 in 4; the shapes that matter most always
                for h in h3:
                    must = h[0] == 'b1' and h[1] in ('ovq', 'g1', 'rlq', 'b1') and h[2] in ('g1', 'g2', 'ovq')
                    if must or (h[0] in BAD and rnd.random() < 0.15):
                        out.append((cfg, h))
            else:
                out += [(cfg, h) for h in (('b1', 'ovq', 'g1'), ('b1', 'g1', 'g2'), ('xb1', 'g1', 'ovq'),
                                           ('ub1', 'ovq', 'g1'), ('g1', 'b1', 'g1'))]
        elif is_core(cfg):
            out += [(cfg, h) for h in h3]
        else:
            out += [(cfg, h) for h in h3 if h[0] in ('b1', 'b2', 'ub1', 'xb1')]
    return out


def bound_text(tier):
    n = len(configs())
    nc = sum(1 for c in configs() if is_core(c))
    if tier == 'quick':
        return ("rejecting-sync family: on %d core configurations the 12 histories b1;{ovq,g1,rlq,b1};{g1,g2,ovq} and a "
                "seeded 15%% of the other length-3 histories that start with a rejected sync; 5 fixed histories on the "
                "other %d configurations" % (nc, n - nc))
    return ("rejecting-sync family: all histories of length 3 over %d operations with a rejected sync among the first "
            "two on %d core configurations, as the first operation on the other %d" % (len(OPS), nc, n - nc))


_H = None


def harness():
    global _H
    if _H is None:
        ns = {"__name__": "c08_rj_harness"}
        exec(compile(HARNESS_SRC, "<c08_rj harness>", "exec"), ns)
        _H = ns
    return _H


def run_chunk(tasks_):
    H = harness()
    res = []
    for cfg, hist in tasks_:
        nval, nleak, viols = H['run_rj'](cfg, hist)
        for v in viols:
            v['cfg'] = cfg
            v['hist'] = hist
        res.append((cfg_str(cfg) + ' hist=' + ','.join(hist), nval, nleak, 0, viols))
    return res


def vclass(v):
    tag = v['tag']
    at = 'init' if tag == 'init' else tag.rstrip('12') if tag[0] in 'gbux' else tag[:2]
    extra = 'after-rejected=%d' % int(bool(v['rejected']))
    if v['kind'] == 'mismatch':
        lk = v['link']
        desc = 'link=none(plain value expected)' if lk is None else 'link=%s' % (
            'bounded' if v['param'] in 'qr' else 'unbounded')
        return (C_MIRROR, 'fam=rejecting-sync %s %s' % (desc, extra), 'at=' + at)
    if v['kind'] == 'leak':
        return (C_LEAK, 'fam=rejecting-sync leak %s' % extra, 'at=' + at)
    return (C_RAISE, 'fam=rejecting-sync %s %s' % (v['got'].split(':')[0], extra), 'at=' + at)


def replay_of(v, clause, witness):
    hist = tuple(v['hist'][:v['step']])
    src = REPLAY_HEADER.format(prop='C08', name='replay_c08.py', clause=clause, witness=witness)
    src += HARNESS_SRC
    src += '''
cfg = %r      # (link of q, link of p, link of r, links made in, order of the links)
hist = %r
nval, nleak, viols = run_rj(cfg, hist, verbose=True)
hits = [x for x in viols if x['kind'] == %r and x['param'] == %r and x['step'] == %d]
for x in hits:
    print('REPRODUCED: after %%s: %%s %%s holds %%s, expected %%s' %% (x['tag'], x['kind'], x['param'], x['got'], x['want']))
if hits:
    sys.exit(1)
print('NOT-REPRODUCED')
''' % (v['cfg'], hist, v['kind'], v['param'], v['step'])
    return src


def reports(allv):
    groups = {}
    for v in allv:
        groups.setdefault(vclass(v), []).append(v)
    out = []
    for key, vs in groups.items():
        best = None
        for v in vs:
            rk = (v['step'], cfg_rank(v['cfg']), [OPS.index(o) for o in v['hist'][:v['step']]])
            if best is None or rk < best[0]:
                best = (rk, v)
        rk, rep = best
        clause = key[0]
        witness = '%s %s | %s hist=%s param=%s got=%s want=%s' % (
            key[1], key[2], cfg_str(rep['cfg']), ','.join(rep['hist'][:rep['step']]) or '-', rep['param'],
            rep['got'], rep['want'])
        out.append((clause, witness, replay_of(rep, clause, witness), len(vs),
                    '%d failing cases in this class' % len(vs), (20 + rk[0], rk[1])))
    return out
