"""Bounded stand-in layer for C09 -- reactive expressions evaluate to the plain-Python result.

Two parts, both driving the REAL ``param.reactive`` of /repo:

(a) operator table: every unary / binary / reflected / comparison / indexing / rounding slot
    Python can dispatch to an ``rx`` object, on a lattice of operand values; the value read from
    ``expr.rx.value`` must equal the plain-Python result (same type, NaN-aware) or raise the same
    exception class.  A reflected case is only counted when Python really dispatches to the rx
    object (the left operand's own method is missing or returns NotImplemented).

(b) expression DAGs x histories: programs (SSA lists of constructor applications, so shared
    sub-expressions are explicit) over two rx roots ``a`` (int) and ``b`` (list), one Parameter
    ``p.x`` and one bound function ``F = bind(f_bind, a, p.param.x)``; histories of update /
    invalidate / repair / read operations, every read compared with the direct evaluator
    ``Oracle`` (``denote``) on the inputs' current values; the values handed to a ``.rx.watch``
    callback on the top node are compared with the fresh value as well.

(c) expressions DERIVED FROM DIRTY NODES: the same programs, but only the first m nodes exist when
    the history starts; after reads (caches populated), an input update (or invalidate / repair)
    and optionally one more read through another consumer, the remaining nodes are derived and
    read at once, and again after a later update.  Reported only when the same operations pass
    with every node built up front (differential: otherwise it is part (b)'s business).

(d) unfolded attribute references (``z.imag``, ``s.start``, ...) in every operand position
    (right / left / reflected operand, index, slice bound, positional / keyword argument of
    methods, pipe, map, bind, the .rx helpers), followed through updates of ``z`` and ``x``.

(e) operands nested one to four containers deep inside operation arguments, and (f) unread windows
    in which an input returns to the value the last read saw: see ``bounded/c09_nest.py``.

Oracle leniency (never a false alarm):
  * part (c): when deriving an expression raises and plain Python would raise for one of the
    derived nodes on the current inputs as well, the history ends there (tolerated).
  * ``and_``/``or_``: the helper receives an already evaluated operand, Python's ``and``/``or``
    short-circuit; when the skipped operand would raise, the read is not checked (ambiguous).
  * when several operands of one node raise, any of their exception classes is accepted
    (Python evaluates left to right, the expression evaluates its pipeline first).
  * an exception escaping from an *input update* (a ``.rx.watch``/``where`` watcher evaluating an
    invalid expression eagerly) is tolerated; only the values read afterwards are checked.
  * watch: a call is demanded only when the oracle value before and after the update are both
    defined and differ; extra calls are allowed, the last call of an update must carry the fresh
    value.
  * augmented assignment (``+=``) and three-argument ``pow`` are not checked (debatable forms).
"""
import itertools
import math
import os
import random
import sys
import time
import warnings
from decimal import Decimal
from fractions import Fraction

from bounded._api import Bounded, REPLAY_HEADER

PROP = "C09"
NPROC = max(2, min(14, (os.cpu_count() or 4) - 2))


# =====================================================================================
# common helpers
# =====================================================================================

def _quiet():
    """Silence param's logger / warnings; returns a restore function."""
    import logging
    import param
    logger = param.parameterized.get_logger()
    old = logger.level
    logger.setLevel(logging.CRITICAL + 10)
    cm = warnings.catch_warnings()
    cm.__enter__()
    warnings.simplefilter("ignore")

    def restore():
        cm.__exit__(None, None, None)
        logger.setLevel(old)
    return restore


def canon(v):
    """Canonical, type-strict, NaN-aware description of a value (used for equality)."""
    if isinstance(v, float):
        return ("float", repr(v))
    if isinstance(v, complex):
        return ("complex", repr(v))
    if isinstance(v, (list, tuple)):
        return (type(v).__name__, tuple(canon(x) for x in v))
    if isinstance(v, (set, frozenset)):
        return (type(v).__name__, tuple(sorted((canon(x) for x in v), key=repr)))
    if isinstance(v, dict):
        return ("dict", tuple((canon(k), canon(x)) for k, x in v.items()))
    if isinstance(v, slice):
        return ("slice", canon(v.start), canon(v.stop), canon(v.step))
    return (type(v).__name__, repr(v))


def same(x, y):
    return canon(x) == canon(y)


def short(v):
    s = "%s:%r" % (type(v).__name__, v)
    return s.replace(" ", "")


def outcome(thunk):
    try:
        return ("val", thunk())
    except Exception as e:      # noqa: BLE001 - the class is the observation
        return ("exc", type(e))


def show(o):
    if o[0] == "val":
        return "val:" + short(o[1])
    if o[0] == "exc":
        c = o[1]
        if isinstance(c, frozenset):
            return "exc:" + "|".join(sorted(x.__name__ for x in c))
        return "exc:" + c.__name__
    return o[0]


# =====================================================================================
# part (a): operator table
# =====================================================================================

class Tag:
    """Operand whose every operator returns a tagged tuple (shows dispatch side and order)."""

    def __init__(self, v):
        self.v = v

    def __repr__(self):
        return "Tag(%r)" % (self.v,)

    @staticmethod
    def _ok(o):
        return isinstance(o, (int, float, Tag)) and not isinstance(o, bool)

    @staticmethod
    def _v(o):
        return o.v if isinstance(o, Tag) else o

    def __hash__(self):
        return hash(("Tag", self.v))


def _mk_tag_methods():
    names = ["add", "sub", "mul", "matmul", "truediv", "floordiv", "mod", "divmod", "pow",
             "lshift", "rshift", "and", "xor", "or"]
    for n in names:
        def fwd(self, o, _n=n):
            if not Tag._ok(o):
                return NotImplemented
            return (_n, "fwd", self.v, Tag._v(o))

        def ref(self, o, _n=n):
            if not Tag._ok(o):
                return NotImplemented
            return (_n, "ref", self.v, Tag._v(o))
        setattr(Tag, "__%s__" % n, fwd)
        setattr(Tag, "__r%s__" % n, ref)
    for n in ["lt", "le", "eq", "ne", "gt", "ge"]:
        def cmp(self, o, _n=n):
            if not Tag._ok(o):
                return NotImplemented
            return (_n, self.v, Tag._v(o))
        setattr(Tag, "__%s__" % n, cmp)
    for n in ["neg", "pos", "abs", "invert", "trunc", "floor", "ceil"]:
        def un(self, _n=n):
            return (_n, self.v)
        setattr(Tag, "__%s__" % n, un)

    def rnd(self, nd=None):
        return ("round", self.v, nd)
    Tag.__round__ = rnd

    def gi(self, k):
        return ("getitem", self.v, k)
    Tag.__getitem__ = gi


_mk_tag_methods()

# (name, plain-Python semantics, source text)
BINOPS = [
    ("add", lambda x, y: x + y, "x + y"),
    ("sub", lambda x, y: x - y, "x - y"),
    ("mul", lambda x, y: x * y, "x * y"),
    ("matmul", lambda x, y: x @ y, "x @ y"),
    ("truediv", lambda x, y: x / y, "x / y"),
    ("floordiv", lambda x, y: x // y, "x // y"),
    ("mod", lambda x, y: x % y, "x % y"),
    ("divmod", lambda x, y: divmod(x, y), "divmod(x, y)"),
    ("pow", lambda x, y: x ** y, "x ** y"),
    ("lshift", lambda x, y: x << y, "x << y"),
    ("rshift", lambda x, y: x >> y, "x >> y"),
    ("and", lambda x, y: x & y, "x & y"),
    ("xor", lambda x, y: x ^ y, "x ^ y"),
    ("or", lambda x, y: x | y, "x | y"),
]
CMPOPS = [
    ("lt", lambda x, y: x < y, "x < y", "gt"),
    ("le", lambda x, y: x <= y, "x <= y", "ge"),
    ("eq", lambda x, y: x == y, "x == y", "eq"),
    ("ne", lambda x, y: x != y, "x != y", "ne"),
    ("gt", lambda x, y: x > y, "x > y", "lt"),
    ("ge", lambda x, y: x >= y, "x >= y", "le"),
]
UNOPS = [
    ("neg", lambda x: -x, "-x"),
    ("pos", lambda x: +x, "+x"),
    ("abs", lambda x: abs(x), "abs(x)"),
    ("invert", lambda x: ~x, "~x"),
    ("round", lambda x: round(x), "round(x)"),
    ("round1", lambda x: round(x, 1), "round(x, 1)"),
    ("roundm1", lambda x: round(x, -1), "round(x, -1)"),
    ("roundNone", lambda x: round(x, None), "round(x, None)"),
    ("trunc", lambda x: math.trunc(x), "math.trunc(x)"),
    ("floor", lambda x: math.floor(x), "math.floor(x)"),
    ("ceil", lambda x: math.ceil(x), "math.ceil(x)"),
]
UN_SLOT = {"round1": "round", "roundm1": "round", "roundNone": "round"}

# data-model list of operator slots that can return an arbitrary object
SLOT_LIST = (["__%s__" % n for n, _, _ in BINOPS] + ["__r%s__" % n for n, _, _ in BINOPS] +
             ["__%s__" % n for n, _, _, _ in CMPOPS] +
             ["__neg__", "__pos__", "__abs__", "__invert__", "__round__", "__trunc__",
              "__floor__", "__ceil__", "__getitem__", "__call__"])

LATTICE_SRC_Q = ["0", "1", "-1", "2", "7", "True", "1.5", "float('inf')",
                 "float('nan')", "Fraction(1, 3)", "Decimal('1.5')", "'ab'", "[1, 2]",
                 "{1, 2}", "None", "Tag(4)"]
LATTICE_SRC_T = LATTICE_SRC_Q + ["3", "-2.5", "(1, 2)", "{'a': 1}", "2**70", "False", "0.0",
                                 "(2+1j)", "''", "b'x'", "()", "frozenset({2, 3})", "Tag(2.5)",
                                 "'%d'", "-7"]
_LENV = {"Fraction": Fraction, "Decimal": Decimal, "Tag": Tag, "math": math}

GETITEM_CONT = ["[10, 20, 30]", "(1, 2)", "'abc'", "{'a': 1, 0: 'z'}", "b'xy'", "range(5)",
                "Tag(3)", "7", "None"]
GETITEM_KEYS = ["0", "1", "-1", "5", "'a'", "slice(0, 2)", "slice(None, None, -1)", "None",
                "True", "(0, 1)"]


def _val(src):
    return eval(src, dict(_LENV))     # fresh object each time


def _danger(name, y):
    """Operand pairs that would not terminate / exhaust memory in plain Python."""
    if name in ("pow", "lshift") and isinstance(y, int) and abs(y) > 100:
        return True
    return False


class _Probe:
    """Foreign operand recording which reflected / mirrored method Python hands ``x`` to."""

    def __init__(self):
        self.got = []


def _mk_probe():
    for n, _, _ in BINOPS:
        def ref(self, o, _n=n):
            self.got.append(("__r%s__" % _n, o))
            return _SENT
        setattr(_Probe, "__r%s__" % n, ref)
    for n, _, _, _ in CMPOPS:
        def cmp(self, o, _n=n):
            self.got.append(("__%s__" % _n, o))
            return _SENT
        setattr(_Probe, "__%s__" % n, cmp)
    _Probe.__hash__ = lambda self: 0


_SENT = object()
_mk_probe()


def _dispatched_to_rx(fn, x, slot):
    """Does Python hand ``x <op> r`` directly to r's method ``slot`` (called with x itself)?
    Decided with a foreign probe object that defines only reflected/comparison methods."""
    pr = _Probe()
    try:
        res = fn(x, pr)
    except Exception:       # the left operand's own method raised: never reaches r
        return False
    return res is _SENT and len(pr.got) == 1 and pr.got[0][0] == slot and pr.got[0][1] is x


def _optable_task(args):
    """One slot family on the lattice.  Returns (counts, failures)."""
    kind, name, tier = args
    restore = _quiet()
    try:
        return _optable_task_inner(kind, name, tier)
    finally:
        restore()


def _read(build):
    """Build the expression and read it; -> (dispatched?, outcome, stage)."""
    from param import rx
    try:
        e = build()
    except Exception as ex:     # noqa: BLE001
        return True, ("exc", type(ex)), "build"
    if not isinstance(e, rx):
        return False, None, None
    try:
        return True, ("val", e.rx.value), "read"
    except Exception as ex:     # noqa: BLE001
        return True, ("exc", type(ex)), "read"


def _cmp_out(got, want):
    if got[0] != want[0]:
        return False
    if got[0] == "val":
        return same(got[1], want[1])
    return got[1] is want[1]


def _optable_task_inner(kind, name, tier):
    import param
    from param import rx

    class PV(param.Parameterized):
        v = param.Parameter()

    lat = LATTICE_SRC_T if tier == "thorough" else LATTICE_SRC_Q
    n_cases = 0
    n_trivial = 0
    checks = {}
    fails = []      # (slot, form, xsrc, ysrc, want, got, stage, plain_src, rx_src)

    def record(slot, form, xs, ys, want, got, stage, psrc, rsrc):
        fails.append((slot, form, xs, ys, show(want), show(got) + "@" + stage, psrc, rsrc))

    def one(slot, form, xs, ys, plain, build, psrc, rsrc, alt=None):
        nonlocal n_cases, n_trivial
        disp, got, stage = _read(build)
        if not disp:
            n_trivial += 1
            return
        n_cases += 1
        want = outcome(plain)
        cl = "C09/optable/%s==plain" % slot
        checks[cl] = checks.get(cl, 0) + 1
        if not _cmp_out(got, want):
            # reflected comparison: Python's own reflection computes ``y <mirror> x``
            if alt is not None and _cmp_out(got, outcome(alt)):
                return
            record(slot, form, xs, ys, want, got, stage, psrc, rsrc)

    if kind == "bin":
        fn, src = [(f, s) for n, f, s in BINOPS if n == name][0]
        fslot, rslot = "__%s__" % name, "__r%s__" % name
        for xs in lat:
            for ys in lat:
                if _danger(name, _val(ys)):
                    continue
                plain = (lambda: fn(_val(xs), _val(ys)))
                # forward, constant right operand
                one(fslot, "fwd-const", xs, ys, plain, lambda: fn(rx(_val(xs)), _val(ys)),
                    src, src.replace("x", "rx(x)", 1) if name != "xor" else "rx(x) ^ y")
                # forward, reactive right operand
                one(fslot, "fwd-rx", xs, ys, plain, lambda: fn(rx(_val(xs)), rx(_val(ys))),
                    src, "RX2")
                if tier == "thorough":
                    def bp():
                        o = PV(v=_val(xs))
                        return fn(o.param.v.rx(), _val(ys))
                    one(fslot, "fwd-param", xs, ys, plain, bp, src, "PARAM")

                    def bp2():
                        o = PV(v=_val(ys))
                        return fn(rx(_val(xs)), o.param.v)
                    one(fslot, "fwd-parg", xs, ys, plain, bp2, src, "PARG")
                # reflected: only when Python dispatches to the rx operand
                if _dispatched_to_rx(fn, _val(xs), rslot):
                    one(rslot, "ref-const", xs, ys, plain, lambda: fn(_val(xs), rx(_val(ys))),
                        src, "REF")
                else:
                    n_trivial += 1
    elif kind == "cmp":
        fn, src, mirror = [(f, s, m) for n, f, s, m in CMPOPS if n == name][0]
        fslot = "__%s__" % name
        for xs in lat:
            for ys in lat:
                plain = (lambda: fn(_val(xs), _val(ys)))
                one(fslot, "fwd-const", xs, ys, plain, lambda: fn(rx(_val(xs)), _val(ys)),
                    src, "FWD")
                one(fslot, "fwd-rx", xs, ys, plain, lambda: fn(rx(_val(xs)), rx(_val(ys))),
                    src, "RX2")
                if _dispatched_to_rx(fn, _val(xs), "__%s__" % mirror):
                    # Python calls the mirrored slot of the rx operand: ``y <mirror> x``
                    mfn = [f for n, f, _, _ in CMPOPS if n == mirror][0]
                    one("__%s__" % mirror, "ref-const", xs, ys, plain,
                        lambda: fn(_val(xs), rx(_val(ys))), src, "REF",
                        alt=(lambda: mfn(_val(ys), _val(xs))))
                else:
                    n_trivial += 1
    elif kind == "un":
        for uname, fn, src in UNOPS:
            slot = "__%s__" % UN_SLOT.get(uname, uname)
            for xs in lat:
                plain = (lambda: fn(_val(xs)))
                one(slot, "unary:" + uname, xs, "-", plain, lambda: fn(rx(_val(xs))), src, "UN")
                if tier == "thorough":
                    def bp():
                        o = PV(v=_val(xs))
                        return fn(o.param.v.rx())
                    one(slot, "unary-param:" + uname, xs, "-", plain, bp, src, "UNP")
        # reactive ndigits
        for xs in ["2.567", "1234", "Fraction(1, 3)", "'ab'"]:
            for ys in ["1", "-2", "None", "'a'"]:
                plain = (lambda: round(_val(xs), _val(ys)))
                one("__round__", "round-rxnd", xs, ys, plain,
                    lambda: round(rx(_val(xs)), rx(_val(ys))), "round(x, y)", "RND")
    elif kind == "getitem":
        for xs in GETITEM_CONT:
            for ys in GETITEM_KEYS:
                plain = (lambda: _val(xs)[_val(ys)])
                one("__getitem__", "fwd-const", xs, ys, plain, lambda: rx(_val(xs))[_val(ys)],
                    "x[y]", "GI")
                one("__getitem__", "fwd-rx", xs, ys, plain,
                    lambda: rx(_val(xs))[rx(_val(ys))], "x[y]", "GI2")
        # slices with reactive components
        for xs in ["[10, 20, 30, 40]", "'abcd'", "(1, 2, 3)"]:
            for lo in ["0", "1", "-1", "None"]:
                for hi in ["2", "None", "-1"]:
                    plain = (lambda: _val(xs)[_val(lo):_val(hi)])
                    one("__getitem__", "slice-rx", xs, lo + ":" + hi, plain,
                        lambda: rx(_val(xs))[rx(_val(lo)):_val(hi)], "x[lo:hi]", "SL")
                    one("__getitem__", "slice-rx2", xs, lo + ":" + hi, plain,
                        lambda: rx(_val(xs))[_val(lo):rx(_val(hi))], "x[lo:hi]", "SL2")
    elif kind == "call":
        calls = [
            ("'abc'", "upper", "()", lambda x: x.upper(), lambda r: r.upper()),
            ("'a,b'", "split", "(',')", lambda x: x.split(","), lambda r: r.split(",")),
            ("'a b'", "split", "(sep=' ')", lambda x: x.split(sep=" "), lambda r: r.split(sep=" ")),
            ("'a,b'", "split", "(rx(','))", lambda x: x.split(","), lambda r: r.split(rx(","))),
            ("[3, 1, 2]", "index", "(rx(1))", lambda x: x.index(1), lambda r: r.index(rx(1))),
            ("[3, 1, 2]", "index", "(9)", lambda x: x.index(9), lambda r: r.index(9)),
            ("[3, 1, 2]", "count", "(3)", lambda x: x.count(3), lambda r: r.count(3)),
            ("5", "bit_length", "()", lambda x: x.bit_length(), lambda r: r.bit_length()),
            ("(2+1j)", "real", "", lambda x: x.real, lambda r: r.real),
            ("(2+1j)", "real+1", "", lambda x: x.real + 1, lambda r: r.real + 1),
            ("Fraction(1, 3)", "denominator*2", "", lambda x: x.denominator * 2,
             lambda r: r.denominator * 2),
            ("{'a': 1}", "get", "('a')", lambda x: x.get("a"), lambda r: r.get("a")),
            ("{'a': 1}", "get", "('b', rx(7))", lambda x: x.get("b", 7),
             lambda r: r.get("b", rx(7))),
            ("'a-b'", "replace.upper", "", lambda x: x.replace("-", "+").upper(),
             lambda r: r.replace("-", "+").upper()),
            ("'ab'", "upper()[0]", "", lambda x: x.upper()[0], lambda r: r.upper()[0]),
        ]
        for xs, mname, argsrc, pf, rf in calls:
            plain = (lambda: pf(_val(xs)))
            one("__call__", "call:" + mname + argsrc, xs, "-", plain, lambda: rf(rx(_val(xs))),
                "x.%s%s" % (mname, argsrc), "CALL")
    return {"cases": n_cases, "trivial": n_trivial, "checks": checks, "fails": fails,
            "kind": kind, "name": name}


def _optable_replay(slot, form, xs, ys, psrc, clause, witness):
    hdr = REPLAY_HEADER.format(prop=PROP, name="replay_c09_optable.py", clause=clause,
                               witness=witness)
    body = '''
import math, warnings
warnings.simplefilter('ignore')
from fractions import Fraction
from decimal import Decimal
import param
from param import rx

class Tag:
    """operand whose operators return tagged tuples (shows dispatch side and operand order)"""
    def __init__(self, v): self.v = v
    def __repr__(self): return 'Tag(%r)' % (self.v,)
def _ok(o): return isinstance(o, (int, float, Tag)) and not isinstance(o, bool)
def _v(o): return o.v if isinstance(o, Tag) else o
for _n in ['add','sub','mul','matmul','truediv','floordiv','mod','divmod','pow','lshift',
           'rshift','and','xor','or']:
    setattr(Tag, '__%s__' % _n, lambda s, o, _n=_n: (_n, 'fwd', s.v, _v(o)) if _ok(o) else NotImplemented)
    setattr(Tag, '__r%s__' % _n, lambda s, o, _n=_n: (_n, 'ref', s.v, _v(o)) if _ok(o) else NotImplemented)
for _n in ['lt','le','eq','ne','gt','ge']:
    setattr(Tag, '__%s__' % _n, lambda s, o, _n=_n: (_n, s.v, _v(o)) if _ok(o) else NotImplemented)
for _n in ['neg','pos','abs','invert','trunc','floor','ceil']:
    setattr(Tag, '__%s__' % _n, lambda s, _n=_n: (_n, s.v))
Tag.__round__ = lambda s, nd=None: ('round', s.v, nd)
Tag.__getitem__ = lambda s, k: ('getitem', s.v, k)
Tag.__hash__ = lambda s: hash(('Tag', s.v))

def X(): return XSRC
def Y(): return YSRC
def f(x, y=None): return PLAIN

def outcome(th):
    try: return ('val', th())
    except Exception as e: return ('exc', type(e).__name__)
def canon(v):
    if isinstance(v, (list, tuple)): return (type(v).__name__, tuple(canon(i) for i in v))
    return (type(v).__name__, repr(v))

want = outcome(lambda: f(X(), Y()))
def build():
    BUILD
    return e.rx.value
got = outcome(build)
print('slot', SLOT, 'form', FORM)
print('plain python :', want)
print('rx expression:', got)
ok = (want[0] == got[0]) and (canon(want[1]) == canon(got[1]))
if not ok:
    print('REPRODUCED: %s differs from plain Python (%r vs %r)' % (SLOT, got, want))
    sys.exit(1)
print('NOT-REPRODUCED')
sys.exit(0)
'''
    if form.startswith("fwd-const") or form.startswith("unary:") or form.startswith("call:") \
            or form == "slice-rx":
        build = "e = f(rx(X()), Y())"
    elif form in ("fwd-rx", "round-rxnd", "slice-rx2"):
        build = "e = f(rx(X()), rx(Y()))"
    elif form == "ref-const":
        build = "e = f(X(), rx(Y()))"
    elif form.startswith("fwd-param") or form.startswith("unary-param"):
        build = ("class PV(param.Parameterized):\n        v = param.Parameter()\n"
                 "    e = f(PV(v=X()).param.v.rx(), Y())")
    elif form == "fwd-parg":
        build = ("class PV(param.Parameterized):\n        v = param.Parameter()\n"
                 "    e = f(rx(X()), PV(v=Y()).param.v)")
    else:
        build = "e = f(rx(X()), Y())"
    plain = psrc
    ysrc = ys
    if form.startswith("slice-rx"):
        lo, hi = ys.split(":")
        ysrc = "(%s, %s)" % (lo, hi)
        if form == "slice-rx":
            plain = "x[(y[0]):(y[1])]"
            build = "lo, hi = Y(); e = rx(X())[rx(lo):hi]"
        else:
            build = "lo, hi = Y(); e = rx(X())[lo:rx(hi)]"
    if form.startswith("call:"):
        return None
    if ys == "-":
        ysrc = "None"
    return hdr + (body.replace("XSRC", xs).replace("YSRC", ysrc).replace("PLAIN", plain)
                  .replace("BUILD", build).replace("SLOT", repr(slot)).replace("FORM", repr(form)))


# =====================================================================================
# part (b): expression DAGs x histories
# =====================================================================================
# pure functions used by pipe / map / bind
def inc(x):
    return x + 1


def f_sub(x, y):
    return x * 3 - y


def mk(x, y):
    return [x, y, x + y]


def f_bind(u, v):
    return u * v


FN_SRC = '''def inc(x): return x + 1
def f_sub(x, y): return x * 3 - y
def mk(x, y): return [x, y, x + y]
def f_bind(u, v): return u * v
'''

INIT = {"a": 1, "b": [3, 1, 2], "p": 2}
CYCLE = {"a": [1, 2, 0, 3, 5], "b": [[3, 1, 2], [0, 1], [5], [2, 2, 0, 1], [1]],
         "p": [2, 0, 1, 3, 4]}
INVALID = None
LEAF_TYPE = {"A": "i", "P": "i", "F": "i", "B": "l"}
LEAF_INPUTS = {"A": ("a",), "B": ("b",), "P": ("p",), "F": ("a", "p")}
CONST = {"K2": 2, "KL": [2, 0], "KN": None}
CONST_TYPE = {"K2": "i", "KL": "l"}

# name: (self type, arg types, result type, mode, rx source, plain source)
#   mode 'op'  : self converted to an rx object (rx / Parameter.rx() / rx(function))
#   mode 'ns'  : called through the .rx namespace of whatever the self object is
#   mode 'raw' : self handed over as a reference (bind)
CT = {
    "add":      ("i", ("i",), "i", "op", "({s} + {0})", "({s} + {0})"),
    "rsub":     ("i", ("i",), "i", "op", "({0} - {s})", "({0} - {s})"),
    "floordiv": ("i", ("i",), "i", "op", "({s} // {0})", "({s} // {0})"),
    "rfloordiv": ("i", ("i",), "i", "op", "({0} // {s})", "({0} // {s})"),
    "neg":      ("i", (), "i", "op", "(-{s})", "(-{s})"),
    "lt":       ("i", ("i",), "i", "op", "({s} < {0})", "({s} < {0})"),
    "real":     ("i", (), "i", "op", "{s}.real", "{s}.real"),
    "bitlen":   ("i", (), "i", "op", "{s}.bit_length()", "{s}.bit_length()"),
    "getitem":  ("l", ("i",), "i", "op", "{s}[{0}]", "{s}[{0}]"),
    "slice":    ("l", ("i",), "l", "op", "{s}[{0}:]", "{s}[{0}:]"),
    "count":    ("l", ("i",), "i", "op", "{s}.count({0})", "{s}.count({0})"),
    "concat":   ("l", ("l",), "l", "op", "({s} + {0})", "({s} + {0})"),
    "pipe":     ("i", (), "i", "ns", "{s}.rx.pipe(inc)", "inc({s})"),
    "pipe2":    ("i", ("i",), "i", "ns", "{s}.rx.pipe(f_sub, {0})", "f_sub({s}, {0})"),
    "pipekw":   ("i", ("i",), "i", "ns", "{s}.rx.pipe(f_sub, y={0})", "f_sub({s}, y={0})"),
    "mklist":   ("i", ("i",), "l", "ns", "{s}.rx.pipe(mk, {0})", "mk({s}, {0})"),
    "sum":      ("l", (), "i", "ns", "{s}.rx.pipe(sum)", "sum({s})"),
    "where":    ("i", ("i", "i"), "i", "ns", "{s}.rx.where({0}, {1})", "({0} if {s} else {1})"),
    "and_":     ("i", ("i",), "i", "ns", "{s}.rx.and_({0})", "({s} and {0})"),
    "or_":      ("i", ("i",), "i", "ns", "{s}.rx.or_({0})", "({s} or {0})"),
    "not_":     ("i", (), "i", "ns", "{s}.rx.not_()", "(not {s})"),
    "bool":     ("i", (), "i", "ns", "{s}.rx.bool()", "bool({s})"),
    "len":      ("l", (), "i", "ns", "{s}.rx.len()", "len({s})"),
    "in_":      ("i", ("l",), "i", "ns", "{s}.rx.in_({0})", "({s} in {0})"),
    "is_none":  ("i", (), "i", "ns", "{s}.rx.is_(None)", "({s} is None)"),
    "is_not_none": ("i", (), "i", "ns", "{s}.rx.is_not(None)", "({s} is not None)"),
    "map":      ("l", (), "l", "ns", "{s}.rx.map(inc)", "[inc(_v) for _v in {s}]"),
    "map2":     ("l", ("i",), "l", "ns", "{s}.rx.map(f_sub, {0})",
                 "[f_sub(_v, {0}) for _v in {s}]"),
    "bind2":    ("i", ("i",), "i", "raw", "bind(f_sub, {s}, {0})", "f_sub({s}, {0})"),
    "bindkw":   ("i", ("i",), "i", "raw", "bind(f_sub, {s}, y={0})", "f_sub({s}, y={0})"),
}
CT_ORDER = list(CT)

# plain-Python semantics of the strict constructors (oracle; written from the Python construct)
PLAIN = {
    "add": lambda s, r: s + r,
    "rsub": lambda s, r: r - s,
    "floordiv": lambda s, r: s // r,
    "rfloordiv": lambda s, r: r // s,
    "neg": lambda s: -s,
    "lt": lambda s, r: s < r,
    "real": lambda s: s.real,
    "bitlen": lambda s: s.bit_length(),
    "getitem": lambda s, r: s[r],
    "slice": lambda s, r: s[r:],
    "count": lambda s, r: s.count(r),
    "concat": lambda s, r: s + r,
    "pipe": lambda s: inc(s),
    "pipe2": lambda s, r: f_sub(s, r),
    "pipekw": lambda s, r: f_sub(s, y=r),
    "mklist": lambda s, r: mk(s, r),
    "sum": lambda s: sum(s),
    "not_": lambda s: not s,
    "bool": lambda s: bool(s),
    "len": lambda s: len(s),
    "in_": lambda s, r: s in r,
    "is_none": lambda s: s is None,
    "is_not_none": lambda s: s is not None,
    "map": lambda s: [inc(v) for v in s],
    "map2": lambda s, r: [f_sub(v, r) for v in s],
    "bind2": lambda s, r: f_sub(s, r),
    "bindkw": lambda s, r: f_sub(s, y=r),
}

AMB = ("amb",)


class Oracle:
    """denote(node, sigma): plain-Python value / raised exception of the expression tree."""

    def __init__(self, prog):
        self.prog = prog

    def ev_all(self, sigma):
        memo = {}
        return [self._ev(j, sigma, memo) for j in range(len(self.prog))]

    def ev(self, ref, sigma, memo=None):
        return self._ev(ref, sigma, {} if memo is None else memo)

    def _ev(self, ref, sigma, memo):
        if ref in memo:
            return memo[ref]
        if isinstance(ref, int):
            out = self._node(ref, sigma, memo)
        elif ref == "A":
            out = ("val", sigma["a"])
        elif ref == "B":
            out = ("val", sigma["b"])
        elif ref == "P":
            out = ("val", sigma["p"])
        elif ref == "F":
            out = self._apply(f_bind, [("val", sigma["a"]), ("val", sigma["p"])])
        else:
            out = ("val", CONST[ref])
        memo[ref] = out
        return out

    @staticmethod
    def _apply(fn, outs):
        if any(o is AMB for o in outs):
            return AMB
        excs = [o[1] for o in outs if o[0] == "exc"]
        if excs:
            return ("exc", frozenset().union(*excs))
        try:
            return ("val", fn(*[o[1] for o in outs]))
        except Exception as e:      # noqa: BLE001
            return ("exc", frozenset([type(e)]))

    def _node(self, j, sigma, memo):
        ctor, s = self.prog[j][0], self.prog[j][1]
        args = self.prog[j][2:]
        so = self._ev(s, sigma, memo)
        if ctor == "where":
            if so is AMB or so[0] == "exc":
                return so
            return self._ev(args[0] if so[1] else args[1], sigma, memo)
        if ctor in ("and_", "or_"):
            if so is AMB or so[0] == "exc":
                return so
            ro = self._ev(args[0], sigma, memo)
            skip = (not so[1]) if ctor == "and_" else bool(so[1])
            if skip:
                # Python never evaluates the right operand here; the helper got it evaluated
                return so if (ro is not AMB and ro[0] == "val") else AMB
            return ro
        outs = [so] + [self._ev(r, sigma, memo) for r in args]
        return self._apply(PLAIN[ctor], outs)


def out_ok(got, want):
    """got: ('val', v) | ('exc', cls);  want: oracle outcome."""
    if want is AMB:
        return True
    if got[0] != want[0]:
        return False
    if got[0] == "val":
        return same(got[1], want[1])
    return got[1] in want[1]


# ---- program properties ---------------------------------------------------------------

def prog_depth(prog):
    d = []
    for node in prog:
        dd = 0
        for r in node[1:]:
            if isinstance(r, int):
                dd = max(dd, d[r])
        d.append(dd + 1)
    return d[-1], d


def prog_inputs(prog):
    used = set()
    for node in prog:
        for r in node[1:]:
            if r in LEAF_INPUTS:
                used.update(LEAF_INPUTS[r])
    return [x for x in ("a", "b", "p") if x in used]


def prog_connected(prog):
    n = len(prog)
    used = set()
    for node in prog:
        for r in node[1:]:
            if isinstance(r, int):
                used.add(r)
    return all(j in used for j in range(n - 1))


def prog_key(prog):
    return ";".join("%s(%s)" % (n[0], ",".join(str(r) for r in n[1:])) for n in prog)


def prog_valid_initially(prog):
    sig = {k: (list(v) if isinstance(v, list) else v) for k, v in INIT.items()}
    outs = Oracle(prog).ev_all(sig)
    return all(o is not AMB and o[0] == "val" for o in outs)


def render(prog, which):
    """Source lines building the program (which='rx') / expression strings (which='plain')."""
    idx = 4 if which == "rx" else 5
    names = []
    lines = []
    for j, node in enumerate(prog):
        ctor, s = node[0], node[1]
        mode = CT[ctor][3]
        if which == "rx":
            def ref_arg(r):
                if isinstance(r, int):
                    return "n%d" % r
                return {"A": "a", "B": "b", "P": "p.param.x", "F": "F"}.get(r, repr(CONST.get(r)))

            def ref_self(r):
                if mode == "op":
                    if isinstance(r, int):
                        return "rx(n%d)" % r if _is_fn_node(prog, r) else "n%d" % r
                    return {"A": "a", "B": "b", "P": "p.param.x.rx()", "F": "rx(F)"}[r]
                return ref_arg(r)
            src = CT[ctor][idx].format(*[ref_arg(r) for r in node[2:]], s=ref_self(s))
            lines.append("n%d = %s" % (j, src))
        else:
            def ref_p(r):
                if isinstance(r, int):
                    return names[r]
                return {"A": "va", "B": "vb", "P": "vp", "F": "f_bind(va, vp)"}.get(
                    r, repr(CONST.get(r)))
            names.append(CT[ctor][idx].format(*[ref_p(r) for r in node[2:]], s=ref_p(s)))
    return lines if which == "rx" else names


def prog_via(prog, j):
    """Which special (non-rx) node kinds node j depends on, transitively, itself included."""
    cone = set()
    todo = [j]
    while todo:
        k = todo.pop()
        if k in cone:
            continue
        cone.add(k)
        todo += [r for r in prog[k][1:] if isinstance(r, int)]
    ctors = {prog[k][0] for k in cone}
    if "where" in ctors:
        return "where"
    if ctors & {"bind2", "bindkw"}:
        return "bind"
    return "rx" if len(cone) > 1 else "leaf"


def _is_fn_node(prog, j):
    """where / bind nodes are bound functions, not rx objects."""
    return prog[j][0] in ("where", "bind2", "bindkw")


# ---- building the real expression --------------------------------------------------------

_PCLS = None


def _pcls():
    global _PCLS
    if _PCLS is None:
        import param

        class P(param.Parameterized):
            x = param.Parameter(default=2)
        _PCLS = P
    return _PCLS


class Live:
    """The real objects of one case."""

    def __init__(self, prog, init=None, upto=None):
        """``upto``: build only the first ``upto`` nodes now, the rest with ``derive_rest`` (part c)."""
        from param import rx, bind
        init = INIT if init is None else init
        self.prog = prog
        self.rx, self.bind = rx, bind
        self.p = _pcls()(x=init["p"])
        self.a = rx(init["a"])
        self.b = rx(list(init["b"]) if isinstance(init["b"], list) else init["b"])
        self.F = bind(f_bind, self.a, self.p.param.x)
        self.nodes = []
        for node in (prog if upto is None else prog[:upto]):
            self.nodes.append(self._make(prog, node))

    def derive_rest(self):
        """build the nodes not built yet, in program order (expressions derived mid-history)."""
        for node in self.prog[len(self.nodes):]:
            self.nodes.append(self._make(self.prog, node))

    def read_leaf(self, x):
        r = self.a if x == "a" else self.b
        try:
            return ("val", r.rx.value)
        except Exception as e:      # noqa: BLE001
            return ("exc", type(e))

    def _arg(self, r):
        if isinstance(r, int):
            return self.nodes[r]
        if r == "A":
            return self.a
        if r == "B":
            return self.b
        if r == "P":
            return self.p.param.x
        if r == "F":
            return self.F
        c = CONST[r]
        return list(c) if isinstance(c, list) else c

    def _self_rx(self, r):
        rx = self.rx
        if isinstance(r, int):
            n = self.nodes[r]
            return n if isinstance(n, rx) else rx(n)
        if r == "A":
            return self.a
        if r == "B":
            return self.b
        if r == "P":
            return self.p.param.x.rx()
        return rx(self.F)

    def _make(self, prog, node):
        ctor, s = node[0], node[1]
        mode = CT[ctor][3]
        args = [self._arg(r) for r in node[2:]]
        bind = self.bind
        if mode == "op":
            e = self._self_rx(s)
            if ctor == "add":
                return e + args[0]
            if ctor == "rsub":
                return args[0] - e
            if ctor == "floordiv":
                return e // args[0]
            if ctor == "rfloordiv":
                return args[0] // e
            if ctor == "neg":
                return -e
            if ctor == "lt":
                return e < args[0]
            if ctor == "real":
                return e.real
            if ctor == "bitlen":
                return e.bit_length()
            if ctor == "getitem":
                return e[args[0]]
            if ctor == "slice":
                return e[args[0]:]
            if ctor == "count":
                return e.count(args[0])
            if ctor == "concat":
                return e + args[0]
        elif mode == "ns":
            ns = self._arg(s).rx
            if ctor == "pipe":
                return ns.pipe(inc)
            if ctor == "pipe2":
                return ns.pipe(f_sub, args[0])
            if ctor == "pipekw":
                return ns.pipe(f_sub, y=args[0])
            if ctor == "mklist":
                return ns.pipe(mk, args[0])
            if ctor == "sum":
                return ns.pipe(sum)
            if ctor == "where":
                return ns.where(args[0], args[1])
            if ctor == "and_":
                return ns.and_(args[0])
            if ctor == "or_":
                return ns.or_(args[0])
            if ctor == "not_":
                return ns.not_()
            if ctor == "bool":
                return ns.bool()
            if ctor == "len":
                return ns.len()
            if ctor == "in_":
                return ns.in_(args[0])
            if ctor == "is_none":
                return ns.is_(None)
            if ctor == "is_not_none":
                return ns.is_not(None)
            if ctor == "map":
                return ns.map(inc)
            if ctor == "map2":
                return ns.map(f_sub, args[0])
        else:
            if ctor == "bind2":
                return bind(f_sub, self._arg(s), args[0])
            if ctor == "bindkw":
                return bind(f_sub, self._arg(s), y=args[0])
        raise AssertionError(ctor)

    def set_input(self, name, value):
        """Returns the exception class escaping from the update (None normally)."""
        try:
            if name == "a":
                self.a.rx.value = value
            elif name == "b":
                self.b.rx.value = value
            else:
                self.p.x = value
        except Exception as e:      # noqa: BLE001  tolerated, see module docstring
            return type(e)
        return None

    def read(self, j):
        n = self.nodes[j]
        try:
            return ("val", n.rx.value)
        except Exception as e:      # noqa: BLE001
            return ("exc", type(e))


# ---- histories ------------------------------------------------------------------------------

def gen_histories(prog, L, read_nodes):
    """All op sequences of length <= L that end in a read and are not a proper prefix of another
    generated sequence ending in a read (every read on the way is checked), i.e. all sequences of
    exactly L ops ending in a read, with disabled ops pruned:
      u<x> update input x (next value of its cycle; only while valid)
      i<x> make input x invalid (None; only while valid)     r<x> repair (only while invalid)
      R<k> read node k (no two identical reads in a row)
    """
    inputs = prog_inputs(prog)
    out = []

    def rec(seq, invalid):
        if len(seq) == L:
            if seq[-1][0] == "R":
                out.append(tuple(seq))
            return
        last = seq[-1] if seq else None
        remaining = L - len(seq)
        for x in inputs:
            if remaining > 1:       # a modifying op must be followed by a read eventually
                if x in invalid:
                    rec(seq + ["r" + x], invalid - {x})
                else:
                    rec(seq + ["u" + x], invalid)
                    rec(seq + ["i" + x], invalid | {x})
        for k in read_nodes:
            op = "R%d" % k
            if op == last:
                continue
            rec(seq + [op], invalid)
    rec([], frozenset())
    return out


def run_history(prog, hist, watch, oracle=None):
    """Drive one history on fresh real objects.  Returns (n_read_checks, n_watch_checks, fails);
    fail = (clause, kind, step_index, detail)"""
    oracle = oracle or Oracle(prog)
    live = Live(prog)
    top = len(prog) - 1
    sigma = {k: (list(v) if isinstance(v, list) else v) for k, v in INIT.items()}
    pos = {"a": 0, "b": 0, "p": 0}
    lastvalid = dict(sigma)
    seen = []
    if watch:
        live.nodes[top].rx.watch(seen.append)
    fails = []
    nread = nwatch = 0
    upd_raised = False
    snaps = []          # earlier input states (for classifying a wrong read as stale)
    for step, op in enumerate(hist):
        if op[0] == "R":
            k = int(op[1:])
            want = oracle.ev(k, sigma)
            got = live.read(k)
            if want is not AMB:
                nread += 1
                if not out_ok(got, want):
                    # culprit: the lowest node whose own value disagrees with the oracle
                    cul, cgot, cwant = k, got, want
                    for j in range(k):
                        wj = oracle.ev(j, sigma)
                        if wj is AMB:
                            continue
                        gj = live.read(j)
                        if not out_ok(gj, wj):
                            cul, cgot, cwant = j, gj, wj
                            break
                    kind = _classify(prog, oracle, sigma, cul, cgot, cwant, snaps)
                    fails.append(("C09/dag/value==denote", kind, step,
                                  "read node=%d got=%s want=%s; culprit node=%d (%s) got=%s want=%s "
                                  "upd_raised=%d" % (k, show(got), show(want), cul, prog[cul][0],
                                                     show(cgot), show(cwant), upd_raised), cul))
                    break       # state after a failure is not meaningful any more
            continue
        x = op[1]
        before = oracle.ev(top, sigma) if watch else None
        snaps.append(dict(sigma))
        if op[0] == "u":
            pos[x] += 1
            v = CYCLE[x][pos[x] % len(CYCLE[x])]
            v = list(v) if isinstance(v, list) else v
            sigma[x] = v
            lastvalid[x] = v
        elif op[0] == "i":
            v = INVALID
            sigma[x] = v
        else:
            v = lastvalid[x]
            v = list(v) if isinstance(v, list) else v
            sigma[x] = v
        n0 = len(seen)
        exc = live.set_input(x, v)
        if exc is not None:
            upd_raised = True
        if watch:
            after = oracle.ev(top, sigma)
            calls = seen[n0:]
            if after is not AMB and after[0] == "val" and exc is None:
                changed = (before is not AMB and before[0] == "val"
                           and not same(before[1], after[1]))
                if changed:
                    nwatch += 1
                    if not calls:
                        fails.append(("C09/watch/called-on-change", "not-called", step,
                                      "before=%s after=%s" % (show(before), show(after)), top))
                        break
                if calls:
                    nwatch += 1
                    if not same(calls[-1], after[1]):
                        got = live.read(top)
                        if not out_ok(got, after):
                            # the expression itself is wrong here: a value failure, not a watch one
                            kind = _classify(prog, oracle, sigma, top, got, after, snaps)
                            fails.append(("C09/dag/value==denote", kind, step,
                                          "(seen through the watch callback) read node=%d got=%s "
                                          "want=%s" % (top, show(got), show(after)), top))
                        else:
                            fails.append(("C09/watch/fresh-value", "wrong-arg", step,
                                          "callback got %s, fresh value %s" % (
                                              short(calls[-1]), show(after)), top))
                        break
    return nread, nwatch, fails


def _classify(prog, oracle, sigma, cul, cgot, cwant, snaps):
    """'stale' = history dependent: the same expression built afresh on the same input values
    gives the right answer (cache / invalidation defect); otherwise the kind of disagreement
    (operator-semantics defect)."""
    kind = _read_kind(cgot, cwant)
    try:
        fresh = Live(prog, init=sigma)
        if out_ok(fresh.read(cul), cwant):
            return "stale"
        return kind
    except Exception:       # cannot be built on these inputs (attribute access on an invalid value)
        pass
    # fallback: does the outcome correspond to some mixture of earlier input values?
    vals = {}
    for sg in snaps + [sigma]:
        for x, v in sg.items():
            if not any(same(v, w) for w in vals.setdefault(x, [])):
                vals[x].append(v)
    names = sorted(vals)
    for combo in itertools.product(*[vals[x] for x in names]):
        mixed = dict(zip(names, combo))
        if all(same(mixed[x], sigma[x]) for x in names):
            continue
        wo = oracle.ev(cul, mixed)
        if wo is not AMB and out_ok(cgot, wo):
            return "stale"      # the outcome the node had before (some of) the inputs changed
    return kind


def _read_kind(got, want):
    if want[0] == "val" and got[0] == "val":
        return "wrong-value"
    if want[0] == "val":
        return "raises"
    if got[0] == "val":
        return "no-raise"
    return "wrong-exception"


# ---- program enumeration -------------------------------------------------------------------

def depth1_programs():
    progs = []
    for ctor in CT_ORDER:
        st, ats, rt, mode = CT[ctor][:4]
        selfs = [l for l in ("A", "P", "F", "B") if LEAF_TYPE[l] == st]
        argsets = []
        for at in ats:
            if at == "i":
                argsets.append(["K2", "A", "P", "F"])
            else:
                argsets.append(["KL", "B"])
        for s in selfs:
            for combo in itertools.product(*argsets):
                progs.append(((ctor, s) + tuple(combo),))
    return [p for p in progs if prog_valid_initially(p)]


def _S(*nodes):
    return tuple(nodes)


# hand-picked shapes named in the property's quantifier (always included)
FIXED = [
    # shared sub-expressions
    _S(("add", "A", "K2"), ("rsub", 0, 0)),
    _S(("add", "A", "K2"), ("floordiv", 0, "A")),
    _S(("add", "A", "P"), ("pipe2", 0, 0), ("rsub", 1, 0)),
    _S(("add", "A", "K2"), ("rsub", "P", 0), ("floordiv", 1, 0)),
    _S(("mklist", "A", "P"), ("getitem", 0, "A"), ("count", 0, 1)),
    # input used both as pipeline root and as argument
    _S(("rsub", "A", "A"),),
    _S(("floordiv", "A", "A"),),
    _S(("add", "A", "K2"), ("rsub", 0, "A"), ("floordiv", 1, "A")),
    _S(("where", "A", "A", "P"),),
    _S(("pipe2", "P", "P"), ("where", 0, "P", 0)),
    _S(("getitem", "B", "A"), ("count", "B", 0)),
    _S(("sum", "B"), ("count", "B", 0)),
    _S(("add", "F", "A"), ("rsub", 0, "P")),
    _S(("bind2", "A", "A"), ("add", 0, "A")),
    # nested where
    _S(("where", "A", "P", "K2"), ("where", 0, "A", "P")),
    _S(("where", "A", "P", "K2"), ("where", "P", 0, "A")),
    _S(("where", "A", "P", "K2"), ("where", "P", "A", 0)),
    _S(("where", "A", "K2", "P"), ("where", "P", "A", "K2"), ("where", 0, 1, "F")),
    _S(("lt", "A", "P"), ("where", 0, "A", "P"), ("where", 0, 1, "K2")),
    _S(("add", "A", "K2"), ("rsub", "P", "K2"), ("where", "F", 0, 1)),
    _S(("floordiv", "P", "A"), ("where", "A", 0, "K2")),
    _S(("floordiv", "P", "A"), ("where", 0, "A", "P")),
    _S(("getitem", "B", "A"), ("where", "P", 0, "K2"), ("add", 1, "A")),
    # where used as an argument / further piped (Trigger parameter hidden from consumers)
    _S(("where", "A", "P", "K2"), ("getitem", "B", 0)),
    _S(("where", "P", "A", "K2"), ("add", "P", 0)),
    _S(("where", "P", "A", "K2"), ("add", "P", 0), ("add", 1, "K2")),
    _S(("where", "P", "A", "K2"), ("add", "P", 0), ("rsub", "P", 1)),
    _S(("where", "P", "K2", "A"), ("pipe2", "P", 0), ("neg", 1)),
    _S(("where", "A", "P", "K2"), ("getitem", "B", 0), ("pipe", 1)),
    _S(("where", "P", "A", "K2"), ("add", 0, "K2"), ("add", 1, "K2")),
    _S(("where", "P", "A", "K2"), ("bind2", 0, "K2"), ("add", "P", 1)),
    # nested bind
    _S(("bind2", "A", "P"), ("bind2", 0, "A")),
    _S(("bind2", "A", "P"), ("bindkw", "P", 0), ("add", 1, 0)),
    _S(("bind2", "F", "A"), ("where", 0, "F", "K2")),
    _S(("add", "A", "K2"), ("bind2", 0, "P"), ("rsub", 1, 0)),
    _S(("bind2", "A", "P"), ("where", "A", 0, "P"), ("bind2", 1, 0)),
    # attribute / method calls, indexing
    _S(("real", "A"), ("add", 0, "P")),
    _S(("neg", "A"), ("bitlen", 0), ("rsub", 1, "A")),
    _S(("add", "A", "P"), ("real", 0)),
    _S(("lt", "A", "P"), ("real", 0), ("add", 1, "A")),     # accessor expression reused as operand
    _S(("not_", "P"), ("real", 0), ("rsub", "A", 1)),
    _S(("slice", "B", "A"), ("getitem", 0, "A")),
    _S(("slice", "B", "A"), ("len", 0), ("getitem", "B", 1)),
    _S(("map2", "B", "A"), ("getitem", 0, "P"), ("in_", 1, "B")),
    _S(("concat", "B", "B"), ("count", 0, "A")),
    _S(("mklist", "A", "P"), ("concat", 0, "B"), ("getitem", 1, "F")),
    # helpers chained
    _S(("and_", "A", "P"), ("or_", 0, "F")),
    _S(("not_", "A"), ("where", 0, "P", "A")),
    _S(("bool", "P"), ("and_", 0, "A"), ("is_none", 1)),
    _S(("in_", "A", "B"), ("where", 0, "A", "P")),
    _S(("map", "B"), ("sum", 0), ("pipekw", 1, "A")),
    _S(("len", "B"), ("lt", "A", 0), ("where", 1, "A", 0)),
    _S(("is_not_none", "A"), ("and_", 0, "P")),
    _S(("or_", "A", "P"), ("floordiv", "F", 0)),
]


def random_programs(count, seed, max_nodes):
    rng = random.Random(1000003 * (seed + 1))
    seen = set()
    out = []
    attempts = 0
    while len(out) < count and attempts < count * 200:
        attempts += 1
        n = rng.choice([2, 3, 3] if max_nodes < 4 else [2, 3, 3, 4])
        prog = []
        for j in range(n):
            ctor = rng.choice(CT_ORDER)
            st, ats = CT[ctor][0], CT[ctor][1]

            def pick(t, j=j, prog=prog):
                earlier = [k for k in range(j) if CT[prog[k][0]][2] == t]
                if earlier and rng.random() < 0.65:
                    return rng.choice(earlier)
                leaves = [l for l in ("A", "P", "F", "B") if LEAF_TYPE[l] == t]
                consts = [c for c, ct in CONST_TYPE.items() if ct == t]
                pool = leaves + leaves + consts
                return rng.choice(pool)
            s = pick(st)
            if not isinstance(s, int) and s in CONST:
                s = [l for l in ("A", "P", "F", "B") if LEAF_TYPE[l] == st][0]
            prog.append((ctor, s) + tuple(pick(t) for t in ats))
        prog = tuple(prog)
        key = prog_key(prog)
        if key in seen:
            continue
        seen.add(key)
        if not prog_connected(prog):
            continue
        d, _ = prog_depth(prog)
        if d < 2 or d > 3:
            continue
        if not prog_inputs(prog):
            continue
        if not prog_valid_initially(prog):
            continue
        out.append(prog)
    return out


# ---- worker ---------------------------------------------------------------------------------

def _dag_task(args):
    prog, L, watch_variants = args
    restore = _quiet()
    try:
        oracle = Oracle(prog)
        reads = list(range(len(prog)))
        hists = gen_histories(prog, L, reads)
        ncase = 0
        nread = nwatch = 0
        fails = []
        for watch in watch_variants:
            for h in hists:
                ncase += 1
                try:
                    r, w, f = run_history(prog, h, watch, oracle)
                except Exception as e:      # noqa: BLE001  building failed: report, never hide
                    import traceback
                    f = [("C09/dag/harness", "build-error", 0,
                          "%s: %s | %s" % (type(e).__name__, e,
                                           traceback.format_exc().splitlines()[-3:]),
                          len(prog) - 1)]
                    r = w = 0
                nread += r
                nwatch += w
                for (clause, kind, step, detail, cul) in f:
                    hh = h[:step + 1]
                    if clause == "C09/dag/value==denote" and hh[-1][0] != "R":
                        hh = hh + ("R%d" % cul,)
                    fails.append((clause, kind, hh, watch, detail, cul))
        return {"prog": prog, "cases": ncase, "nread": nread, "nwatch": nwatch,
                "fails": fails, "nhist": len(hists)}
    finally:
        restore()


def dag_replay(prog, hist, watch, clause, witness, built=None):
    """``built``: number of nodes that exist before the history starts (part c); the others are
    derived at the operation D."""
    hdr = REPLAY_HEADER.format(prop=PROP, name="replay_c09_dag.py", clause=clause, witness=witness)
    rx_lines = render(prog, "rx")
    plain = render(prog, "plain")
    top = len(prog) - 1
    L = [hdr, "import warnings, logging", "warnings.simplefilter('ignore')", "import param",
         "from param import rx, bind",
         "param.parameterized.get_logger().setLevel(logging.CRITICAL + 10)", FN_SRC,
         "class P(param.Parameterized):", "    x = param.Parameter(default=2)", "",
         "p = P(x=%r); a = rx(%r); b = rx(%r)" % (INIT["p"], INIT["a"], INIT["b"]),
         "F = bind(f_bind, a, p.param.x)"]
    L += rx_lines if built is None else rx_lines[:built]
    L.append("")
    L.append("def plain(k, va, vb, vp):")
    L.append("    # the same expression tree in plain Python on the inputs' current values")
    for j, src in enumerate(plain):
        L.append("    if k == %d: return %s" % (j, src))
    L += ["", "def outcome(th):", "    try: return ('val', th())",
          "    except Exception as e: return ('exc', type(e).__name__)",
          "def canon(v):",
          "    if isinstance(v, (list, tuple)): return (type(v).__name__, tuple(canon(i) for i in v))",
          "    return (type(v).__name__, repr(v))",
          "def setin(f):",
          "    try: f()",
          "    except Exception as e: print('  (update raised %s, tolerated)' % type(e).__name__)",
          "va, vb, vp = %r, %r, %r" % (INIT["a"], INIT["b"], INIT["p"]), "seen = []", "bad = None"]
    if watch:
        L.append("n%d.rx.watch(seen.append)" % top)
    pos = {"a": 0, "b": 0, "p": 0}
    lastvalid = dict(INIT)
    for step, op in enumerate(hist):
        last = step == len(hist) - 1
        if op == "D":
            L.append("# ---- D: the remaining expressions are derived now, from the nodes in their current state")
            if last:
                L.append("try:")
                L += ["    " + ln for ln in rx_lines[built:]]
                L.append("except Exception as e:")
                L.append("    bad = 'deriving the expression raised %s: %s' % (type(e).__name__, e)")
            else:
                L += rx_lines[built:]
            continue
        if op[0] == "L":
            L.append("print('read root %s:', %s.rx.value)" % (op[1], op[1]))
            continue
        if op[0] == "R":
            k = int(op[1:])
            L.append("got = outcome(lambda: n%d.rx.value); want = outcome(lambda: plain(%d, va, vb, vp))" % (k, k))
            L.append("print('read n%d: rx', got, ' plain', want)" % k)
            if last:
                L.append("if got[0] != want[0] or canon(got[1]) != canon(want[1]): bad = 'n%d.rx.value is %%r, plain Python gives %%r' %% (got, want)" % k)
            continue
        x = op[1]
        if op[0] == "u":
            pos[x] += 1
            v = CYCLE[x][pos[x] % len(CYCLE[x])]
            lastvalid[x] = v
        elif op[0] == "i":
            v = None
        else:
            v = lastvalid[x]
        if last and watch:
            L.append("before = outcome(lambda: plain(%d, va, vb, vp)); k0 = len(seen)" % top)
        L.append("v%s = %r" % (x, v))
        tgt = {"a": "a.rx.value", "b": "b.rx.value", "p": "p.x"}[x]
        L.append("def _u(): %s = %r" % (tgt, v) if x != "p" else "def _u(): p.x = %r" % (v,))
        L.append("setin(_u)   # %s" % op)
        if last and watch:
            L.append("after = outcome(lambda: plain(%d, va, vb, vp)); calls = seen[k0:]" % top)
            L.append("print('top value before', before, 'after', after, 'watch calls', calls)")
            L.append("if after[0] == 'val' and before[0] == 'val' and canon(before[1]) != canon(after[1]) and not calls: bad = 'value changed %r -> %r but the .rx.watch callback was not called' % (before, after)")
            L.append("elif after[0] == 'val' and calls and canon(calls[-1]) != canon(after[1]): bad = 'callback received %r, fresh value is %r' % (calls[-1], after[1])")
    L += ["if bad:", "    print('REPRODUCED: ' + bad)", "    sys.exit(1)", "print('NOT-REPRODUCED')",
          "sys.exit(0)"]
    return "\n".join(L) + "\n"


# =====================================================================================
# part (c): expressions derived from dirty nodes (staged construction)
# =====================================================================================
# In part (b) every node of a program exists before the history starts.  Here only the first m
# nodes do; the others are derived in the middle of the history, from parents whose caches were
# populated by reads and then invalidated by an input update (and possibly half-refreshed through
# another consumer of the shared root).  The derived expressions must evaluate on the CURRENT
# inputs at once, and after later updates.  A failure is reported only when the same history with
# all nodes built up front passes (otherwise it is not specific to the derivation and belongs to
# part (b)).

def _crc(text):
    import zlib
    return zlib.crc32(text.encode())


def staged_histories(prog, m, tier, seed, cap):
    """Histories for ``prog`` with only the nodes < m built at the start:
         S1  reads of a subset of the read pool (built nodes, rx roots a / b)      populate caches
         U1  one input update  |  invalidate x, the S1 reads again, repair x         error states
         S2  nothing, or one read of the pool        another consumer refreshes the shared root
         D   the remaining nodes are derived now
         reads of every derived node (top first)
         U2  nothing, or one more input update followed by the reads of the derived nodes
       quick: the canonical ones (S1 = whole pool, plain update, U2 = the same input) plus a seeded
       sample up to ``cap``; thorough: all."""
    n = len(prog)
    inputs = prog_inputs(prog)
    refs = {r for node in prog for r in node[1:]}
    pool = ["R%d" % k for k in range(m)]
    if "A" in refs or "F" in refs:
        pool.append("La")
    if "B" in refs:
        pool.append("Lb")
    new_reads = tuple("R%d" % k for k in range(n - 1, m - 1, -1))
    if len(pool) <= 3:
        s1s = [tuple(c) for k in range(len(pool) + 1) for c in itertools.combinations(pool, k)]
    else:
        s1s = [()] + [(r,) for r in pool] + [tuple(pool)]
    s2s = [()] + [(r,) for r in pool]
    canon, rest = [], []
    for s1 in s1s:
        for x in inputs:
            for u1kind in ("u", "ir"):
                u1 = ("u" + x,) if u1kind == "u" else (("i" + x,) + s1 + ("r" + x,))
                for s2 in s2s:
                    for y in [None] + inputs:
                        h = s1 + u1 + s2 + ("D",) + new_reads
                        if y:
                            h += ("u" + y,) + new_reads
                        if s1 == tuple(pool) and u1kind == "u" and y == x:
                            canon.append(h)
                        else:
                            rest.append(h)
    if tier == "thorough" or len(canon) + len(rest) <= cap:
        return canon + rest, True
    rng = random.Random(1000003 * (seed + 1) + _crc(prog_key(prog)) + m)
    k = max(0, cap - len(canon))
    return canon + (rng.sample(rest, k) if k < len(rest) else rest), False


def run_staged(prog, m, hist, oracle):
    """Drive one staged history.  Returns (n_read_checks, fails); fail = (clause, kind, step, detail, cul)."""
    live = Live(prog, upto=m)
    n = len(prog)
    sigma = {k: (list(v) if isinstance(v, list) else v) for k, v in INIT.items()}
    pos = {"a": 0, "b": 0, "p": 0}
    lastvalid = dict(sigma)
    snaps = []
    nread = 0
    for step, op in enumerate(hist):
        if op == "D":
            try:
                live.derive_rest()
            except Exception as e:      # noqa: BLE001
                wants = [oracle.ev(j, sigma) for j in range(len(live.nodes), n)]
                if all(w is not AMB and w[0] == "val" for w in wants):
                    j = len(live.nodes)
                    return nread, [("C09/derive/builds", "raises-at-derive", step,
                                    "deriving node %d (%s) raised %s: %s although every derived node has a "
                                    "value on the current inputs" % (j, prog[j][0], type(e).__name__, e), j)]
                return nread, []        # plain Python raises here as well: tolerated, history ends
            continue
        if op[0] == "L":
            x = op[1]
            got = live.read_leaf(x)
            nread += 1
            if not out_ok(got, ("val", sigma[x])):
                return nread, [("C09/derive/value==denote", "wrong-root", step,
                                "root %s reads %s, its value is %s" % (x, show(got), short(sigma[x])), 0)]
            continue
        if op[0] == "R":
            k = int(op[1:])
            want = oracle.ev(k, sigma)
            got = live.read(k)
            if want is AMB:
                continue
            nread += 1
            if not out_ok(got, want):
                cul, cgot, cwant = k, got, want
                for j in range(min(k, len(live.nodes))):
                    wj = oracle.ev(j, sigma)
                    if wj is AMB:
                        continue
                    gj = live.read(j)
                    if not out_ok(gj, wj):
                        cul, cgot, cwant = j, gj, wj
                        break
                kind = _classify(prog, oracle, sigma, cul, cgot, cwant, snaps)
                return nread, [("C09/derive/value==denote", kind, step,
                                "read node=%d got=%s want=%s; culprit node=%d (%s) got=%s want=%s" % (
                                    k, show(got), show(want), cul, prog[cul][0], show(cgot), show(cwant)), cul)]
            continue
        x = op[1]
        snaps.append(dict(sigma))
        if op[0] == "u":
            pos[x] += 1
            v = CYCLE[x][pos[x] % len(CYCLE[x])]
            v = list(v) if isinstance(v, list) else v
            sigma[x] = v
            lastvalid[x] = v
        elif op[0] == "i":
            v = INVALID
            sigma[x] = v
        else:
            v = lastvalid[x]
            v = list(v) if isinstance(v, list) else v
            sigma[x] = v
        live.set_input(x, v)
    return nread, []


def _staged_task(args):
    prog, tier, seed, cap = args
    restore = _quiet()
    try:
        oracle = Oracle(prog)
        n = len(prog)
        ncase = nread = ndropped = 0
        fails = []
        exhaustive = True
        # quick: programs of several nodes start with at least one node built (deriving from a
        # dirty ROOT is covered by the one-node programs); thorough: every m
        for m in range(0 if (n == 1 or tier == "thorough") else 1, n):
            hists, full = staged_histories(prog, m, tier, seed, cap)
            exhaustive = exhaustive and full
            for h in hists:
                ncase += 1
                try:
                    r, f = run_staged(prog, m, h, oracle)
                except Exception as e:      # noqa: BLE001  harness problem: report, never hide
                    import traceback
                    r, f = 0, [("C09/derive/harness", "build-error", 0, "%s: %s | %s" % (
                        type(e).__name__, e, traceback.format_exc().splitlines()[-3:]), n - 1)]
                nread += r
                for (clause, kind, step, detail, cul) in f:
                    hh = h[:step + 1]
                    if clause != "C09/derive/harness":
                        # differential: the same operations with every node built up front
                        flat = tuple(o for o in hh if o != "D")
                        try:
                            _, f0 = run_staged(prog, n, flat, oracle)
                        except Exception:       # noqa: BLE001
                            f0 = [None]
                        if f0:
                            ndropped += 1
                            continue
                    fails.append((clause, kind, hh, m, detail, cul))
        return {"prog": prog, "cases": ncase, "nread": nread, "fails": fails, "dropped": ndropped,
                "exhaustive": exhaustive}
    finally:
        restore()

# =====================================================================================
# part (d): unfolded attribute references as operands
# =====================================================================================
# ``acc = z.imag`` (z an rx) is an expression whose attribute access is still pending.  It is used
# here in every operand position: right-hand operand of an rx, left-hand operand, reflected
# operand of a constant, both sides, index, slice bound, positional / keyword argument of a method,
# of .rx.pipe / .rx.map / bind, and as operand of the .rx helpers.  History: read, update z, read,
# update x, read, update z again, read (optionally the reference is read once before it is used).

# (label, source of z, attribute, later values of z)
ACC_SOURCES = [
    ("complex.imag", "(2+3j)", "imag", ["(5+7j)", "(1-2j)"]),
    ("complex.real", "(2+3j)", "real", ["(5+7j)", "(1-2j)"]),
    ("slice.start", "slice(1, 3)", "start", ["slice(2, 4)", "slice(0, 1)"]),
    ("slice.stop", "slice(1, 3)", "stop", ["slice(2, 4)", "slice(0, 1)"]),
    ("Fraction.numerator", "Fraction(3, 4)", "numerator", ["Fraction(1, 2)", "Fraction(2, 7)"]),
    ("Fraction.denominator", "Fraction(3, 4)", "denominator", ["Fraction(1, 2)", "Fraction(2, 7)"]),
    ("range.step", "range(0, 9, 3)", "step", ["range(0, 9, 2)", "range(0, 9, 1)"]),
    ("int.real", "3", "real", ["2", "1"]),
]
ACC_QUICK = ("complex.imag", "slice.start", "Fraction.denominator", "int.real")
_ACC_X = {"n": ("10", "7"), "l": ("[3, 1, 2, 3, 0, 1]", "[2, 2, 1, 0, 3, 4, 1]"), "s": ("'a,b,c,d'", "'x,y,z,w,v'"),
          "f": ("2.34567", "9.87654"), "c": ("True", "0")}


def _acc_contexts():
    """(name, type of x, build(X, A, rx, bind) -> expression, plain(x, a))"""
    C = []
    for name, fn, src in BINOPS:
        if name == "matmul":
            continue
        C.append(("rhs:" + name, "n", (lambda X, A, rx, bind, fn=fn: fn(X, A)), fn))
        C.append(("lhs:" + name, "n", (lambda X, A, rx, bind, fn=fn: fn(A, 4)), (lambda x, a, fn=fn: fn(a, 4))))
        C.append(("lhs-rx:" + name, "n", (lambda X, A, rx, bind, fn=fn: fn(A, X)), (lambda x, a, fn=fn: fn(a, x))))
        C.append(("ref:" + name, "n", (lambda X, A, rx, bind, fn=fn: fn(9, A)), (lambda x, a, fn=fn: fn(9, a))))
    for name, fn, src, _ in CMPOPS:
        C.append(("rhs:" + name, "n", (lambda X, A, rx, bind, fn=fn: fn(X, A)), fn))
        C.append(("ref:" + name, "n", (lambda X, A, rx, bind, fn=fn: fn(3, A)), (lambda x, a, fn=fn: fn(3, a))))
    C += [
        ("unary:neg", "n", lambda X, A, rx, bind: -A, lambda x, a: -a),
        ("unary:abs", "n", lambda X, A, rx, bind: abs(A), lambda x, a: abs(a)),
        ("index", "l", lambda X, A, rx, bind: X[A], lambda x, a: x[a]),
        ("slice-lo", "l", lambda X, A, rx, bind: X[A:], lambda x, a: x[a:]),
        ("slice-hi", "l", lambda X, A, rx, bind: X[:A], lambda x, a: x[:a]),
        ("slice-step", "l", lambda X, A, rx, bind: X[::A], lambda x, a: x[::a]),
        ("arg:count", "l", lambda X, A, rx, bind: X.count(A), lambda x, a: x.count(a)),
        ("arg:split", "s", lambda X, A, rx, bind: X.split(",", A), lambda x, a: x.split(",", a)),
        ("kw:split", "s", lambda X, A, rx, bind: X.split(",", maxsplit=A), lambda x, a: x.split(",", maxsplit=a)),
        ("arg:round", "f", lambda X, A, rx, bind: round(X, A), lambda x, a: round(x, a)),
        ("arg:pipe", "n", lambda X, A, rx, bind: X.rx.pipe(f_sub, A), lambda x, a: f_sub(x, a)),
        ("kw:pipe", "n", lambda X, A, rx, bind: X.rx.pipe(f_sub, y=A), lambda x, a: f_sub(x, y=a)),
        ("self:pipe", "n", lambda X, A, rx, bind: A.rx.pipe(f_sub, X), lambda x, a: f_sub(a, x)),
        ("arg:map", "l", lambda X, A, rx, bind: X.rx.map(f_sub, A), lambda x, a: [f_sub(v, a) for v in x]),
        ("kw:map", "l", lambda X, A, rx, bind: X.rx.map(f_sub, y=A), lambda x, a: [f_sub(v, y=a) for v in x]),
        ("arg:bind", "n", lambda X, A, rx, bind: rx(bind(f_sub, X, A)), lambda x, a: f_sub(x, a)),
        ("arg0:bind", "n", lambda X, A, rx, bind: rx(bind(f_sub, A, X)), lambda x, a: f_sub(a, x)),
        ("kw:bind", "n", lambda X, A, rx, bind: rx(bind(f_sub, X, y=A)), lambda x, a: f_sub(x, y=a)),
        ("helper:where-x", "c", lambda X, A, rx, bind: rx(X.rx.where(A, -1)), lambda x, a: a if x else -1),
        ("helper:where-y", "c", lambda X, A, rx, bind: rx(X.rx.where(-1, A)), lambda x, a: -1 if x else a),
        ("helper:where-cond", "n", lambda X, A, rx, bind: rx(A.rx.where(X, -1)), lambda x, a: x if a else -1),
        ("helper:and_", "n", lambda X, A, rx, bind: X.rx.and_(A), lambda x, a: x and a),
        ("helper:or_", "c", lambda X, A, rx, bind: X.rx.or_(A), lambda x, a: x or a),
        ("helper:self-and_", "n", lambda X, A, rx, bind: A.rx.and_(X), lambda x, a: a and x),
        ("helper:in_", "l", lambda X, A, rx, bind: (A + 1).rx.in_(X), lambda x, a: (a + 1) in x),
        ("helper:self-in_", "l", lambda X, A, rx, bind: A.rx.in_(X), lambda x, a: a in x),
        ("helper:is_", "n", lambda X, A, rx, bind: X.rx.is_(A), lambda x, a: x is a),
        ("helper:self-not_", "n", lambda X, A, rx, bind: A.rx.not_(), lambda x, a: not a),
        ("helper:self-bool", "n", lambda X, A, rx, bind: A.rx.bool(), lambda x, a: bool(a)),
        ("both:add", "n", None, None),      # two references of the same z: handled in the driver
        ("both:sub-other", "n", None, None),
    ]
    return C


_ACC_HIST = ("R", "uz", "R", "ux", "R", "uz", "R")


def _acc_case(label, zsrc, attr, zlater, cname, xt, build, plain, preread):
    """Returns (n_checks, failure or None); failure = (step text, detail, want, got)."""
    from param import rx, bind
    zv = _val(zsrc)
    xv = _val(_ACC_X[xt][0])
    z = rx(zv)
    X = rx(xv)
    A = getattr(z, attr)
    if not isinstance(A, rx):
        return 0, ("build", "z.%s is not an expression (%s)" % (attr, type(A).__name__), "-", "-")
    if preread:
        want0 = getattr(zv, attr)
        got0 = outcome(lambda: A.rx.value)
        if not _cmp_out(got0, ("val", want0)):
            return 1, ("pre-read", "the reference itself reads %s" % show(got0), short(want0), show(got0))
    if cname == "both:add":
        build_ = lambda: A + getattr(z, attr)                       # noqa: E731
        plain_ = lambda x, zz: getattr(zz, attr) + getattr(zz, attr)    # noqa: E731
    elif cname == "both:sub-other":
        other = "real" if attr != "real" else ("imag" if hasattr(zv, "imag") else "real")
        if not hasattr(zv, other):
            other = attr
        build_ = lambda: A - getattr(z, other)                      # noqa: E731
        plain_ = lambda x, zz: getattr(zz, attr) - getattr(zz, other)   # noqa: E731
    else:
        build_ = lambda: build(X, A, rx, bind)                      # noqa: E731
        plain_ = lambda x, zz: plain(x, getattr(zz, attr))         # noqa: E731
    want_now = outcome(lambda: plain_(xv, zv))
    try:
        e = build_()
    except Exception as ex:     # noqa: BLE001
        if want_now[0] == "exc":
            return 0, None      # plain Python raises for these operands too: nothing to check
        return 1, ("build", "building raised %s: %s" % (type(ex).__name__, ex), show(want_now),
                   "exc:%s@build" % type(ex).__name__)
    if not isinstance(e, rx):
        return 0, None
    n = 0
    zi = 0
    done = []
    for op in _ACC_HIST:
        done.append(op)
        if op == "uz":
            zv = _val(zlater[zi % len(zlater)])
            zi += 1
            try:
                z.rx.value = zv
            except Exception:       # noqa: BLE001  tolerated (see module docstring)
                pass
        elif op == "ux":
            xv = _val(_ACC_X[xt][1])
            try:
                X.rx.value = xv
            except Exception:       # noqa: BLE001
                pass
        else:
            want = outcome(lambda: plain_(xv, zv))
            got = outcome(lambda: e.rx.value)
            n += 1
            if not _cmp_out(got, want):
                return n, (",".join(done), "x=%s z=%s" % (short(xv), short(zv)), show(want), show(got))
    return n, None


def _acc_task(args):
    tier, = args
    restore = _quiet()
    try:
        ctxs = _acc_contexts()
        ncase = ncheck = 0
        fails = []
        for (label, zsrc, attr, zlater) in ACC_SOURCES:
            if tier != "thorough" and label not in ACC_QUICK:
                continue
            for (cname, xt, build, plain) in ctxs:
                for preread in (0, 1):
                    ncase += 1
                    try:
                        n, f = _acc_case(label, zsrc, attr, zlater, cname, xt, build, plain, preread)
                    except Exception as ex:     # noqa: BLE001
                        import traceback
                        n, f = 0, ("harness", "%s: %s | %s" % (type(ex).__name__, ex,
                                                               traceback.format_exc().splitlines()[-3:]), "-", "-")
                    ncheck += n
                    if f:
                        fails.append((label, zsrc, attr, tuple(zlater), cname, xt, preread) + tuple(f))
        return {"cases": ncase, "checks": ncheck, "fails": fails}
    finally:
        restore()


_ACC_SRC = {
    "index": ("X[A]", "x[a]"), "slice-lo": ("X[A:]", "x[a:]"), "slice-hi": ("X[:A]", "x[:a]"),
    "slice-step": ("X[::A]", "x[::a]"), "arg:count": ("X.count(A)", "x.count(a)"),
    "arg:split": ("X.split(',', A)", "x.split(',', a)"), "kw:split": ("X.split(',', maxsplit=A)", "x.split(',', maxsplit=a)"),
    "arg:round": ("round(X, A)", "round(x, a)"), "arg:pipe": ("X.rx.pipe(f_sub, A)", "f_sub(x, a)"),
    "kw:pipe": ("X.rx.pipe(f_sub, y=A)", "f_sub(x, y=a)"), "self:pipe": ("A.rx.pipe(f_sub, X)", "f_sub(a, x)"),
    "arg:map": ("X.rx.map(f_sub, A)", "[f_sub(v, a) for v in x]"),
    "kw:map": ("X.rx.map(f_sub, y=A)", "[f_sub(v, y=a) for v in x]"),
    "arg:bind": ("rx(bind(f_sub, X, A))", "f_sub(x, a)"), "arg0:bind": ("rx(bind(f_sub, A, X))", "f_sub(a, x)"),
    "kw:bind": ("rx(bind(f_sub, X, y=A))", "f_sub(x, y=a)"),
    "helper:where-x": ("rx(X.rx.where(A, -1))", "(a if x else -1)"),
    "helper:where-y": ("rx(X.rx.where(-1, A))", "(-1 if x else a)"),
    "helper:where-cond": ("rx(A.rx.where(X, -1))", "(x if a else -1)"),
    "helper:and_": ("X.rx.and_(A)", "(x and a)"), "helper:or_": ("X.rx.or_(A)", "(x or a)"),
    "helper:self-and_": ("A.rx.and_(X)", "(a and x)"), "helper:in_": ("(A + 1).rx.in_(X)", "((a + 1) in x)"),
    "helper:self-in_": ("A.rx.in_(X)", "(a in x)"), "helper:is_": ("X.rx.is_(A)", "(x is a)"),
    "helper:self-not_": ("A.rx.not_()", "(not a)"), "helper:self-bool": ("A.rx.bool()", "bool(a)"),
    "unary:neg": ("-A", "-a"), "unary:abs": ("abs(A)", "abs(a)"),
}


def _acc_sources(cname, attr, zsrc):
    """(rx source, plain source) of a context; in the plain source x, a, zz are the current values."""
    if cname in _ACC_SRC:
        return _ACC_SRC[cname]
    kind, name = cname.split(":")
    if kind == "both":
        if name == "add":
            return ("A + z.%s" % attr, "a + zz.%s" % attr)
        zv = _val(zsrc)
        other = "real" if attr != "real" else ("imag" if hasattr(zv, "imag") else "real")
        if not hasattr(zv, other):
            other = attr
        return ("A - z.%s" % other, "a - zz.%s" % other)
    src = ([s for n, f, s in BINOPS if n == name] + [s for n, f, s, _ in CMPOPS if n == name])[0]

    def sub(xs, ys):
        # the templates are 'x <op> y' / 'divmod(x, y)': substitute both names in one pass
        return "".join({"x": xs, "y": ys}.get(ch, ch) for ch in src) if name != "xor" else "%s ^ %s" % (xs, ys)
    k = "3" if name in [n for n, _, _, _ in CMPOPS] else "9"
    return {"rhs": (sub("X", "A"), sub("x", "a")), "lhs": (sub("A", "4"), sub("a", "4")),
            "lhs-rx": (sub("A", "X"), sub("a", "x")), "ref": (sub(k, "A"), sub(k, "a"))}[kind]


def acc_replay(f, clause, witness):
    (label, zsrc, attr, zlater, cname, xt, preread, steps, detail, want, got) = f
    rsrc, psrc = _acc_sources(cname, attr, zsrc)
    hdr = REPLAY_HEADER.format(prop=PROP, name="replay_c09_operand.py", clause=clause, witness=witness)
    L = [hdr, "import warnings, logging", "warnings.simplefilter('ignore')", "from fractions import Fraction",
         "import param", "from param import rx, bind",
         "param.parameterized.get_logger().setLevel(logging.CRITICAL + 10)", FN_SRC,
         "def outcome(th):", "    try: return ('val', th())",
         "    except Exception as e: return ('exc', type(e).__name__)",
         "def canon(v):",
         "    if isinstance(v, (list, tuple)): return (type(v).__name__, tuple(canon(i) for i in v))",
         "    return (type(v).__name__, repr(v))",
         "def plain(x, zz):", "    a = zz.%s" % attr, "    return %s" % psrc,
         "zz = %s; x = %s" % (zsrc, _ACC_X[xt][0]),
         "z = rx(zz); X = rx(x)",
         "A = z.%s          # attribute reference, not yet part of an operation" % attr]
    if preread:
        L.append("print('the reference itself reads', A.rx.value)")
    L += ["bad = None", "try:", "    e = %s" % rsrc, "except Exception as ex:",
          "    e = None; bad = 'building the expression raised %s: %s' % (type(ex).__name__, ex)",
          "def check(tag):", "    global bad",
          "    if e is None or bad: return",
          "    got = outcome(lambda: e.rx.value); want = outcome(lambda: plain(x, zz))",
          "    print(tag, ': rx', got, ' plain', want)",
          "    if got[0] != want[0] or canon(got[1]) != canon(want[1]):",
          "        bad = '%s: the expression gives %r, plain Python gives %r' % (tag, got, want)"]
    zi = 0
    for op in _ACC_HIST:
        if op == "uz":
            L.append("zz = %s; z.rx.value = zz" % zlater[zi % len(zlater)])
            zi += 1
        elif op == "ux":
            L.append("x = %s; X.rx.value = x" % _ACC_X[xt][1])
        else:
            L.append("check('read')")
    L += ["if bad:", "    print('REPRODUCED: ' + bad)", "    sys.exit(1)", "print('NOT-REPRODUCED')", "sys.exit(0)"]
    return "\n".join(L) + "\n"


# =====================================================================================
# run
# =====================================================================================

def run(tier, seed):
    import multiprocessing as mp
    from concurrent.futures import ProcessPoolExecutor
    thorough = tier == "thorough"
    L1 = 4 if thorough else 3           # history length on depth-1 programs
    L2 = 4 if thorough else 3           # history length on deeper programs
    n_random = 200 if thorough else 60
    lat = LATTICE_SRC_T if thorough else LATTICE_SRC_Q
    B = Bounded(
        PROP,
        rule=("(a) operator table: every unary/binary/reflected/comparison/round/getitem/call slot "
              "x operand lattice x forms {rx op const, rx op rx, const op rx (only when Python "
              "hands the left operand directly to the rx operand), Parameter-rooted (thorough)}; "
              "distinct = (slot, form, operands). "
              "(b) programs = SSA lists of <=4 constructor applications (30 constructors: operators, "
              "reflected operators, attribute/method, indexing/slicing, pipe/where/and_/or_/not_/"
              "bool/len/in_/is_/is_not/map, bind) over rx roots a:int, b:list, Parameter p.x and "
              "F=bind(f,a,p.x); depth<=3, every node defined on the initial inputs; all depth-1 "
              "programs, %d fixed shapes (sharing, root-as-argument, nested where/bind, "
              "where-as-argument) and a seeded random sample of depth 2-3 programs; per program "
              "every history of exactly L ops from {update x, invalidate x (None), repair x, read "
              "node k} ending in a read (all shorter histories are prefixes; every read is "
              "checked), each with and without a .rx.watch callback on the top node; "
              "distinct = (program, watch, history). "
              "(c) the same programs with only the first m nodes (every m) built before the history: reads of "
              "a subset of {built nodes, rx roots} ; one input update (or invalidate, re-read, repair) ; "
              "nothing or one more read ; DERIVE the remaining nodes ; read every derived node ; optionally "
              "one more update and the reads again -- a failure counts only if the same operations pass with "
              "all nodes built up front; distinct = (program, m, history). "
              "(d) an unfolded attribute reference z.attr (8 attribute kinds, 4 in quick: complex.imag/real, "
              "slice.start/stop, Fraction.numerator/denominator, range.step, int.real) in every operand position (right / "
              "left / reflected operand of every binary and comparison operator, unary, index, slice bounds, "
              "positional and keyword argument of methods, pipe, map, bind, operand and subject of the .rx "
              "helpers, two references), read / update z / read / update x / read / update z / read, with "
              "and without a read of the reference before it is used. "
              "(e) [c09_nest] an operand (rx root, Parameter, bound function, depends method, rx expression, rx "
              "expression that itself holds a nested operand) 1-4 containers deep (17 shapes of list / tuple / dict "
              "value / dict key / slice, mixed) inside an argument of 67 operation contexts (pipe / map positional "
              "and keyword argument, in_ / and_ / or_, index / index tuple / slice bound, method and __call__ "
              "arguments, both operands of every binary and comparison operator), optionally read through a "
              "downstream consumer holding the expression in a list; every history of <= L ops {update an input, "
              "read} ending in a read, with / without .rx.watch; distinct = (expression, watch, history). "
              "(f) [c09_nest] %d expressions over int / bool / str / list rx roots, Parameter roots and bound "
              "functions whose inputs cycle v0 -> v1 -> v0 -> v2 (the list comes back as the same object / an equal "
              "copy): every history of <= L ops {update an input, read, read a sibling consumer of the same root} "
              "ending in a read -- unread windows in which an input returns to the value the last read saw, alone "
              "or with another root changing in the same window --, with / without .rx.watch"
              ) % (len(FIXED), len(__import__("bounded.c09_nest", fromlist=["x"]).BACK_EXPRS)),
        bound=("lattice %d values; depth-1: all programs, L=%d; depth 2-3: %d fixed + %d random "
               "programs (seed %d), L=%d; input value cycles of 5 values incl. 0 / short lists; part (c): %s "
               "staged histories per (program, m); part (d): %d attribute kinds x %d positions x 2; part (e): %s, "
               "L=%d; part (f): L=%d, %s"
               % (len(lat), L1, len(FIXED), n_random, seed, L2,
                  "all, every m" if thorough else
                  "the canonical ones + a seeded sample, <= 4 (one node, m=0) / <= 12 (more nodes, m>=1)",
                  len(ACC_SOURCES) if thorough else len(ACC_QUICK), len(_acc_contexts()),
                  "shapes x 7 leaf kinds x 30 non-operator contexts, every operator context with 2 leaf kinds, direct / through a consumer alternating, return windows + 12 sampled histories" if thorough else
                  "every (shape, context) pair with a rotating leaf kind (6 sampled operator contexts per shape)",
                  4 if thorough else 3, 6 if thorough else 5,
                  "all histories" if thorough else
                  "all return windows without sibling read + a seeded sample of 20 others per expression")))
    B.exhaustive = False

    tasks_a = ([("bin", n, tier) for n, _, _ in BINOPS] + [("cmp", n, tier) for n, _, _, _ in CMPOPS]
               + [("un", "all", tier), ("getitem", "all", tier), ("call", "all", tier)])
    d1 = depth1_programs()
    fixed = [p for p in FIXED if prog_valid_initially(p)]
    if len(fixed) != len(FIXED):
        B.note("fixed shapes dropped (not defined on the initial inputs): %d" % (
            len(FIXED) - len(fixed)))
    rnd = random_programs(n_random, seed, 4 if thorough else 3)
    seenk = set()
    deep = []
    for p in fixed + rnd:
        k = prog_key(p)
        if k not in seenk:
            seenk.add(k)
            deep.append(p)
    wv = (False, True)
    tasks_b = [(p, L1, wv) for p in d1] + [(p, L2, wv) for p in deep]
    order = sorted(range(len(tasks_b)),
                   key=lambda i: (-(len(tasks_b[i][0]) + len(prog_inputs(tasks_b[i][0]))) ** tasks_b[i][1], i))

    cap1, cap2 = (10 ** 9, 10 ** 9) if thorough else (4, 12)
    tasks_c = [(p, tier, seed, cap1) for p in d1] + [(p, tier, seed, cap2) for p in deep]
    from bounded import c09_nest        # parts (e) nested operands, (f) unread windows (helper module)
    tasks_n = c09_nest.tasks(tier, seed)
    ctx = mp.get_context("fork")
    with ProcessPoolExecutor(max_workers=NPROC, mp_context=ctx) as ex:
        fut_b = {i: ex.submit(_dag_task, tasks_b[i]) for i in order}      # big tasks first
        fut_n = [ex.submit(c09_nest.task, t) for t in tasks_n]
        fut_a = [ex.submit(_optable_task, t) for t in tasks_a]
        fut_d = ex.submit(_acc_task, (tier,))
        fut_c = [ex.submit(_staged_task, t) for t in sorted(tasks_c, key=lambda t: -len(t[0]))]
        res_a = [f.result() for f in fut_a]
        res_b = [fut_b[i].result() for i in range(len(tasks_b))]
        res_c = [f.result() for f in fut_c]
        res_d = fut_d.result()
        res_n = [f.result() for f in fut_n]

    # ---- (a) merge ------------------------------------------------------------------------
    import param.reactive as R
    missing = [sl for sl in SLOT_LIST if sl not in R.rx.__dict__]
    B.checked("C09/optable/complete", len(SLOT_LIST))
    if missing:
        B.note("operator slots not defined on rx (data-model list): " + ", ".join(missing))
    per_slot = {}           # (slot, got kind) -> list of failures in lattice order
    a_cases = 0
    for r in res_a:
        B.evaluations += r["cases"]
        B._distinct.update(("a", r["kind"], r["name"], i) for i in range(r["cases"]))
        a_cases += r["cases"]
        for cl, n in r["checks"].items():
            B.checked(cl, n)
        for f in r["fails"]:
            slot, got = f[0], f[5]
            gk = got if got.startswith("exc") else "val@" + got.split("@")[-1]
            per_slot.setdefault((slot, gk), []).append(f)
    for key in sorted(per_slot):
        allf = per_slot[key]
        # witness: first failure (lattice order) where plain Python yields a value, else first
        f = ([g for g in allf if g[4].startswith("val")] or allf)[0]
        slot, form, xs, ys, want, got, psrc, rsrc = f
        clause = "C09/optable/%s==plain" % slot
        witness = "slot=%s form=%s x=%s y=%s want=%s got=%s" % (
            slot, form, xs.replace(" ", ""), ys.replace(" ", ""), want, got)
        forms = sorted(set(g[1] for g in allf))
        B.violation(clause, witness,
                    detail="%d failing operand pairs of this kind; forms %s; e.g. %s" % (
                        len(allf), forms,
                        "; ".join("x=%s y=%s want=%s got=%s" % (g[2], g[3], g[4], g[5])
                                  for g in allf[:4])),
                    replay=_optable_replay(slot, form, xs, ys, psrc, clause, witness))
        B._seen[(clause, witness)]["count"] = len(allf)

    # ---- (b) merge ------------------------------------------------------------------------
    classes = {}            # (clause, kind, culprit ctor) -> [size, prog, hist, watch, detail, n]
    for r in res_b:
        prog = r["prog"]
        pk = prog_key(prog)
        B.evaluations += r["cases"]
        B._distinct.update((pk, i) for i in range(r["cases"]))
        B.checked("C09/dag/value==denote", r["nread"])
        B.checked("C09/watch/fresh-value+called-on-change", r["nwatch"])
        for (clause, kind, h, watch, detail, cul) in r["fails"]:
            if kind in ("stale", "not-called", "wrong-arg"):
                # propagation failures: classed by what the node depends on, not by its operator
                ck = (clause, kind, "via-" + prog_via(prog, cul))
            else:
                ck = (clause, kind, prog[cul][0])
            size = (len(prog), len(h), int(watch), pk, h)
            if ck not in classes:
                classes[ck] = [size, prog, h, watch, detail, 0]
            ent = classes[ck]
            ent[5] += 1
            if size < ent[0]:
                ent[:5] = [size, prog, h, watch, detail]
    for ck in sorted(classes):
        size, prog, h, watch, detail, cnt = classes[ck]
        clause, kind, ctor = ck
        witness = "kind=%s node=%s prog=%s watch=%d hist=%s" % (
            kind, ctor, prog_key(prog), int(watch), ",".join(h))
        B.violation(clause, witness,
                    detail="%s; %d failing histories in this class" % (detail, cnt),
                    replay=dag_replay(prog, h, watch, clause, witness))
        B._seen[(clause, witness)]["count"] = cnt

    # ---- (c) merge: expressions derived from dirty nodes ----------------------------------
    classes_c = {}
    c_cases = c_dropped = 0
    for r in res_c:
        prog = r["prog"]
        pk = prog_key(prog)
        B.evaluations += r["cases"]
        B._distinct.update(("c", pk, i) for i in range(r["cases"]))
        c_cases += r["cases"]
        c_dropped += r["dropped"]
        B.checked("C09/derive/value==denote", r["nread"])
        for (clause, kind, h, m, detail, cul) in r["fails"]:
            if kind == "stale":
                ck = (clause, kind, "via-" + prog_via(prog, cul))
            else:
                ck = (clause, kind, prog[cul][0])
            size = (len(prog), len(h), pk, m, h)
            if ck not in classes_c:
                classes_c[ck] = [size, prog, h, m, detail, 0]
            ent = classes_c[ck]
            ent[5] += 1
            if size < ent[0]:
                ent[:5] = [size, prog, h, m, detail]
    for ck in sorted(classes_c):
        size, prog, h, m, detail, cnt = classes_c[ck]
        clause, kind, ctor = ck
        witness = "kind=%s node=%s prog=%s built=%d hist=%s" % (kind, ctor, prog_key(prog), m, ",".join(h))
        B.violation(clause, witness,
                    detail="%s; passes when every node is built before the history starts; %d failing "
                           "histories in this class" % (detail, cnt),
                    replay=dag_replay(prog, h, False, clause, witness, built=m))
        B._seen[(clause, witness)]["count"] = cnt
    B.note("part (c): %d staged histories over %d programs; %d failing histories were dropped because the same "
           "operations fail with all nodes built up front as well (not specific to the derivation: part (b))"
           % (c_cases, len(res_c), c_dropped))

    # ---- (d) merge: attribute references as operands ------------------------------------
    B.evaluations += res_d["cases"]
    B._distinct.update(("d", i) for i in range(res_d["cases"]))
    B.checked("C09/operand/accessor==plain", res_d["checks"])
    classes_d = {}
    for f in res_d["fails"]:
        (label, zsrc, attr, zlater, cname, xt, preread, steps, detail, want, got) = f
        pos_kind = cname.split(":")[0]
        group = {"rhs": "operator", "lhs": "operator", "lhs-rx": "operator", "ref": "operator", "both": "operator",
                 "unary": "operator", "index": "index", "slice-lo": "index", "slice-hi": "index",
                 "slice-step": "index", "helper": "helper"}.get(pos_kind, "argument")
        classes_d.setdefault(group, []).append(f)
    for ck in sorted(classes_d):
        allf = classes_d[ck]
        f = ([g for g in allf if g[9].startswith("val")] or allf)[0]
        (label, zsrc, attr, zlater, cname, xt, preread, steps, detail, want, got) = f
        clause = "C09/operand/accessor==plain"
        witness = "group=%s position=%s attr=%s preread=%d hist=%s want=%s got=%s" % (
            ck, cname, label, preread, steps, want, got)
        B.violation(clause, witness,
                    detail="%s; %d failing (attribute, position) cases of this kind, e.g. %s" % (
                        detail, len(allf), "; ".join("%s/%s" % (g[4], g[0]) for g in allf[:6])),
                    replay=(acc_replay(f, clause, witness) if steps not in ("harness",) else None))
        B._seen[(clause, witness)]["count"] = len(allf)

    # ---- (e) + (f) merge: nested operands, unread windows (bounded/c09_nest.py) ------------
    c09_nest.merge(B, res_n, tier)

    B.sample({"part": "a", "tasks": len(tasks_a), "cases": a_cases,
              "not_dispatched_to_rx": sum(r["trivial"] for r in res_a)})
    B.sample({"part": "b", "depth1_programs": len(d1), "deep_programs": len(deep),
              "histories_per_program_min_max": [min(r["nhist"] for r in res_b),
                                                max(r["nhist"] for r in res_b)]})
    for p in (d1[:1] + deep[:1] + rnd[:2]):
        B.sample({"program": prog_key(p), "rx": render(p, "rx"), "plain": render(p, "plain")[-1]})
    B.note("not checked (debatable forms): augmented assignment (+= falls back to __add__, plain "
           "lists extend in place), three-argument pow(rx, y, m) (rx.__pow__ takes no modulo), "
           "slots that must return a fixed type (__bool__, __len__, __index__, __int__, "
           "__float__, __contains__, __hash__, __str__).")
    return B.result()
