"""Helper of the bounded stand-in layer for C09 (hooked into ``bounded.c09.run``).

Two families that the expression-DAG enumeration of ``c09.py`` does not reach:

(e) NESTED OPERANDS.  An operand (rx root, Parameter, bound function, ``depends`` method, another
    rx expression, an rx expression that itself holds a nested operand) sits one, two or three
    containers deep (list / tuple / dict value / dict key / slice, mixed) inside an argument of an
    operation: positional / keyword argument of ``.rx.pipe`` and ``.rx.map``, operand of ``.rx.in_`` /
    ``and_`` / ``or_``, index (also inside an index tuple / slice), positional / keyword argument of a
    method call and of ``__call__``, right and left (reflected) operand of every binary and
    comparison operator.  Plain Python sees the operand's current value at that place; stand-alone
    probing of the unchanged tree shows ``resolve_value`` / ``resolve_ref(recursive=True)`` descend
    through list, tuple, dict (keys and values) and slice to any depth, sets are left alone -- only
    those containers are claimed; ``bind`` arguments and ``where`` branches are NOT claimed (bind does
    not look into containers at all, where does not watch nested references).
    History: every sequence of <= L operations {update an input the nested operands depend on, read}
    that ends in a read (so: read, change nested operand, read; change twice without a read -- the
    second change goes back to the value the last read saw; ...), with and without a ``.rx.watch``
    callback, optionally read through a downstream consumer that holds the expression in a list.

(f) UNREAD WINDOWS THAT RETURN TO THE OBJECT LAST EVALUATED.  Expressions over int / bool / str / list
    rx roots, Parameter roots (``p.x`` / ``p.flag`` / ``p.s``) and bound functions; every input has the
    value cycle v0 -> v1 -> v0 -> v2 (True/False, 'idle'/'busy'/'done', a list that comes back as the
    very same object / as an equal copy), so ``a.rx.value = 2; a.rx.value = 1`` without a read in
    between, with another root changing in the same window, with a read through a SIBLING consumer
    of the same root in the window, with and without ``.rx.watch`` (fresh value delivered, final read
    equal to the plain result) are all enumerated.

Oracle: the plain-Python source of the same expression evaluated on the inputs' current values
(written next to the rx source, both rendered from one template), type-strict comparison.
Leniency as in c09.py: an exception escaping from an input update is tolerated; a watch call is
demanded only when the plain value before and after the update differ, extra calls are allowed, the
last call of an update must carry the fresh value.
"""
import itertools
import random
import re
import zlib

from bounded._api import REPLAY_HEADER

PROP = "C09"

# ---------------------------------------------------------------------------------------------
# helper functions / objects shared (as source) by the harness and the replay scripts
# ---------------------------------------------------------------------------------------------
PRELUDE_SRC = '''
class Echo:
    """Every operation returns a tagged tuple holding the operand(s) it received."""
    def __repr__(self): return 'Echo()'
    def __getitem__(self, k): return ('getitem', k)
    def __call__(self, *a, **k): return ('call', a, k)
    def m(self, *a, **k): return ('m', a, k)
    __hash__ = None
for _n in ['add', 'sub', 'mul', 'matmul', 'truediv', 'floordiv', 'mod', 'divmod', 'pow', 'lshift',
           'rshift', 'and', 'xor', 'or']:
    setattr(Echo, '__%s__' % _n, lambda s, o, _n=_n: (_n, o))
    setattr(Echo, '__r%s__' % _n, lambda s, o, _n=_n: ('r' + _n, o))
for _n in ['lt', 'le', 'eq', 'ne', 'gt', 'ge']:
    setattr(Echo, '__%s__' % _n, lambda s, o, _n=_n: (_n, o))
def pair(x, y=None): return (x, y)
def trip(x, k, y): return (x, k, y)
def inc(x): return x + 1
def f_sub(x, y): return x * 3 - y
def f_bind(u, v): return u * v
'''
_ENV = {}
exec(PRELUDE_SRC, _ENV)

PCLS_SRC = '''class P(param.Parameterized):
    x = param.Parameter(default=2)
    flag = param.Boolean(default=True)
    s = param.String(default='idle')
    @param.depends('x')
    def dm(self): return self.x * 100
'''

# input name -> (kind, name in rx source, name in plain source, value cycle (sources), aliases)
#   cycle: v0 -> v1 -> v0 -> v2 -> (v0 ...);  alias {2: 0}: entry 2 is the very same object as entry 0
INPUTS = {
    "a":    ("rx", "a", "va", ["1", "2", "1", "3"], {}),
    "n":    ("rx", "n", "vn", ["5", "6", "5", "8"], {}),
    "flag": ("rx", "flag", "vflag", ["True", "False", "True", "False"], {}),
    "s":    ("rx", "s", "vs", ["'idle'", "'busy'", "'idle'", "'done'"], {}),
    "l":    ("rx", "l", "vl", ["[3, 1, 2]", "[0, 1]", None, "[5]"], {2: 0}),       # same object again
    "k":    ("rx", "k", "vk", ["[3, 1, 2]", "[0, 1]", "[3, 1, 2]", "[5]"], {}),    # an equal copy
    "px":   ("param", "p.param.x", "vpx", ["2", "9", "2", "4"], {}),
    "pf":   ("param", "p.param.flag", "vpf", ["True", "False", "True", "False"], {}),
    "ps":   ("param", "p.param.s", "vps", ["'idle'", "'busy'", "'idle'", "'done'"], {}),
}
INPUT_ORDER = ["a", "n", "flag", "s", "l", "k", "px", "pf", "ps"]
PATTR = {"px": "x", "pf": "flag", "ps": "s"}
# derived references: name -> (rx source, plain name, plain source, inputs)
DERIVED = {
    "F": ("bind(f_bind, a, p.param.x)", "vF", "f_bind(va, vpx)", ("a", "px")),
    "E": ("n + 10", "vE", "vn + 10", ("n",)),
    "G": ("rx('g').rx.pipe(pair, [(a, 0)])", "vG", "pair('g', [(va, 0)])", ("a",)),
}
DERIVED_ORDER = ["F", "E", "G"]


def _tokens(src):
    return set(re.findall(r"[A-Za-z_]\w*", re.sub(r"'[^']*'", "''", src)))


def spec_make(fam, rx_src, plain_src, inputs, **extra):
    """A case specification (picklable dict of strings)."""
    toks = _tokens(rx_src)
    if "sib" in extra and extra["sib"]:
        toks |= _tokens(extra["sib"][0])
    derived = [d for d in DERIVED_ORDER if d in toks]
    need = set(inputs)
    for d in derived:
        need.update(DERIVED[d][3])
    for x in INPUT_ORDER:
        if INPUTS[x][0] == "rx" and INPUTS[x][1] in toks:
            need.add(x)
    sp = {"fam": fam, "rx": rx_src, "plain": plain_src, "inputs": tuple(inputs),
          "build": tuple(x for x in INPUT_ORDER if x in need), "derived": tuple(derived),
          "needp": bool("p" in toks or any(INPUTS[x][0] == "param" for x in need))}
    sp.update(extra)
    return sp


# ---------------------------------------------------------------------------------------------
# value helpers (type-strict, NaN-free domain)
# ---------------------------------------------------------------------------------------------
def canon(v):
    if isinstance(v, (list, tuple)):
        return (type(v).__name__, tuple(canon(x) for x in v))
    if isinstance(v, dict):
        return ("dict", tuple((canon(k), canon(x)) for k, x in v.items()))
    if isinstance(v, slice):
        return ("slice", canon(v.start), canon(v.stop), canon(v.step))
    return (type(v).__name__, repr(v))


def same(x, y):
    return canon(x) == canon(y)


def short(v):
    return ("%s:%r" % (type(v).__name__, v)).replace(" ", "")


def show(o):
    return ("val:" + short(o[1])) if o[0] == "val" else ("exc:" + o[1].__name__)


def out_ok(got, want):
    if got[0] != want[0]:
        return False
    return same(got[1], want[1]) if got[0] == "val" else got[1] is want[1]


def outcome(thunk):
    try:
        return ("val", thunk())
    except Exception as e:      # noqa: BLE001 - the class is the observation
        return ("exc", type(e))


# ---------------------------------------------------------------------------------------------
# live objects of one case
# ---------------------------------------------------------------------------------------------
_PCLS = None
_CODE = {}


def _code(src):
    c = _CODE.get(src)
    if c is None:
        c = _CODE[src] = compile(src, "<c09_nest>", "eval")
    return c


def _pcls():
    global _PCLS
    if _PCLS is None:
        import param
        env = {"param": param}
        exec(PCLS_SRC, env)
        _PCLS = env["P"]
    return _PCLS


def cycle_values(x):
    """fresh objects of the value cycle of input x (aliases share the object)"""
    _, _, _, srcs, alias = INPUTS[x]
    vals = [None if s is None else eval(s) for s in srcs]
    for i, j in alias.items():
        vals[i] = vals[j]
    return vals


class Live:
    def __init__(self, spec, start=None):
        """``start``: {input: value} to build on (classification of a failure); default cycle[0]."""
        import param
        from param import rx, bind
        self.spec = spec
        self.cyc = {x: cycle_values(x) for x in spec["build"]}
        self.pos = {x: 0 for x in spec["build"]}
        self.sigma = {x: (self.cyc[x][0] if start is None else start[x]) for x in spec["build"]}
        env = dict(_ENV)
        env.update(rx=rx, bind=bind, param=param)
        if spec["needp"]:
            kw = {PATTR[x]: self.sigma[x] for x in spec["build"] if x in PATTR}
            env["p"] = _pcls()(**kw)
        for x in spec["build"]:
            if INPUTS[x][0] == "rx":
                env[INPUTS[x][1]] = rx(self.sigma[x])
        for d in spec["derived"]:
            env[d] = eval(_code(DERIVED[d][0]), env)
        self.env = env
        self.expr = eval(_code(spec["rx"]), env)
        self.sib = eval(_code(spec["sib"][0]), env) if spec.get("sib") else None

    def plain(self, which="plain", sigma=None):
        sigma = self.sigma if sigma is None else sigma
        spec = self.spec
        penv = dict(_ENV)
        for x, v in sigma.items():
            penv[INPUTS[x][2]] = v

        def th():
            for d in spec["derived"]:
                penv[DERIVED[d][1]] = eval(_code(DERIVED[d][2]), penv)
            return eval(_code(spec["plain"] if which == "plain" else spec["sib"][1]), penv)
        return outcome(th)

    def read(self, which="expr"):
        e = self.expr if which == "expr" else self.sib
        return outcome(lambda: e.rx.value)

    def update(self, x):
        """next value of the cycle of x; returns the exception class escaping from the update"""
        self.pos[x] += 1
        v = self.cyc[x][self.pos[x] % len(self.cyc[x])]
        self.sigma[x] = v
        try:
            if INPUTS[x][0] == "rx":
                self.env[INPUTS[x][1]].rx.value = v
            else:
                setattr(self.env["p"], PATTR[x], v)
        except Exception as e:      # noqa: BLE001  tolerated (module docstring)
            return type(e)
        return None


def gen_histories(inputs, L, sib=False):
    """All op sequences of length <= L over {u<x>, R} ending in R, containing an update, without two
    reads in a row, that are not a proper prefix of another one; with ``sib`` additionally every such
    sequence of length <= L-1 with one read S of the sibling consumer inserted anywhere before the
    last read (not next to another S)."""
    ops = ["u" + x for x in inputs]
    full = []

    def rec(seq):
        if seq and seq[-1] == "R" and any(o[0] == "u" for o in seq):
            full.append(tuple(seq))
        if len(seq) == L:
            return
        for o in ops:
            rec(seq + [o])
        if not seq or seq[-1] != "R":
            rec(seq + ["R"])
    rec([])
    fs = set(full)
    # drop proper prefixes (every read on the way is checked anyway)
    keep = [h for h in full if not any(len(g) > len(h) and g[:len(h)] == h for g in fs)]
    out = list(keep)
    if sib:
        seen = set(out)
        for h in full:
            if len(h) > L - 1:
                continue
            for i in range(len(h)):
                g = h[:i] + ("S",) + h[i:]
                if g not in seen:
                    seen.add(g)
                    out.append(g)
    return out


def has_return_window(h):
    """some input is updated twice between two reads, starting from v0 of its cycle (v0 -> v1 -> v0)"""
    pos, win, start = {}, {}, {}
    for op in h:
        if op == "R":
            win, start = {}, {}
            continue
        if op == "S":
            continue
        x = op[1:]
        if x not in win:
            win[x] = 0
            start[x] = pos.get(x, 0)
        win[x] += 1
        pos[x] = pos.get(x, 0) + 1
        if start[x] % 2 == 0 and win[x] == 2:
            return True
    return False


def run_case(spec, hist, watch):
    """-> (n_read_checks, n_watch_checks, failure or None); failure = (clause, kind, step, detail)"""
    fam = spec["fam"]
    live = Live(spec)
    seen = []
    if watch:
        live.expr.rx.watch(seen.append)
    nread = nwatch = 0
    snaps = []
    for step, op in enumerate(hist):
        if op in ("R", "S"):
            which = "expr" if op == "R" else "sib"
            want = live.plain("plain" if op == "R" else "sib")
            got = live.read(which)
            nread += 1
            if not out_ok(got, want):
                kind = _classify(spec, live, which, got, want, snaps)
                return nread, nwatch, ("C09/%s/value==plain" % fam, kind, step,
                                       "read %s got=%s want=%s" % (which, show(got), show(want)))
            continue
        x = op[1:]
        before = live.plain() if watch else None
        snaps.append(dict(live.sigma))
        n0 = len(seen)
        exc = live.update(x)
        if watch and exc is None:
            after = live.plain()
            calls = seen[n0:]
            if after[0] == "val":
                changed = before[0] == "val" and not same(before[1], after[1])
                if changed:
                    nwatch += 1
                    if not calls:
                        return nread, nwatch, ("C09/%s/watch-called-on-change" % fam, "not-called", step,
                                               "before=%s after=%s" % (show(before), show(after)))
                if calls:
                    nwatch += 1
                    if not same(calls[-1], after[1]):
                        got = live.read("expr")
                        if not out_ok(got, after):
                            kind = _classify(spec, live, "expr", got, after, snaps)
                            return nread, nwatch, ("C09/%s/value==plain" % fam, kind, step,
                                                   "(seen through the watch callback) got=%s want=%s" % (
                                                       show(got), show(after)))
                        return nread, nwatch, ("C09/%s/watch-fresh-value" % fam, "wrong-arg", step,
                                               "callback got %s, fresh value %s" % (short(calls[-1]), show(after)))
    return nread, nwatch, None


def _classify(spec, live, which, got, want, snaps):
    """'stale': the same expression built afresh on the inputs' current values is right (history
    dependent: cache / invalidation / dependency defect); else the kind of disagreement."""
    try:
        fresh = Live(spec, start=live.sigma)
        if out_ok(fresh.read(which), want):
            return "stale"
    except Exception:       # noqa: BLE001
        pass
    if want[0] == "val" and got[0] == "val":
        return "wrong-value"
    if want[0] == "val":
        return "raises"
    return "no-raise" if got[0] == "val" else "wrong-exception"


# ---------------------------------------------------------------------------------------------
# family (e): nested operands
# ---------------------------------------------------------------------------------------------
# leaf kind -> (rx source, plain source, inputs)
LEAVES = {
    "A": ("a", "va", ("a",)),
    "N": ("n", "vn", ("n",)),
    "P": ("p.param.x", "vpx", ("px",)),
    "F": ("F", "vF", ("a", "px")),
    "E": ("E", "vE", ("n",)),
    "G": ("G", "vG", ("a",)),
    "D": ("p.dm", "vpx * 100", ("px",)),
}
LEAF_ORDER = ["A", "N", "P", "F", "E", "G", "D"]
PARTNER = {"A": "N", "N": "P", "P": "A", "F": "N", "E": "A", "G": "P", "D": "A"}
HASHABLE_LEAVES = ("P", "F", "D")

# (name, template, depth of the deepest hole, holes, only hashable leaves)
SHAPES = [
    ("list1", "[{0}, 2]", 1, 1, False),
    ("tuple1", "({0}, 0)", 1, 1, False),
    ("dict1", "{{'w': {0}}}", 1, 1, False),
    ("list-list", "[[{0}, 2], [{1}]]", 2, 2, False),
    ("tuple-tuple", "(({0}, 0), 1)", 2, 1, False),
    ("dict-list", "{{'w': [{0}, 1]}}", 2, 1, False),
    ("dict-dict", "{{'w': {{'v': {0}}}}}", 2, 1, False),
    ("tuple-list", "([{0}], {1})", 2, 2, False),
    ("list-tuple", "[3, ({1}, {0})]", 2, 2, False),
    ("list-slice", "[slice({0}, None), 1]", 2, 1, False),
    ("tuple-slice", "(slice(None, {0}, {1}), 0)", 2, 2, False),
    ("dict-slice", "{{'k': slice({0}, 4)}}", 2, 1, False),
    ("list-dict-tuple", "[{{'k': ({0}, {1})}}]", 3, 2, False),
    ("list-list-list", "[[[{0}]]]", 3, 1, False),
    ("tuple-dict-list", "({{'k': [{0}, {1}]}},)", 3, 2, False),
    ("list-list-tuple-slice", "[[(0, slice({0}, None))]]", 4, 1, False),
    ("list-dictkey", "[{{{0}: 1}}]", 2, 1, True),
]
SHAPE_DEPTH = {s[0]: s[2] for s in SHAPES}

_BIN = [("add", "+"), ("sub", "-"), ("mul", "*"), ("matmul", "@"), ("truediv", "/"), ("floordiv", "//"),
        ("mod", "%"), ("pow", "**"), ("lshift", "<<"), ("rshift", ">>"), ("and", "&"), ("xor", "^"),
        ("or", "|")]
_CMP = [("lt", "<"), ("le", "<="), ("eq", "=="), ("ne", "!="), ("gt", ">"), ("ge", ">=")]
# reflected slots that the pinned tree is known not to support at all (DESIGN 9, part (a) of c09.py)
_BROKEN_REFLECTED = ("matmul", "lshift", "rshift")


def contexts():
    """(name, group, rx template, plain template, extra inputs); '?' = the argument, '$' = literal of
    the argument's initial plain value, '#' = literal of its first element / key."""
    C = [
        ("pipe:arg", "pipe", "rx(0).rx.pipe(pair, ?)", "pair(0, ?)", ()),
        ("pipe:arg2", "pipe", "rx(0).rx.pipe(trip, 3, ?)", "trip(0, 3, ?)", ()),
        ("pipe:kw", "pipe", "rx(0).rx.pipe(pair, y=?)", "pair(0, y=?)", ()),
        ("pipe:self=a", "pipe", "a.rx.pipe(pair, ?)", "pair(va, ?)", ("a",)),
        ("pipe:self=param", "pipe", "p.param.x.rx.pipe(pair, ?)", "pair(vpx, ?)", ("px",)),
        ("pipe:self=bind", "pipe", "F.rx.pipe(pair, y=?)", "pair(vF, y=?)", ("a", "px")),
        ("pipe:chain", "pipe", "(n + 1).rx.pipe(pair, ?)", "pair(vn + 1, ?)", ("n",)),
        ("pipe:then-op", "pipe", "rx(0).rx.pipe(pair, ?)[1]", "pair(0, ?)[1]", ()),
        ("map:arg", "map", "rx([1, 2]).rx.map(pair, ?)", "[pair(_v, ?) for _v in [1, 2]]", ()),
        ("map:kw", "map", "rx([1, 2]).rx.map(pair, y=?)", "[pair(_v, y=?) for _v in [1, 2]]", ()),
        ("map:self=l", "map", "l.rx.map(pair, ?)", "[pair(_v, ?) for _v in vl]", ("l",)),
        ("in_", "helper", "rx(#).rx.in_(?)", "(# in ?)", ()),
        ("and_", "helper", "rx(1).rx.and_(?)", "(1 and ?)", ()),
        ("or_", "helper", "rx(0).rx.or_(?)", "(0 or ?)", ()),
        ("and_:self=a", "helper", "a.rx.and_(?)", "(va and ?)", ("a",)),
        ("getitem", "getitem", "rx(Echo())[?]", "Echo()[?]", ()),
        ("getitem:tuple", "getitem", "rx(Echo())[?, 0]", "Echo()[?, 0]", ()),
        ("getitem:slice", "getitem", "rx(Echo())[?:]", "Echo()[?:]", ()),
        ("getitem:then-op", "getitem", "rx(Echo())[?][1]", "Echo()[?][1]", ()),
        ("method:arg", "call", "rx(Echo()).m(?)", "Echo().m(?)", ()),
        ("method:arg2", "call", "rx(Echo()).m(1, ?)", "Echo().m(1, ?)", ()),
        ("method:kw", "call", "rx(Echo()).m(kw=?)", "Echo().m(kw=?)", ()),
        ("call", "call", "rx(Echo())(?)", "Echo()(?)", ()),
        ("list.count", "call", "rx([$, 0]).count(?)", "[$, 0].count(?)", ()),
        ("str.format", "call", "rx('<{}>').format(?)", "'<{}>'.format(?)", ()),
        ("dict.get", "call", "rx({}).get('k', ?)", "{}.get('k', ?)", ()),
        ("eq:real", "operator", "(rx($) == ?)", "($ == ?)", ()),
        ("ne:real:reflected", "operator", "(? != rx($))", "(? != $)", ()),
        ("add:real", "operator", "(rx([0]) + ?)", "([0] + ?)", ()),
        ("radd:real", "operator", "(? + rx([0]))", "(? + [0])", ()),
    ]
    for n, sym in _BIN:
        C.append(("op:" + n, "operator", "(rx(Echo()) %s ?)" % sym, "(Echo() %s ?)" % sym, ()))
        if n not in _BROKEN_REFLECTED:
            C.append(("op:r" + n, "operator", "(? %s rx(Echo()))" % sym, "(? %s Echo())" % sym, ()))
    C.append(("op:divmod", "operator", "divmod(rx(Echo()), ?)", "divmod(Echo(), ?)", ()))
    C.append(("op:rdivmod", "operator", "divmod(?, rx(Echo()))", "divmod(?, Echo())", ()))
    for n, sym in _CMP:
        C.append(("op:" + n, "operator", "(rx(Echo()) %s ?)" % sym, "(Echo() %s ?)" % sym, ()))
        C.append(("op:reflected-" + n, "operator", "(? %s rx(Echo()))" % sym, "(? %s Echo())" % sym, ()))
    return C


CONTEXTS = contexts()
CTX_GROUP = {c[0]: c[1] for c in CONTEXTS}
CTX_INDEX = {c[0]: i for i, c in enumerate(CONTEXTS)}
SHAPE_INDEX = {s[0]: i for i, s in enumerate(SHAPES)}


def _literal(v):
    """source text of a plain value of the domain (ints, strings, lists, tuples, dicts, slices)"""
    if isinstance(v, list):
        return "[" + ", ".join(_literal(x) for x in v) + "]"
    if isinstance(v, tuple):
        return "(" + ", ".join(_literal(x) for x in v) + ("," if len(v) == 1 else "") + ")"
    if isinstance(v, dict):
        return "{" + ", ".join("%s: %s" % (_literal(k), _literal(x)) for k, x in v.items()) + "}"
    if isinstance(v, slice):
        return "slice(%s, %s, %s)" % (_literal(v.start), _literal(v.stop), _literal(v.step))
    return repr(v)


def nested_spec(shape, leaves, ctx, outer):
    """spec of one (shape, leaf kinds, context, outer consumer) combination"""
    sname, tmpl, depth, holes, _ = SHAPES[SHAPE_INDEX[shape]]
    cname, group, rx_t, pl_t, xin = CONTEXTS[CTX_INDEX[ctx]]
    rx_arg = tmpl.format(*[LEAVES[k][0] for k in leaves])
    pl_arg = tmpl.format(*[LEAVES[k][1] for k in leaves])
    inputs = []
    for k in leaves[:holes]:
        for x in LEAVES[k][2]:
            if x not in inputs:
                inputs.append(x)
    for x in xin:
        if x not in inputs:
            inputs.append(x)
    rx_src = rx_t.replace("?", rx_arg)
    pl_src = pl_t.replace("?", pl_arg)
    if "$" in rx_t or "#" in rx_t:
        # literal of the argument's plain value on the initial inputs
        penv = dict(_ENV)
        for x in INPUT_ORDER:
            penv[INPUTS[x][2]] = cycle_values(x)[0]
        for d in DERIVED_ORDER:
            penv[DERIVED[d][1]] = eval(DERIVED[d][2], penv)
        v0 = eval(pl_arg, penv)
        whole = _literal(v0)
        first = _literal(next(iter(v0)))
        rx_src = rx_src.replace("$", whole).replace("#", first)
        pl_src = pl_src.replace("$", whole).replace("#", first)
    if outer:
        rx_src = "rx(100).rx.pipe(pair, [%s])" % rx_src
        pl_src = "pair(100, [%s])" % pl_src
    inputs = [x for x in INPUT_ORDER if x in inputs]
    return spec_make("nested", rx_src, pl_src, inputs, shape=shape, leaves="".join(leaves[:holes]),
                     ctx=ctx, outer=int(outer))


def nested_specs(tier, seed):
    """quick: every (shape, context) pair with a rotating leaf kind (so that every (leaf, context) and
    (leaf, shape) pair occurs too), operator contexts sampled per shape, outer consumer alternating;
    thorough: shapes x all leaf kinds (x partner) x non-operator contexts (outer consumer alternating), every
    operator context with two rotating leaf kinds"""
    thorough = tier == "thorough"
    rng = random.Random(7919 * (seed + 1))
    specs = []
    opctx = [c[0] for c in CONTEXTS if c[0].startswith("op:")]
    other = [c[0] for c in CONTEXTS if not c[0].startswith("op:")]
    for si, (sname, tmpl, depth, holes, hashable) in enumerate(SHAPES):
        kinds = [k for k in LEAF_ORDER if (k in HASHABLE_LEAVES or not hashable)]
        if thorough:
            ctxs = other + opctx
        else:
            ctxs = other + sorted(rng.sample(opctx, 6), key=CTX_INDEX.get)
        for ci, ctx in enumerate(ctxs):
            k = kinds[(si * 3 + ci + seed) % len(kinds)]
            k2 = kinds[(si * 3 + ci + seed + 3) % len(kinds)]
            outer = (si + ci + seed) % 2
            if thorough and CTX_GROUP[ctx] != "operator":
                for ki, kk in enumerate(kinds):
                    specs.append(nested_spec(sname, (kk, PARTNER[kk]), ctx, (outer + ki) % 2))
            elif thorough:
                specs.append(nested_spec(sname, (k, PARTNER[k]), ctx, outer))
                specs.append(nested_spec(sname, (k2, PARTNER[k2]), ctx, 1 - outer))
            else:
                specs.append(nested_spec(sname, (k, PARTNER[k]), ctx, outer))
                if depth >= 2 and CTX_GROUP[ctx] != "operator" and (si + ci + seed) % 2 == 0:
                    specs.append(nested_spec(sname, (k2, PARTNER[k2]), ctx, 1 - outer))
    return specs


# ---------------------------------------------------------------------------------------------
# family (f): unread windows returning to the value last evaluated
# ---------------------------------------------------------------------------------------------
# (rx source, plain source, inputs)
BACK_EXPRS = [
    # int roots
    ("a + 1", "va + 1", ("a",)),
    ("10 - a", "10 - va", ("a",)),
    ("a.rx.pipe(inc)", "inc(va)", ("a",)),
    ("(a + 1) * 2 - a", "(va + 1) * 2 - va", ("a",)),
    ("-a", "-va", ("a",)),
    ("a + n", "va + vn", ("a", "n")),
    ("a.rx.pipe(f_sub, n)", "f_sub(va, vn)", ("a", "n")),
    ("a.rx.pipe(f_sub, y=n)", "f_sub(va, y=vn)", ("a", "n")),
    ("(a + 1) * (n - a)", "(va + 1) * (vn - va)", ("a", "n")),
    ("a.rx.pipe(pair, [[n, 2]])", "pair(va, [[vn, 2]])", ("a", "n")),
    ("rx(0).rx.pipe(pair, {'w': [a, n]})", "pair(0, {'w': [va, vn]})", ("a", "n")),
    ("E + a", "vE + va", ("n", "a")),
    # inputs that are arguments only (the pipeline root is a constant)
    ("rx(10) + a + n", "10 + va + vn", ("a", "n")),
    ("rx(10).rx.pipe(trip, a, n)", "trip(10, va, vn)", ("a", "n")),
    ("rx(10).rx.pipe(trip, p.param.x, a)", "trip(10, vpx, va)", ("px", "a")),
    ("rx(10).rx.pipe(trip, p.param.x, y=n)", "trip(10, vpx, y=vn)", ("px", "n")),
    ("rx(1).rx.pipe(trip, flag, s)", "trip(1, vflag, vs)", ("flag", "s")),
    ("rx([0]) + [a, p.param.flag]", "[0] + [va, vpf]", ("a", "pf")),
    # Parameter roots, bound functions
    ("a + p.param.x", "va + vpx", ("a", "px")),
    ("p.param.x.rx() + 1", "vpx + 1", ("px",)),
    ("10 // p.param.x.rx()", "10 // vpx", ("px",)),
    ("p.param.x.rx() * a", "vpx * va", ("px", "a")),
    ("p.param.x.rx.pipe(f_sub, a)", "f_sub(vpx, va)", ("px", "a")),
    ("p.param.x.rx.pipe(inc)", "inc(vpx)", ("px",)),
    ("rx(F) + n", "vF + vn", ("a", "px", "n")),
    ("F.rx.pipe(inc)", "inc(vF)", ("a", "px")),
    ("bind(f_sub, a, p.param.x)", "f_sub(va, vpx)", ("a", "px")),
    ("bind(f_sub, a, y=n)", "f_sub(va, y=vn)", ("a", "n")),
    ("rx(bind(f_sub, p.param.x, a)) + 0", "f_sub(vpx, va) + 0", ("px", "a")),
    ("rx(p.dm) + a", "vpx * 100 + va", ("px", "a")),
    ("(a + 1).rx.pipe(pair, {'w': [p.param.x, a]})", "pair(va + 1, {'w': [vpx, va]})", ("a", "px")),
    # boolean flags
    ("flag.rx.not_()", "(not vflag)", ("flag",)),
    ("flag.rx.bool()", "bool(vflag)", ("flag",)),
    ("flag.rx.where('on', 'off')", "('on' if vflag else 'off')", ("flag",)),
    ("flag.rx.where(a, n)", "(va if vflag else vn)", ("flag", "a", "n")),
    ("flag.rx.and_(a)", "(vflag and va)", ("flag", "a")),
    ("flag.rx.or_(s)", "(vflag or vs)", ("flag", "s")),
    ("flag & True", "vflag & True", ("flag",)),
    ("flag.rx.is_(True)", "(vflag is True)", ("flag",)),
    ("flag == True", "(vflag == True)", ("flag",)),
    ("flag.rx.pipe(str)", "str(vflag)", ("flag",)),
    ("flag.rx.not_().rx.and_(a)", "((not vflag) and va)", ("flag", "a")),
    ("a.rx.where(flag, s)", "(vflag if va else vs)", ("flag", "s")),
    ("p.param.flag.rx.not_()", "(not vpf)", ("pf",)),
    ("p.param.flag.rx.where(a, 0)", "(va if vpf else 0)", ("pf", "a")),
    ("p.param.flag.rx.and_(flag)", "(vpf and vflag)", ("pf", "flag")),
    ("p.param.flag.rx().rx.is_(True)", "(vpf is True)", ("pf",)),
    # strings
    ("s + '!'", "vs + '!'", ("s",)),
    ("'<' + s", "'<' + vs", ("s",)),
    ("s.upper()", "vs.upper()", ("s",)),
    ("s.rx.len()", "len(vs)", ("s",)),
    ("s == 'idle'", "(vs == 'idle')", ("s",)),
    ("s.rx.in_(['idle', 'done'])", "(vs in ['idle', 'done'])", ("s",)),
    ("s.title()[0]", "vs.title()[0]", ("s",)),
    ("s.rx.pipe(len) + a", "len(vs) + va", ("s", "a")),
    ("s * a", "vs * va", ("s", "a")),
    ("p.param.s.rx() + s", "vps + vs", ("ps", "s")),
    ("p.param.s.rx.len()", "len(vps)", ("ps",)),
    ("s.replace('i', p.param.s)", "vs.replace('i', vps)", ("s", "ps")),
    ("(s == 'idle').rx.where(a, n)", "(va if (vs == 'idle') else vn)", ("s", "a", "n")),
    # lists: the very same object comes back (l) / an equal copy comes back (k)
    ("l.rx.len()", "len(vl)", ("l",)),
    ("l[0]", "vl[0]", ("l",)),
    ("l + [a]", "vl + [va]", ("l", "a")),
    ("l.rx.map(inc)", "[inc(_v) for _v in vl]", ("l",)),
    ("l.count(a)", "vl.count(va)", ("l", "a")),
    ("k.rx.len()", "len(vk)", ("k",)),
    ("k[0] + a", "vk[0] + va", ("k", "a")),
    ("k.rx.pipe(sum)", "sum(vk)", ("k",)),
]
# sibling consumer of the first input (another expression sharing the root / the Parameter)
SIBLING = {
    "a": ("a + 100", "va + 100"), "n": ("n", "vn"),             # n, s, l: the root itself is read
    "flag": ("flag.rx.not_()", "(not vflag)"), "s": ("s", "vs"),
    "l": ("l", "vl"), "k": ("k.rx.len()", "len(vk)"),
    "px": ("p.param.x.rx() + 100", "vpx + 100"), "pf": ("p.param.flag.rx.not_()", "(not vpf)"),
    "ps": ("p.param.s.rx() + '?'", "vps + '?'"),
}


def back_specs():
    out = []
    for rx_src, pl_src, inputs in BACK_EXPRS:
        out.append(spec_make("unread", rx_src, pl_src, inputs, sib=SIBLING[inputs[0]]))
    return out


# ---------------------------------------------------------------------------------------------
# tasks
# ---------------------------------------------------------------------------------------------
def _crc(t):
    return zlib.crc32(t.encode())


def tasks(tier, seed, nchunks=28):
    thorough = tier == "thorough"
    Le = 4 if thorough else 3
    Lf = 6 if thorough else 5
    items = []      # (spec, L, sib, cap)
    for sp in nested_specs(tier, seed):
        items.append((sp, Le, False, 12 if thorough else None))
    for sp in back_specs():
        items.append((sp, Lf, True, None if thorough else 20))
    # round-robin chunks, heavier items (more inputs) spread evenly
    items.sort(key=lambda it: (-len(it[0]["inputs"]), it[0]["fam"], it[0]["rx"]))
    chunks = [[] for _ in range(nchunks)]
    for i, it in enumerate(items):
        chunks[i % nchunks].append(it)
    return [(c, tier, seed) for c in chunks if c]


def task(args):
    chunk, tier, seed = args
    from bounded.c09 import _quiet
    restore = _quiet()
    try:
        res = []
        for (spec, L, sib, cap) in chunk:
            hists = gen_histories(spec["inputs"], L, sib=sib)
            full = True
            if cap is not None and len(hists) > cap:
                # always keep the unread windows in which an input goes back to the value the last read saw
                # (two updates of one input starting from v0, whatever else changes in the window); sample the
                # rest (longer ones, reads of the sibling consumer inside the window, ...)
                must = [h for h in hists if "S" not in h and has_return_window(h)]
                mset = set(must)
                rest = [h for h in hists if h not in mset]
                rng = random.Random(1000003 * (seed + 1) + _crc(spec["rx"]))
                hists = must + (rng.sample(rest, cap) if cap < len(rest) else rest)
                full = False
            ncase = nread = nwatch = 0
            fails = []
            for watch in (0, 1):
                for h in hists:
                    ncase += 1
                    try:
                        r, w, f = run_case(spec, h, watch)
                    except Exception as e:      # noqa: BLE001  harness problem: report, never hide
                        import traceback
                        r, w, f = 0, 0, ("C09/%s/harness" % spec["fam"], "build-error", 0, "%s: %s | %s" % (
                            type(e).__name__, e, traceback.format_exc().splitlines()[-3:]))
                    nread += r
                    nwatch += w
                    if f:
                        clause, kind, step, detail = f
                        hh = h[:step + 1]
                        if clause.endswith("value==plain") and hh[-1][0] == "u":
                            hh = hh + ("R",)
                        fails.append((clause, kind, hh, watch, detail))
            res.append({"spec": spec, "cases": ncase, "nread": nread, "nwatch": nwatch, "fails": fails,
                        "full": full, "nhist": len(hists)})
        return res
    finally:
        restore()


# ---------------------------------------------------------------------------------------------
# replay
# ---------------------------------------------------------------------------------------------
def replay(spec, hist, watch, clause, witness):
    hdr = REPLAY_HEADER.format(prop=PROP, name="replay_c09_%s.py" % spec["fam"], clause=clause, witness=witness)
    L = [hdr, "import warnings, logging", "warnings.simplefilter('ignore')", "import param",
         "from param import rx, bind", "param.parameterized.get_logger().setLevel(logging.CRITICAL + 10)",
         PRELUDE_SRC, PCLS_SRC]
    init = {}
    for x in spec["build"]:
        kind, rname, pname, srcs, alias = INPUTS[x]
        L.append("cyc_%s = [%s]" % (x, ", ".join("None" if s is None else s for s in srcs)))
        for i, j in alias.items():
            L.append("cyc_%s[%d] = cyc_%s[%d]      # the very same object comes back" % (x, i, x, j))
        L.append("%s = cyc_%s[0]" % (pname, x))
    pk = ["%s=%s" % (PATTR[x], INPUTS[x][2]) for x in spec["build"] if x in PATTR]
    L.append("p = P(%s)" % ", ".join(pk))
    for x in spec["build"]:
        if INPUTS[x][0] == "rx":
            L.append("%s = rx(%s)" % (INPUTS[x][1], INPUTS[x][2]))
    for d in spec["derived"]:
        L.append("%s = %s" % (d, DERIVED[d][0]))
    L.append("e = %s" % spec["rx"])
    if spec.get("sib") and "S" in hist:
        L.append("sib = %s        # another consumer of the same input" % spec["sib"][0])
    L.append("def plain(which='e'):")
    L.append("    # the same expression in plain Python on the inputs' current values")
    for d in spec["derived"]:
        L.append("    %s = %s" % (DERIVED[d][1], DERIVED[d][2]))
    if spec.get("sib"):
        L.append("    if which == 'sib': return %s" % spec["sib"][1])
    L.append("    return %s" % spec["plain"])
    L += ["def outcome(th):", "    try: return ('val', th())",
          "    except Exception as ex: return ('exc', type(ex).__name__)",
          "def canon(v):",
          "    if isinstance(v, (list, tuple)): return (type(v).__name__, tuple(canon(i) for i in v))",
          "    if isinstance(v, dict): return ('dict', tuple((canon(k), canon(i)) for k, i in v.items()))",
          "    if isinstance(v, slice): return ('slice', canon(v.start), canon(v.stop), canon(v.step))",
          "    return (type(v).__name__, repr(v))",
          "def setin(f):", "    try: f()",
          "    except Exception as ex: print('  (update raised %s, tolerated)' % type(ex).__name__)",
          "seen = []; bad = None"]
    if watch:
        L.append("e.rx.watch(seen.append)")
    pos = {x: 0 for x in spec["build"]}
    for step, op in enumerate(hist):
        last = step == len(hist) - 1
        if op in ("R", "S"):
            nm, wh = ("e", "e") if op == "R" else ("sib", "sib")
            L.append("got = outcome(lambda: %s.rx.value); want = outcome(lambda: plain(%r))" % (nm, wh))
            L.append("print('read %s: rx', got, ' plain', want)" % nm)
            if last:
                L.append("if got[0] != want[0] or canon(got[1]) != canon(want[1]): "
                         "bad = '%s.rx.value is %%r, plain Python gives %%r' %% (got, want)" % nm)
            continue
        x = op[1:]
        pos[x] += 1
        i = pos[x] % len(INPUTS[x][3])
        pname = INPUTS[x][2]
        if last and watch:
            L.append("before = outcome(plain); k0 = len(seen)")
        L.append("%s = cyc_%s[%d]" % (pname, x, i))
        if INPUTS[x][0] == "rx":
            L.append("def _u(): %s.rx.value = %s" % (INPUTS[x][1], pname))
        else:
            L.append("def _u(): p.%s = %s" % (PATTR[x], pname))
        L.append("setin(_u); print('%s ->', %s)" % (op, pname))
        if last and watch:
            L.append("after = outcome(plain); calls = seen[k0:]")
            L.append("print('value before', before, 'after', after, 'watch calls', calls)")
            L.append("if after[0] == 'val' and before[0] == 'val' and canon(before[1]) != canon(after[1]) and not calls: "
                     "bad = 'value changed %r -> %r but the .rx.watch callback was not called' % (before, after)")
            L.append("elif after[0] == 'val' and calls and canon(calls[-1]) != canon(after[1]): "
                     "bad = 'callback received %r, fresh value is %r' % (calls[-1], after[1])")
    L += ["if bad:", "    print('REPRODUCED: ' + bad)", "    sys.exit(1)", "print('NOT-REPRODUCED')", "sys.exit(0)"]
    return "\n".join(L) + "\n"


# ---------------------------------------------------------------------------------------------
# merge into the Bounded recorder of c09.run
# ---------------------------------------------------------------------------------------------
def _root_kind(spec, hist):
    ups = {o[1:] for o in hist if o[0] == "u"}
    kinds = {INPUTS[x][0] for x in ups}
    return "+".join(sorted(kinds)) or "none"


def merge(B, results, tier):
    classes = {}
    n = {"nested": [0, 0, 0, 0], "unread": [0, 0, 0, 0]}       # specs, cases, reads, watch checks
    sampled = {"nested": False, "unread": False}
    for res in results:
        for r in res:
            spec = r["spec"]
            fam = spec["fam"]
            n[fam][0] += 1
            n[fam][1] += r["cases"]
            n[fam][2] += r["nread"]
            n[fam][3] += r["nwatch"]
            sampled[fam] = sampled[fam] or not r["full"]
            B.evaluations += r["cases"]
            B._distinct.update((fam, spec["rx"], i) for i in range(r["cases"]))
            B.checked("C09/%s/value==plain" % fam, r["nread"])
            B.checked("C09/%s/watch-fresh-value+called-on-change" % fam, r["nwatch"])
            for (clause, kind, h, watch, detail) in r["fails"]:
                if fam == "nested":
                    ck = (clause, kind, CTX_GROUP[spec["ctx"]])
                    size = (SHAPE_DEPTH[spec["shape"]], len(h), int(watch), spec["outer"],
                            SHAPE_INDEX[spec["shape"]], CTX_INDEX[spec["ctx"]],
                            LEAF_ORDER.index(spec["leaves"][0]), h)
                else:
                    ck = (clause, kind, _root_kind(spec, h))
                    size = (len(h), int(watch), int("S" in h), len(spec["inputs"]), len(spec["rx"]), spec["rx"], h)
                ent = classes.get(ck)
                if ent is None:
                    ent = classes[ck] = [size, spec, h, watch, detail, 0, set()]
                ent[5] += 1
                ent[6].add(spec["rx"])
                if size < ent[0]:
                    ent[:5] = [size, spec, h, watch, detail]
    for ck in sorted(classes):
        size, spec, h, watch, detail, cnt, exprs = classes[ck]
        clause, kind, grp = ck
        if spec["fam"] == "nested":
            witness = "kind=%s group=%s ctx=%s shape=%s depth=%d leaves=%s outer=%d watch=%d hist=%s expr=%s" % (
                kind, grp, spec["ctx"], spec["shape"], SHAPE_DEPTH[spec["shape"]], spec["leaves"], spec["outer"],
                int(watch), ",".join(h), spec["rx"].replace(" ", ""))
        else:
            witness = "kind=%s roots=%s watch=%d hist=%s expr=%s" % (
                kind, grp, int(watch), ",".join(h), spec["rx"].replace(" ", ""))
        rp = None if kind == "build-error" else replay(spec, h, watch, clause, witness)
        B.violation(clause, witness,
                    detail="%s; %d failing histories over %d expressions in this class, e.g. %s" % (
                        detail, cnt, len(exprs), "; ".join(sorted(exprs)[:4])),
                    replay=rp)
        B._seen[(clause, witness)]["count"] = cnt
    B.note("part (e) nested operands: %d expressions (%d shapes x leaf kinds %s x %d contexts%s), %d histories, %d reads "
           "and %d watch checks; part (f) unread windows returning to the last evaluated value: %d expressions, %d "
           "histories, %d reads and %d watch checks%s" % (
               n["nested"][0], len(SHAPES), "".join(LEAF_ORDER), len(CONTEXTS),
               (", sampled pairwise" if tier != "thorough" else "") +
               (", histories sampled per expression" if sampled["nested"] else ""),
               n["nested"][1], n["nested"][2], n["nested"][3],
               n["unread"][0], n["unread"][1], n["unread"][2], n["unread"][3],
               " (histories sampled per expression)" if sampled["unread"] else ""))
    return n
