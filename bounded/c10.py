"""Bounded stand-in layer for C10 -- the latest assignment wins under every completion order.

A deterministic driver runs the REAL ``param`` code on a real asyncio event loop (one fresh loop
per case, always closed).  Awaitables are hand-made futures that the driver resolves in a chosen
order; between two events the driver either lets the loop run until it is quiescent (``T``) or
not, so that back-to-back assignments, assignments landing while a coroutine is suspended and
assignments landing between a completion and the wake-up of its task are all reached.

Part P (parameter driven by asynchronous references)
    kinds   : every sequence of <= N assignments from {c: coroutine function, g: async generator
              function with two yields, v: plain value, C: the SAME coroutine function object as
              the most recent earlier c/C assignment, G: the SAME async generator function object
              as the most recent earlier g/G assignment} to ``p = Parameter(allow_refs=True)``.
              Every call of a function -- shared or not -- awaits the futures of the assignment
              that made the call (the assignment index travels in a ContextVar that the task
              created by the assignment copies), so results always carry the index of the
              assignment they belong to.
    words   : every interleaving of the assignments (in order) with the completions R<i>.<k> of
              their futures (a future can complete any time after its assignment; the two
              futures of a generator in order, thorough also out of order)
    ticks   : every subset of the gaps between events gets a ``T`` (small words) / five tick
              modes (large words); a final ``T`` always
    oracle (from the statement; values carry the index of the assignment they belong to):
      final-latest-wins      once every future completed and the loop is quiescent, ``p`` holds
                             the value of the most recent assignment (plain value / coroutine
                             result / last yield of the generator)
      no-stale-apply         no watcher event ever carries the result of assignment i while a
                             newer assignment j > i (async) has been made
      plain-not-overwritten  same with j a plain value: it is never overwritten by a pending result
    A failing schedule of a sequence with a shared function (C/G) whose twin (the same schedule
    with fresh function objects) fails in the same way is counted in the twin's class (the
    sharing is irrelevant); otherwise it forms a class of its own, marked ``samefn=1``.

Part M (bounded/c10_multi.py): two allow_refs parameters of ONE object driven by asynchronous
    references at the same time, and plain values assigned by a watcher / depends(watch=True) handler
    running inside ``t.param.trigger(...)``; per-parameter form of the same three clauses
    (``C10/multi/...``), built from tick-separated schedules that hold on the unchanged tree.

Part G (bounded/c10_gap.py): the next assignment arrives EXACTLY 0 / 1 / 2 iterations of the loop (token ``S`` =
    a single ``await asyncio.sleep(0)``) after the previous one, for every kind pair / triple; driver, oracle and
    clauses of part P.  A failing schedule whose twin (runs of ``S`` replaced by ``T``) fails in the same way is
    counted in the twin's class, otherwise it forms a class marked ``exactgap=``.

Part RM (bounded/c10_map.py): ``src.rx.map(<coroutine function>)`` -- one awaitable per item, every completion
    order; the list held must be the map of the latest list in ITEM order (``C10/rxmap/...``).

Part R (reactive expression piping through coroutines)
    shapes  : r.rx.pipe(coro), r.rx.pipe(asyncgen), rx(bind(coro, r)), rx(bind(asyncgen, r))
    history : n root updates r=1..n, optionally read / tick after each, with or without
              ``.rx.watch``; then every permutation of the completion order of all pending
              futures (a generator's own two futures in order), with or without ticks between
    oracle  : final-latest-wins (after everything completed, and the evaluations the final reads
              start completed too, ``.rx.value`` is the result computed from the latest root value,
              last yield); no-stale-after-newer (lenient form for lazily started evaluations: once
              a result for a newer input was delivered to the watch callback, no result for an
              older input is delivered).
"""
import contextvars
import itertools
import os
import warnings

from bounded._api import Bounded, REPLAY_HEADER
from bounded import c10_multi, c10_gap, c10_map

PROP = "C10"
NPROC = max(2, min(14, (os.cpu_count() or 4) - 2))
TICK_ITERS = 40


def _quiet():
    import logging
    import param
    logger = param.parameterized.get_logger()
    old = logger.level
    logger.setLevel(logging.CRITICAL + 10)
    cm = warnings.catch_warnings()
    cm.__enter__()
    warnings.simplefilter("ignore")

    def restore():
        cm.__exit__(None, None, None)
        logger.setLevel(old)
    return restore


# =====================================================================================
# Part P: words
# =====================================================================================

def lower(kinds):
    return tuple(k.lower() for k in kinds)


def shared_sequences(n):
    """kind sequences of length n that assign the same function object at least twice"""
    out = []
    for kinds in itertools.product("cgvCG", repeat=n):
        if not any(k in "CG" for k in kinds):
            continue
        seen, ok = set(), True
        for k in kinds:
            if k in "CG" and k.lower() not in seen:
                ok = False
            seen.add(k.lower())
        if ok:
            out.append(kinds)
    return out


def words(kinds, free_gen_order=False):
    """All interleavings of A0..A(n-1) (in order) with the completions of their futures."""
    kinds = lower(kinds)
    n = len(kinds)
    res = []

    def rec(word, next_a, pending):
        if next_a == n and not pending:
            res.append(tuple(word))
            return
        if next_a < n:
            k = kinds[next_a]
            newp = set(pending)
            if k == "c":
                newp.add((next_a, 0))
            elif k == "g":
                newp.add((next_a, 0))
                if free_gen_order:
                    newp.add((next_a, 1))
            rec(word + [("A", next_a)], next_a + 1, frozenset(newp))
        for f in sorted(pending):
            newp = set(pending)
            newp.discard(f)
            if kinds[f[0]] == "g" and f[1] == 0 and not free_gen_order:
                newp.add((f[0], 1))
            rec(word + [("R",) + f], next_a, frozenset(newp))
    rec([], 0, frozenset())
    return res


def tick_patterns(word, all_limit):
    """Tick placements for the e-1 gaps of a word (the final tick is implicit)."""
    e = len(word)
    gaps = e - 1
    if gaps <= 0:
        return [()]
    if e <= all_limit:
        return list(itertools.product((0, 1), repeat=gaps))
    pats = set()
    pats.add(tuple(1 for _ in range(gaps)))                                    # all
    pats.add(tuple(0 for _ in range(gaps)))                                    # none
    pats.add(tuple(int(word[i][0] != word[i + 1][0]) for i in range(gaps)))    # burst
    pats.add(tuple(int(word[i][0] == "A") for i in range(gaps)))               # after A
    pats.add(tuple(int(word[i][0] == "R") for i in range(gaps)))               # after R
    return sorted(pats)


def sched_str(word, pat):
    out = []
    for i, ev in enumerate(word):
        out.append("A%d" % ev[1] if ev[0] == "A" else "R%d.%d" % (ev[1], ev[2]))
        if i < len(word) - 1 and pat[i]:
            out.append("T")
    out.append("T")
    return ",".join(out)


def parse_sched(s):
    evs = []
    for tok in s.split(","):
        if tok == "T":
            evs.append(("T",))
        elif tok == "S":        # exactly ONE iteration of the loop (part G, bounded/c10_gap.py)
            evs.append(("S",))
        elif tok[0] == "A":
            evs.append(("A", int(tok[1:])))
        else:
            i, k = tok[1:].split(".")
            evs.append(("R", int(i), int(k)))
    return evs


# =====================================================================================
# Part P: driver
# =====================================================================================

_TCLS = None
_CUR = contextvars.ContextVar("c10_assignment", default=None)


def _tcls():
    global _TCLS
    if _TCLS is None:
        import param

        class T(param.Parameterized):
            p = param.Parameter(default=("init",), allow_refs=True)
        _TCLS = T
    return _TCLS


def _finish(loop, asyncio):
    async def _cleanup():
        pending = [x for x in asyncio.all_tasks(loop) if x is not asyncio.current_task()]
        for x in pending:
            x.cancel()
        if pending:
            await asyncio.gather(*pending, return_exceptions=True)
        return len(pending)
    try:
        left = loop.run_until_complete(_cleanup())
        loop.run_until_complete(loop.shutdown_asyncgens())
    finally:
        loop.close()
    return left


def run_param_case(kinds, events):
    """events: list of ('A', i) / ('R', i, k) / ('T',).  Returns (final, obs, errs, left)."""
    import asyncio
    loop = asyncio.new_event_loop()
    errs = []
    loop.set_exception_handler(lambda l, ctx: errs.append(str(ctx.get("message"))))
    obs = []
    state = {"G": -1}
    out = {}

    async def main():
        futs = {}
        t = _tcls()()
        t.param.watch(lambda e: obs.append((state["G"], e.new)), "p", onlychanged=False)

        async def tick():
            for _ in range(TICK_ITERS):
                await asyncio.sleep(0)
                if not loop._ready:
                    break

        def call_index(users):
            # index of the assignment whose task runs this body (ContextVar copied by the task)
            i = _CUR.get()
            if i not in users:
                errs.append("harness: body of a function assigned by %r runs for assignment %r" % (users, i))
            return i

        def mk_c(users):
            async def co():
                i = call_index(users)
                return await futs[(i, 0)]
            return co

        def mk_g(users):
            async def gen():
                i = call_index(users)
                yield await futs[(i, 0)]
                yield await futs[(i, 1)]
            return gen

        last_fn = {}        # 'c' / 'g' -> (function object, indexes of the assignments using it)
        for ev in events:
            if ev[0] == "A":
                i = ev[1]
                k = kinds[i]
                state["G"] = i
                _CUR.set(i)
                if k == "v":
                    t.p = ("v", i)
                else:
                    futs[(i, 0)] = loop.create_future()
                    if k in "gG":
                        futs[(i, 1)] = loop.create_future()
                    if k in "cg":
                        users = [i]
                        last_fn[k] = ((mk_c if k == "c" else mk_g)(users), users)
                    else:
                        last_fn[k.lower()][1].append(i)      # the SAME function object again
                    t.p = last_fn[k.lower()][0]
            elif ev[0] == "R":
                f = futs[(ev[1], ev[2])]
                if not f.done():        # a cancelled task cancels the future it awaits
                    f.set_result(("r", ev[1], ev[2]))
            elif ev[0] == "S":
                await asyncio.sleep(0)      # exactly one iteration of the loop
            else:
                await tick()
        await tick()
        out["final"] = t.p

    try:
        loop.run_until_complete(main())
    finally:
        left = _finish(loop, asyncio)
    return out.get("final"), obs, errs, left


def expected_final(kinds):
    kinds = lower(kinds)
    L = len(kinds) - 1
    k = kinds[L]
    if k == "v":
        return ("v", L)
    return ("r", L, 0 if k == "c" else 1)


def check_param(kinds, events, final, obs):
    """-> list of (clause, classkey, detail)"""
    kinds = lower(kinds)        # the oracle does not care whether a function object is shared
    fails = []
    # which assignments had their task started (a tick between A_i and A_{i+1})
    started = {}
    cur = None
    for ev in events:
        if ev[0] == "A":
            cur = ev[1]
            started[cur] = False
        elif ev[0] in ("T", "S") and cur is not None:       # at least one loop iteration before the next assignment
            started[cur] = True
    stale_seen = False
    for (G, val) in obs:
        origin = val[1] if isinstance(val, tuple) and len(val) > 1 else None
        if origin is None or origin == G:
            continue
        if origin > G:      # cannot happen (value of a future assignment); treat as harness bug
            fails.append(("C10/harness", ("future-value",), "obs=%r" % (obs,)))
            continue
        stale_seen = True
        ki, kg = kinds[origin], kinds[G]
        clause = "C10/param/plain-not-overwritten" if kg == "v" else "C10/param/no-stale-apply"
        key = ("stale=%s" % ki, "by=%s" % kg, "started=%d" % int(started.get(origin, False)))
        fails.append((clause, key, "result %r of assignment %d applied while assignment %d (%s) "
                      "was the most recent; events seen by the watcher: %r" % (
                          val, origin, G, kg, obs)))
        break       # first stale application characterises the schedule
    want = expected_final(kinds)
    if final != want:
        L = len(kinds) - 1
        if isinstance(final, tuple) and len(final) > 1:
            got = "%s" % kinds[final[1]]
            rel = "older" if final[1] < L else "same"
        else:
            got, rel = "init", "none"
        applied = any(v == want for (_, v) in obs)
        key = ("last=%s" % kinds[L], "got=%s" % got, "from=%s" % rel,
               "latest_applied=%d" % int(applied))
        fails.append(("C10/param/final-latest-wins", key,
                      "final value %r, the most recent assignment demands %r; watcher saw %r" % (
                          final, want, obs)))
    return fails


def _size(kinds, sched):
    return (len(kinds), sched.count(","), "".join(kinds), sched)


def _param_task(args):
    kinds, free, all_limit, part, nparts = args
    restore = _quiet()
    try:
        ncase = 0
        nchk = {"C10/param/final-latest-wins": 0, "C10/param/no-stale-apply": 0,
                "C10/param/plain-not-overwritten": 0}
        classes = {}
        nerrs = 0
        nleft = 0
        samples = []
        idx = -1
        shared = any(k in "CG" for k in kinds)
        twin = lower(kinds)
        ws = words(kinds, free)
        if free:
            # only the words that are not already produced with ordered generator futures
            ordered = set(words(kinds, False))
            ws = [w for w in ws if w not in ordered]
        for w in ws:
            for pat in tick_patterns(w, all_limit):
                idx += 1
                if idx % nparts != part:
                    continue
                sched = sched_str(w, pat)
                events = parse_sched(sched)
                final, obs, errs, left = run_param_case(kinds, events)
                ncase += 1
                nerrs += len(errs)
                nleft += left
                nchk["C10/param/final-latest-wins"] += 1
                nasync = sum(1 for k in kinds if k != "v")
                fails = check_param(kinds, events, final, obs)
                if any(e.startswith("harness") for e in errs):
                    fails.append(("C10/harness", ("contextvar",), "; ".join(e for e in errs if e.startswith("harness"))))
                tfails = {}
                if fails and shared:
                    # does the same schedule fail in the same way with fresh function objects?
                    tfinal, tobs, _te, tleft = run_param_case(twin, events)
                    nleft += tleft
                    tfails = {(c, tuple(k)): d for (c, k, d) in check_param(twin, events, tfinal, tobs)}
                nchk["C10/param/no-stale-apply"] += len(obs) if nasync else 0
                nchk["C10/param/plain-not-overwritten"] += len(obs) if "v" in kinds else 0
                if len(samples) < 1:
                    samples.append({"kinds": "".join(kinds), "sched": sched, "final": repr(final),
                                    "watcher": repr(obs)})
                for (clause, key, detail) in fails:
                    ck = (clause,) + tuple(key)
                    size = _size(kinds, sched)
                    if shared and clause != "C10/harness":
                        if (clause, tuple(key)) in tfails:
                            # sharing is irrelevant: counted in the class of the twin, which stays
                            # the representative
                            size = _size(twin, sched)
                            detail = tfails[(clause, tuple(key))]
                        else:
                            ck = ck + ("samefn=1",)
                    ent = classes.get(ck)
                    if ent is None:
                        classes[ck] = [size, detail, 1]
                    else:
                        ent[2] += 1
                        if size < ent[0]:
                            ent[0], ent[1] = size, detail
        return {"kinds": kinds, "cases": ncase, "checks": nchk, "classes": classes,
                "errs": nerrs, "left": nleft, "samples": samples}
    finally:
        restore()


PARAM_REPLAY = '''
import asyncio, contextvars, warnings, logging
warnings.simplefilter('ignore')
import param
param.parameterized.get_logger().setLevel(logging.CRITICAL + 10)
CUR = contextvars.ContextVar('assignment', default=None)   # copied by the task an assignment creates

KINDS = KINDS_LIT      # c coroutine function, g async generator function (2 yields), v plain value,
                       # C / G: the SAME function object as the most recent earlier c / g assignment
SCHED = SCHED_LIT      # A<i> assignment i, R<i>.<k> complete future k of assignment i, T run loop until idle,
                       # S exactly ONE iteration of the loop (a single `await asyncio.sleep(0)`)
CLAUSE = CLAUSE_LIT

class Tp(param.Parameterized):
    p = param.Parameter(default=('init',), allow_refs=True)

def run():
    loop = asyncio.new_event_loop()
    obs = []; state = {'G': -1}; out = {}
    async def main():
        futs = {}
        t = Tp()
        t.param.watch(lambda e: obs.append((state['G'], e.new)), 'p', onlychanged=False)
        async def tick():
            for _ in range(40):
                await asyncio.sleep(0)
        def mk_c():
            async def co():
                i = CUR.get()           # the assignment this call belongs to
                return await futs[(i, 0)]
            return co
        def mk_g():
            async def gen():
                i = CUR.get()
                yield await futs[(i, 0)]
                yield await futs[(i, 1)]
            return gen
        fn = {}
        for tok in SCHED.split(','):
            if tok == 'T':
                await tick()
            elif tok == 'S':
                await asyncio.sleep(0)
            elif tok[0] == 'A':
                i = int(tok[1:]); k = KINDS[i]; state['G'] = i; CUR.set(i)
                if k == 'v':
                    t.p = ('v', i)
                else:
                    futs[(i, 0)] = loop.create_future(); futs[(i, 1)] = loop.create_future()
                    if k == 'c': fn['c'] = mk_c()
                    if k == 'g': fn['g'] = mk_g()
                    t.p = fn[k.lower()]         # C / G: the same function object again
            else:
                i, k = tok[1:].split('.')
                f = futs[(int(i), int(k))]
                if not f.done(): f.set_result(('r', int(i), int(k)))
        await tick()
        out['final'] = t.p
        pending = [x for x in asyncio.all_tasks(loop) if x is not asyncio.current_task()]
        for x in pending: x.cancel()
        if pending: await asyncio.gather(*pending, return_exceptions=True)
    try:
        loop.run_until_complete(main())
        loop.run_until_complete(loop.shutdown_asyncgens())
    finally:
        loop.close()
    return out['final'], obs

final, obs = run()
L = len(KINDS) - 1
want = ('v', L) if KINDS[L] == 'v' else ('r', L, 0 if KINDS[L] in 'cC' else 1)
print('assignments :', KINDS, ' schedule:', SCHED)
print('watcher saw (latest assignment index at that moment, value):', obs)
print('final value :', final, ' expected:', want)
bad = None
if CLAUSE.endswith('final-latest-wins'):
    if final != want:
        bad = 'all awaitables completed but p == %r instead of %r (most recent assignment)' % (final, want)
else:
    for G, val in obs:
        if len(val) > 1 and val[1] < G:
            if CLAUSE.endswith('plain-not-overwritten') and KINDS[G] == 'v':
                bad = 'plain value of assignment %d overwritten by pending result %r' % (G, val); break
            if CLAUSE.endswith('no-stale-apply') and KINDS[G] != 'v':
                bad = 'result %r of superseded assignment %d applied after assignment %d' % (val, val[1], G); break
if bad:
    print('REPRODUCED: ' + bad)
    sys.exit(1)
print('NOT-REPRODUCED')
sys.exit(0)
'''


def param_replay(kinds, sched, clause, witness):
    hdr = REPLAY_HEADER.format(prop=PROP, name="replay_c10_param.py", clause=clause, witness=witness)
    return hdr + (PARAM_REPLAY.replace("KINDS_LIT", repr("".join(kinds)))
                  .replace("SCHED_LIT", repr(sched)).replace("CLAUSE_LIT", repr(clause)))


# =====================================================================================
# Part R: reactive expressions through coroutines
# =====================================================================================
SHAPES = ("pipe-c", "pipe-g", "bind-c", "bind-g")


def run_rx_case(shape, n, read_after, tick_after, watch, tick_res, perm):
    """perm: None -> dry run returning the list of pending futures as (call, k);
    otherwise a tuple of indexes into that list.  Returns dict."""
    import asyncio
    from param import rx, bind
    from param.parameterized import Undefined
    loop = asyncio.new_event_loop()
    errs = []
    loop.set_exception_handler(lambda l, ctx: errs.append(str(ctx.get("message"))))
    seen = []
    out = {}

    async def main():
        calls = []      # (input value, [futures])

        async def slow(v):
            f = loop.create_future()
            calls.append((v, [f]))
            await f
            return ("res", v, 0)

        async def slowgen(v):
            f0 = loop.create_future()
            f1 = loop.create_future()
            calls.append((v, [f0, f1]))
            await f0
            yield ("res", v, 0)
            await f1
            yield ("res", v, 1)

        async def tick():
            for _ in range(TICK_ITERS):
                await asyncio.sleep(0)
                if not loop._ready:
                    break

        r = rx(0)
        fn = slow if shape.endswith("c") else slowgen
        e = r.rx.pipe(fn) if shape.startswith("pipe") else rx(bind(fn, r))
        if watch:
            e.rx.watch(seen.append)
        e.rx.value
        await tick()
        for j in range(1, n + 1):
            r.rx.value = j
            if read_after:
                e.rx.value
            if tick_after:
                await tick()
        await tick()
        pend = [(ci, k) for ci, (v, fs) in enumerate(calls) for k in range(len(fs))
                if not fs[k].done()]
        out["pending"] = [(calls[ci][0], k) for ci, k in pend]
        if perm is not None:
            for i in perm:
                ci, k = pend[i]
                f = calls[ci][1][k]
                if not f.done():
                    f.set_result(None)
                if tick_res:
                    await tick()
            # stabilise: the final reads may start new evaluations; complete those too
            for _ in range(8):
                await tick()
                e.rx.value
                await tick()
                new = [f for (v, fs) in calls for f in fs if not f.done()]
                if not new:
                    break
                for f in new:
                    f.set_result(None)
            await tick()
            out["final"] = e.rx.value
            out["unresolved"] = sum(1 for (v, fs) in calls for f in fs if not f.done())
        out["calls"] = [c[0] for c in calls]

    try:
        loop.run_until_complete(main())
    finally:
        out["left"] = _finish(loop, asyncio)
    out["seen"] = [s for s in seen if s is not Undefined]
    out["errs"] = errs
    return out


def gen_perms(pending):
    """Permutations of the pending futures keeping each call's own two futures in order.
    ``pending`` lists (input value, k) in call order; (v,0),(v,1) adjacent = one generator call."""
    idx = list(range(len(pending)))
    pairs = [(a, a + 1) for a in idx[:-1] if pending[a][1] == 0 and pending[a + 1][1] == 1]
    res = []
    for perm in itertools.permutations(idx):
        posn = {i: p for p, i in enumerate(perm)}
        if all(posn[a] < posn[b] for a, b in pairs):
            res.append(perm)
    return res


def check_rx(shape, n, res):
    fails = []
    final = res.get("final")
    lastk = 0 if shape.endswith("c") else 1
    want = ("res", n, lastk)
    if final != want:
        if isinstance(final, tuple):
            got = "older-input" if final[1] < n else "not-last-yield"
        else:
            got = "undefined"
        fails.append(("C10/rx/final-latest-wins", ("got=%s" % got,),
                      "final .rx.value %r, the latest root value %d demands %r; calls %r, "
                      "watch saw %r" % (final, n, want, res.get("calls"), res.get("seen"))))
    best = -1
    for s in res.get("seen", []):
        if not isinstance(s, tuple):
            continue
        if s[1] < best:
            fails.append(("C10/rx/no-stale-after-newer", ("delivered=older-after-newer",),
                          "watch callback received %r after a result for input %d; sequence %r" % (
                              s, best, res.get("seen"))))
            break
        best = max(best, s[1])
    return fails


def _rx_task(args):
    shape, n, max_perms = args
    restore = _quiet()
    try:
        ncase = 0
        nchk = {"C10/rx/final-latest-wins": 0, "C10/rx/no-stale-after-newer": 0}
        classes = {}
        nerrs = nleft = 0
        samples = []
        truncated = 0
        for watch in (0, 1):
            for read_after in (0, 1):
                for tick_after in (0, 1):
                    dry = run_rx_case(shape, n, read_after, tick_after, watch, 0, None)
                    pending = dry["pending"]
                    perms = gen_perms(pending)
                    if len(perms) > max_perms:
                        truncated += len(perms) - max_perms
                        step = len(perms) / float(max_perms)
                        perms = [perms[int(i * step)] for i in range(max_perms)]
                    for tick_res in (0, 1):
                        for perm in perms:
                            res = run_rx_case(shape, n, read_after, tick_after, watch, tick_res, perm)
                            ncase += 1
                            nerrs += len(res["errs"])
                            nleft += res["left"]
                            nchk["C10/rx/final-latest-wins"] += 1
                            nchk["C10/rx/no-stale-after-newer"] += len(res["seen"])
                            order = ",".join("%d.%d" % pending[i] for i in perm)
                            cfg = "shape=%s updates=%d watch=%d read=%d tick=%d tickres=%d order=%s" % (
                                shape, n, watch, read_after, tick_after, tick_res, order)
                            if len(samples) < 1:
                                samples.append({"rx": cfg, "final": repr(res.get("final")),
                                                "seen": repr(res["seen"])})
                            for (clause, key, detail) in check_rx(shape, n, res):
                                ck = (clause, "shape=%s" % shape) + tuple(key)
                                size = (n, len(perm), watch + read_after + tick_after + tick_res, cfg)
                                ent = classes.get(ck)
                                if ent is None:
                                    classes[ck] = [size, detail, 1,
                                                   (shape, n, read_after, tick_after, watch, tick_res,
                                                    perm)]
                                else:
                                    ent[2] += 1
                                    if size < ent[0]:
                                        ent[0], ent[1] = size, detail
                                        ent[3] = (shape, n, read_after, tick_after, watch, tick_res,
                                                  perm)
        return {"shape": shape, "n": n, "cases": ncase, "checks": nchk, "classes": classes,
                "errs": nerrs, "left": nleft, "samples": samples, "truncated": truncated}
    finally:
        restore()


RX_REPLAY = '''
import asyncio, warnings, logging
warnings.simplefilter('ignore')
import param
from param import rx, bind
from param.parameterized import Undefined
param.parameterized.get_logger().setLevel(logging.CRITICAL + 10)

SHAPE, N, READ_AFTER, TICK_AFTER, WATCH, TICK_RES, PERM = CFG_LIT
CLAUSE = CLAUSE_LIT

def run():
    loop = asyncio.new_event_loop()
    seen = []; out = {}
    async def main():
        calls = []
        async def slow(v):
            f = loop.create_future(); calls.append((v, [f]))
            await f
            return ('res', v, 0)
        async def slowgen(v):
            f0 = loop.create_future(); f1 = loop.create_future(); calls.append((v, [f0, f1]))
            await f0
            yield ('res', v, 0)
            await f1
            yield ('res', v, 1)
        async def tick():
            for _ in range(40): await asyncio.sleep(0)
        r = rx(0)
        fn = slow if SHAPE.endswith('c') else slowgen
        e = r.rx.pipe(fn) if SHAPE.startswith('pipe') else rx(bind(fn, r))
        if WATCH: e.rx.watch(seen.append)
        e.rx.value
        await tick()
        for j in range(1, N + 1):
            r.rx.value = j
            if READ_AFTER: e.rx.value
            if TICK_AFTER: await tick()
        await tick()
        pend = [(ci, k) for ci, (v, fs) in enumerate(calls) for k in range(len(fs)) if not fs[k].done()]
        print('pending evaluations (input value, future):', [(calls[ci][0], k) for ci, k in pend])
        for i in PERM:
            ci, k = pend[i]
            print('  complete future %d of the evaluation for input %d' % (k, calls[ci][0]))
            f = calls[ci][1][k]
            if not f.done(): f.set_result(None)
            if TICK_RES: await tick()
        for _ in range(8):
            await tick(); e.rx.value; await tick()
            new = [f for (v, fs) in calls for f in fs if not f.done()]
            if not new: break
            for f in new: f.set_result(None)
        await tick()
        out['final'] = e.rx.value
        pending = [x for x in asyncio.all_tasks(loop) if x is not asyncio.current_task()]
        for x in pending: x.cancel()
        if pending: await asyncio.gather(*pending, return_exceptions=True)
    try:
        loop.run_until_complete(main())
        loop.run_until_complete(loop.shutdown_asyncgens())
    finally:
        loop.close()
    return out['final'], [s for s in seen if s is not Undefined]

final, seen = run()
want = ('res', N, 0 if SHAPE.endswith('c') else 1)
print('final .rx.value:', final, ' expected:', want)
print('watch callback values:', seen)
bad = None
if CLAUSE.endswith('final-latest-wins'):
    if final != want:
        bad = 'everything completed but the expression holds %r instead of %r' % (final, want)
else:
    best = -1
    for s in seen:
        if s[1] < best:
            bad = 'result %r delivered after a result for the newer input %d' % (s, best); break
        best = max(best, s[1])
if bad:
    print('REPRODUCED: ' + bad)
    sys.exit(1)
print('NOT-REPRODUCED')
sys.exit(0)
'''


def rx_replay(cfg, clause, witness):
    hdr = REPLAY_HEADER.format(prop=PROP, name="replay_c10_rx.py", clause=clause, witness=witness)
    return hdr + RX_REPLAY.replace("CFG_LIT", repr(tuple(cfg))).replace("CLAUSE_LIT", repr(clause))


# =====================================================================================
# run
# =====================================================================================

def run(tier, seed):
    import multiprocessing as mp
    from concurrent.futures import ProcessPoolExecutor
    thorough = tier == "thorough"
    nmax = 4 if thorough else 3
    rx_n = 3 if thorough else 2
    B = Bounded(
        PROP,
        rule=("P: (assignment kinds in {c,g,v}^n, and in {c,g,v,C,G}^n where C / G assign the SAME "
              "coroutine / async-generator function object as the most recent earlier c / g "
              "assignment) x (every interleaving of the assignments with the "
              "completions of their hand-made futures) x (tick placement: which gaps between "
              "events let the loop run until idle); distinct = (kinds, schedule).  "
              "R: shape in {r.rx.pipe(coro), r.rx.pipe(asyncgen), rx(bind(coro,r)), "
              "rx(bind(asyncgen,r))} x n root updates x {read after update} x {tick after update} "
              "x {.rx.watch} x {tick between completions} x every completion order of the pending "
              "futures; distinct = configuration + order.  " + c10_multi.RULE + ".  " + c10_gap.RULE
              + ".  " + c10_map.RULE),
        bound=("P: n<=%d assignments; all 2^(e-1) tick placements for words of e<=%s events, five "
               "tick modes (all/none/burst/after-A/after-R) above; generator futures out of order: "
               "%s; sequences with a shared function object: all of length <=%d%s, all tick "
               "placements for e<=%s.  R: n<=%d updates, <=%d orders per configuration"
               % (nmax, "9 (n<=3) / 6 (n=4)" if thorough else "7",
                  "n<=3, five tick modes" if thorough else "n<=2, five tick modes",
                  3, " and those of length 4 with at most one generator assignment" if thorough else "",
                  "8 (n<=3) / 6 (n=4)" if thorough else "6",
                  rx_n, 2520 if thorough else 90) + ".  " + c10_multi.bound_text(tier)
               + ".  " + c10_gap.bound_text(tier) + ".  " + c10_map.bound_text(tier)))

    tasks = []
    for n in range(1, nmax + 1):
        for kinds in itertools.product("cgv", repeat=n):
            if n <= 3:
                all_limit = 9 if thorough else 7
            else:
                all_limit = 6
            nw = len(words(kinds))
            nparts = 1 if nw < 400 else min(16, nw // 300 + 1)
            if thorough and n == 3 and nw >= 100:
                nparts = max(nparts, 8)
            for part in range(nparts):
                tasks.append(("P", (kinds, False, all_limit, part, nparts)))
    for n in range(1, (3 if thorough else 2) + 1):
        for kinds in itertools.product("cgv", repeat=n):
            if "g" in kinds:
                tasks.append(("P", (kinds, True, 0, 0, 1)))
    # the SAME function object assigned two or more times (C / G), followed by anything
    for n in range(2, nmax + 1):
        for kinds in shared_sequences(n):
            ngen = sum(1 for k in kinds if k in "gG")
            if n == 4 and ngen > 1:
                continue                    # bound: n = 4 only with at most one generator assignment
            all_limit = (8 if thorough else 6) if n <= 3 else 6
            nw = len(words(kinds))
            nparts = 1 if nw < 100 else min(16, nw // 60 + 1)
            for part in range(nparts):
                tasks.append(("P", (kinds, False, all_limit, part, nparts)))
            if "G" in kinds and n <= (3 if thorough else 2):
                tasks.append(("P", (kinds, True, 0, 0, 1)))
    for shape in SHAPES:
        for n in range(1, rx_n + 1):
            tasks.append(("R", (shape, n, 2520 if thorough else 90)))
    # part M: two parameters of one object / plain value assigned by a handler (bounded/c10_multi.py)
    for a in c10_multi.tasks(tier, seed):
        tasks.append(("M", a))
    # part G: exact gaps (0 / 1 / 2 loop iterations) between consecutive assignments (bounded/c10_gap.py)
    for a in c10_gap.tasks(tier, seed):
        tasks.append(("G", a))
    # part RM: .rx.map(<coroutine function>) under permuted completion orders (bounded/c10_map.py)
    for a in c10_map.tasks(tier, seed):
        tasks.append(("RM", a))

    ctx = mp.get_context("fork")
    with ProcessPoolExecutor(max_workers=NPROC, mp_context=ctx) as ex:
        fns = {"P": _param_task, "R": _rx_task, "M": c10_multi.task, "G": c10_gap.task, "RM": c10_map.task}
        futs = [ex.submit(fns[kind], a) for kind, a in tasks]
        results = [f.result() for f in futs]

    pclasses = {}
    rclasses = {}
    mclasses = {}
    rmclasses = {}
    errs = left = trunc = 0
    exhaustive = thorough      # quick samples the schedules of the longer sequences of part M
    for (kind, a), r in zip(tasks, results):
        B.evaluations += r["cases"]
        tag = repr(a)
        B._distinct.update((tag, i) for i in range(r["cases"]))
        for cl, nck in r["checks"].items():
            B.checked(cl, nck)
        errs += r["errs"]
        left += r["left"]
        for smp in r["samples"]:
            B.sample(smp, limit=8)
        if kind in ("R", "RM") and r["truncated"]:
            trunc += r["truncated"]
            exhaustive = False
        tgt = {"P": pclasses, "R": rclasses, "M": mclasses, "G": pclasses, "RM": rmclasses}[kind]
        for ck, ent in r["classes"].items():
            cur = tgt.get(ck)
            if cur is None:
                tgt[ck] = list(ent)
            else:
                cur[2] += ent[2]
                if ent[0] < cur[0]:
                    cur[0], cur[1] = ent[0], ent[1]
                    if len(ent) > 3:
                        cur[3] = ent[3]
    B.exhaustive = exhaustive
    for ck in sorted(pclasses):
        size, detail, cnt = pclasses[ck][:3]
        clause = ck[0]
        kinds, sched = size[2], size[3]
        witness = "%s kinds=%s sched=%s" % (" ".join(ck[1:]), kinds, sched)
        B.violation(clause, witness, detail="%s; %d failing schedules in this class" % (detail, cnt),
                    replay=param_replay(kinds, sched, clause, witness))
        B._seen[(clause, witness)]["count"] = cnt
    for ck in sorted(rclasses):
        size, detail, cnt, cfg = rclasses[ck]
        clause = ck[0]
        witness = "%s %s" % (" ".join(ck[2:]), size[3])
        B.violation(clause, witness, detail="%s; %d failing schedules in this class" % (detail, cnt),
                    replay=rx_replay(cfg, clause, witness))
        B._seen[(clause, witness)]["count"] = cnt
    for ck in sorted(mclasses):
        size, detail, cnt, (assigns, how) = mclasses[ck]
        clause = ck[0]
        witness = "%s seq=%s sched=%s" % (" ".join(ck[1:]), size[2], size[3])
        B.violation(clause, witness, detail="%s; %d failing schedules in this class" % (detail, cnt),
                    replay=c10_multi.replay(assigns, how, size[3], clause, witness))
        B._seen[(clause, witness)]["count"] = cnt
    for ck in sorted(rmclasses):
        size, detail, cnt, cfg = rmclasses[ck]
        clause = ck[0]
        witness = "%s %s" % (" ".join(ck[1:]), size[-1])
        B.violation(clause, witness, detail="%s; %d failing schedules in this class" % (detail, cnt),
                    replay=c10_map.replay(cfg, clause, " ".join(ck[1:]), witness))
        B._seen[(clause, witness)]["count"] = cnt
    for v in B.violations:      # the replays run against the tree under check (default /repo)
        if v.get("replay"):
            v["replay"] = v["replay"].replace(
                "sys.path.insert(0, '/repo')\n",
                "sys.path.insert(0, __import__('os').environ.get('PYVC_REPO', '/repo'))   # the tree under check\n")
    B.note("event loops: one fresh loop per case, closed after cancelling leftover tasks and "
           "shutdown_asyncgens; messages handed to the loop exception handler: %d; tasks still "
           "pending at the end of a case (cancelled by the driver): %d" % (errs, left))
    if trunc:
        B.note("R / RM: %d completion orders skipped by the per-configuration cap (evenly spaced "
               "subset kept)" % trunc)
    B.note("not reached: re-evaluation of a parameter reference through its own dependencies "
           "(bind(coro, other.param.x) assigned to a parameter) is only exercised through the "
           "rx(bind(...)) shapes; synchronous generators (run in a thread) are not driven.")
    return B.result()
