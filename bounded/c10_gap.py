"""Helper of the bounded stand-in layer for C10: part G (EXACT gaps between consecutive assignments).

Part P separates two events either by nothing or by ``T`` (the loop runs until it is idle).  What lies in
between -- the next assignment arriving exactly ONE or TWO iterations of the event loop after an asynchronous
reference was assigned, i.e. after a single / a double ``await asyncio.sleep(0)`` -- is the dimension of this
part: whatever the library does in the first iterations after an assignment (create the task, start it,
register it, reach the first suspension point), the statement demands the same outcome.

Same driver, same oracle and same clauses as part P (``bounded/c10.py``: run_param_case / check_param; values
carry the index of the assignment they belong to); the schedule language gains the token ``S`` = exactly one
iteration of the loop.

A case = kinds in {c, g, v}^n  x  gap vector in {0,1,2}^(n-1) (iterations between A_i and A_{i+1})
         x  early completion per gap in {-, b, a} (the first future of assignment i is completed before the gap --
            its task wakes up inside the gap -- / after the gap, right before A_{i+1} / not at all)
         x  tail gap in {0,1,2,T} (iterations between the last assignment and the first remaining completion)
         x  every order of the remaining completions (a generator's two futures in order)
         x  {T after every completion, only the final T}.

Classes.  A failing schedule whose TWIN -- the same schedule with every run of ``S`` replaced by ``T`` (the exact
number of iterations made irrelevant) -- violates the same clause is counted in the twin's class of part P (and is
never the representative of a class in which part P has a schedule of its own): the history fails whatever the
exact gap is, the defect is the one part P reports (C10-b01..b08 on the unchanged tree; the exact gap may merely
change WHICH superseded result wins).  Otherwise
the failure needs the exact gap and forms a class of its own, marked ``exactgap=<iterations between the
superseded assignment (final-latest-wins: the assignment whose value is held at the end) and the next one>``.
"""
import itertools
import zlib

ASYNC = "cg"
C_FINAL = "C10/param/final-latest-wins"
C_STALE = "C10/param/no-stale-apply"
C_PLAIN = "C10/param/plain-not-overwritten"


def _tok(ev):
    return "A%d" % ev[1] if ev[0] == "A" else "R%d.%d" % (ev[1], ev[2])


def _orders(pending):
    """every order of the pending futures [(i, k)] keeping (i, 0) before (i, 1)"""
    res = []
    for perm in itertools.permutations(pending):
        pos = {f: n for n, f in enumerate(perm)}
        if all(pos[(i, 0)] < pos[(i, 1)] for (i, k) in pending if k == 1 and (i, 0) in pos):
            res.append(perm)
    return res


def schedules(kinds, early_opts, tails, order_cap=None, pick=0):
    """-> list of (schedule string, gap vector, early vector, tail)"""
    n = len(kinds)
    out = []
    for gaps in itertools.product((0, 1, 2), repeat=n - 1):
        early_choices = []
        for i in range(n - 1):
            if kinds[i] in ASYNC:
                ch = [e for e in early_opts if not (e == "a" and gaps[i] == 0)]      # gap 0: b and a coincide
            else:
                ch = ["-"]
            early_choices.append(ch)
        for early in itertools.product(*early_choices):
            head = []
            pending = []
            for i in range(n):
                head.append("A%d" % i)
                if kinds[i] in ASYNC:
                    pending.append((i, 0))
                    if kinds[i] == "g":
                        pending.append((i, 1))
                if i < n - 1:
                    if early[i] == "b":
                        head.append("R%d.0" % i)
                        pending.remove((i, 0))
                    head.extend(["S"] * gaps[i])
                    if early[i] == "a":
                        head.append("R%d.0" % i)
                        pending.remove((i, 0))
            orders = _orders(pending)
            if order_cap is not None and len(orders) > order_cap:
                step = len(orders) / float(order_cap)
                off = pick % max(1, int(step))
                orders = [orders[min(len(orders) - 1, int(j * step) + off)] for j in range(order_cap)]
            for tail in tails:
                tl = ["T"] if tail == "T" else ["S"] * tail
                for order in orders:
                    modes = (1, 0) if len(order) > 1 else (1,)
                    for tick_each in modes:
                        toks = head + tl
                        for j, f in enumerate(order):
                            toks.append("R%d.%d" % f)
                            if tick_each and j < len(order) - 1:
                                toks.append("T")
                        if toks[-1] == "T":         # (no completion left, tail T)
                            toks.pop()
                        toks.append("T")            # the final tick, as in part P
                        out.append((",".join(toks), gaps, early, tail))
    return out


def twin_sched(sched):
    """every run of S replaced by one T"""
    out = []
    for tok in sched.split(","):
        if tok == "S":
            if not out or out[-1] != "T":
                out.append("T")
        elif tok == "T" and out and out[-1] == "T":
            continue
        else:
            out.append(tok)
    return ",".join(out)


def gap_after(sched, i):
    """number of S between A_i and the next assignment (None: there is none / a T in between)"""
    toks = sched.split(",")
    try:
        a = toks.index("A%d" % i)
    except ValueError:
        return None
    cnt = 0
    for tok in toks[a + 1:]:
        if tok == "S":
            cnt += 1
        elif tok == "T":
            return None
        elif tok[0] == "A":
            return cnt
    return None


def task(args):
    kinds, early_opts, tails, order_cap, part, nparts, pick = args
    from bounded.c10 import _quiet, run_param_case, check_param, parse_sched, _size
    restore = _quiet()
    try:
        ncase = 0
        nchk = {C_FINAL: 0, C_STALE: 0, C_PLAIN: 0}
        classes = {}
        nerrs = nleft = 0
        samples = []
        nasync = sum(1 for k in kinds if k != "v")
        for idx, (sched, gaps, early, tail) in enumerate(schedules(kinds, early_opts, tails, order_cap, pick)):
            if idx % nparts != part:
                continue
            events = parse_sched(sched)
            final, obs, errs, left = run_param_case(kinds, events)
            ncase += 1
            nerrs += len(errs)
            nleft += left
            nchk[C_FINAL] += 1
            nchk[C_STALE] += len(obs) if nasync else 0
            nchk[C_PLAIN] += len(obs) if "v" in kinds else 0
            if not samples:
                samples.append({"gap": "".join(kinds), "sched": sched, "final": repr(final), "watcher": repr(obs)})
            fails = check_param(kinds, events, final, obs)
            if any(e.startswith("harness") for e in errs):
                fails.append(("C10/harness", ("contextvar",), "; ".join(e for e in errs if e.startswith("harness"))))
            if not fails:
                continue
            # the twin: the same schedule with every run of S replaced by T (a schedule of part P's language)
            tsched = twin_sched(sched)
            if "S" in sched:
                tfinal, tobs, _te, tleft = run_param_case(kinds, parse_sched(tsched))
                nleft += tleft
                tfails = check_param(kinds, parse_sched(tsched), tfinal, tobs)
            else:
                tfails = fails
            entries = []
            for (clause, key, detail) in fails:
                key = tuple(key)
                if clause == "C10/harness":
                    entries.append(((clause,) + key, _size(kinds, sched), detail))
                    continue
                same = [(c, tuple(k), d) for (c, k, d) in tfails if c == clause]
                if same:
                    # the history violates this clause whatever the exact gap is: part P's business.  Counted in the
                    # twin's class, and never its representative while part P has a schedule of its own in the class
                    for (c, k, d) in same:
                        sz = _size(kinds, tsched)
                        entries.append(((c,) + k, (100 + sz[0],) + sz[1:], d))
                    continue
                if clause == C_FINAL:
                    # iterations between the assignment whose value is held at the end and the next one
                    g = gap_after(sched, final[1]) if isinstance(final, tuple) and len(final) > 1 else None
                    mark = "exactgap=%s" % ("T" if g is None else g)
                else:
                    mark = "exactgap=%s" % _stale_gap(sched, obs)
                entries.append(((clause,) + key + (mark,), _size(kinds, sched), detail))
            for ck, size, detail in entries:
                ent = classes.get(ck)
                if ent is None:
                    classes[ck] = [size, detail, 1]
                else:
                    ent[2] += 1
                    if size < ent[0]:
                        ent[0], ent[1] = size, detail
        return {"kinds": kinds, "cases": ncase, "checks": nchk, "classes": classes, "errs": nerrs, "left": nleft,
                "samples": samples, "truncated": 0}
    finally:
        restore()


def _stale_gap(sched, obs):
    """iterations between the superseded assignment whose result was applied first and the next assignment"""
    for (G, val) in obs:
        if isinstance(val, tuple) and len(val) > 1 and val[1] != G and val[1] < G:
            g = gap_after(sched, val[1])
            return "T" if g is None else str(g)
    return "?"


def tasks(tier, seed):
    out = []
    thorough = tier == "thorough"
    for kinds in itertools.product("cgv", repeat=2):
        out.append((kinds, ("-", "b", "a"), (0, 1, 2, "T"), None, 0, 1, 0))
    for kinds in itertools.product("cgv", repeat=3):
        pick = zlib.crc32(("%d|%s" % (seed, "".join(kinds))).encode())
        if thorough:
            nparts = 4 if kinds.count("g") >= 2 else 1
            for part in range(nparts):
                out.append((kinds, ("-", "b", "a"), (0, 1, 2, "T"), None, part, nparts, 0))
        else:
            out.append((kinds, ("-",), ("T",), 6, 0, 1, pick))
    if thorough:
        for kinds in itertools.product("cgv", repeat=4):
            pick = zlib.crc32(("%d|%s" % (seed, "".join(kinds))).encode())
            out.append((kinds, ("-",), ("T",), 6, 0, 1, pick))
    return out


RULE = ("G: assignment kinds in {c,g,v}^n x gap vector in {0,1,2}^(n-1) = EXACT number of loop iterations (single "
        "`await asyncio.sleep(0)`) between consecutive assignments x early completion of the first future of an "
        "assignment before / after its gap / not at all x tail gap in {0,1,2,idle} before the remaining completions x "
        "every order of the remaining completions x {tick after each completion, only at the end}; oracle and clauses "
        "of part P; a failing schedule whose twin (runs of single iterations replaced by run-until-idle) fails in the same "
        "way is counted in the twin's class, otherwise it forms a class marked exactgap=; distinct = (kinds, schedule)")


def bound_text(tier):
    if tier == "thorough":
        return ("G: n<=3 complete (all gap vectors, early completions, tail gaps, completion orders); n=4: all gap "
                "vectors, no early completion, tail idle, <=6 evenly spaced completion orders per gap vector")
    return ("G: n=2 complete (all gap vectors, early completions, tail gaps, completion orders); n=3: all 9 gap vectors, "
            "no early completion, tail idle, <=6 evenly spaced (seeded offset) completion orders per gap vector")
