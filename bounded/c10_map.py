"""Helper of the bounded stand-in layer for C10: part RM (``.rx.map(<coroutine function>)``).

A reactive expression that maps a coroutine function over a collection pipes through ONE awaitable per item.
The statement quantifies over every order in which the pending awaitables complete: once all have completed
the expression holds the result belonging to the most recent assignment -- for a map that is the list of the
per-item results IN THE ORDER OF THE ITEMS of the most recently assigned collection, whatever order the items'
awaitables finished in.

A case = sizes (m_0, .., m_n): the root starts as a list of m_0 distinct items and is assigned n further lists
         (items are labelled (assignment, position), so every result carries the assignment it belongs to)
         x {read ``.rx.value`` after each assignment} x {let the loop run after each assignment} x {``.rx.watch``}
         x every completion order of the per-item futures pending after the last assignment (all items of all
           evaluations still running, superseded ones included) x {tick between completions}.
Evaluations that only start at the final reads are completed too (their futures in REVERSE item order, a tick
after each).

Oracle (reference model: a plain Python map over the most recently assigned list, in item order):
  C10/rxmap/final-latest-wins      after everything completed ``.rx.value`` == [result(item) for item in latest list]
                                   (got=permuted: the right items in another order; got=older-input: items of a
                                   superseded assignment; got=undefined: nothing delivered)
  C10/rxmap/watch-delivery         the watch callback never receives a list belonging to an older assignment after
                                   one belonging to a newer assignment, and every list it receives is the in-order
                                   map of the assignment it belongs to (delivered=permuted otherwise)
"""
import itertools

from bounded._api import REPLAY_HEADER

TICK_ITERS = 40
C_FINAL = "C10/rxmap/final-latest-wins"
C_WATCH = "C10/rxmap/watch-delivery"


def collection(j, m):
    return [(j, pos) for pos in range(m)]


def reference(coll):
    """the reference model of the mapped coroutine function, item by item, in item order"""
    return [("res", item) for item in coll]


def run_case(sizes, read_after, tick_after, watch, tick_res, perm):
    """perm None: dry run that returns the pending futures (as items, in creation order)."""
    import asyncio
    from param import rx
    from param.parameterized import Undefined
    from bounded.c10 import _finish
    loop = asyncio.new_event_loop()
    errs = []
    loop.set_exception_handler(lambda l, ctx: errs.append(str(ctx.get("message"))))
    seen = []
    out = {}

    async def main():
        calls = []      # (item, future) in creation order

        async def slow(item):
            f = loop.create_future()
            calls.append((item, f))
            await f
            return ("res", item)

        async def tick():
            for _ in range(TICK_ITERS):
                await asyncio.sleep(0)
                if not loop._ready:
                    break

        src = rx(collection(0, sizes[0]))
        e = src.rx.map(slow)
        if watch:
            e.rx.watch(lambda v: seen.append(v))
        e.rx.value
        await tick()
        for j in range(1, len(sizes)):
            src.rx.value = collection(j, sizes[j])
            if read_after:
                e.rx.value
            if tick_after:
                await tick()
        await tick()
        pend = [ci for ci, (item, f) in enumerate(calls) if not f.done()]
        out["pending"] = [calls[ci][0] for ci in pend]
        if perm is not None:
            for i in perm:
                f = calls[pend[i]][1]
                if not f.done():
                    f.set_result(None)
                if tick_res:
                    await tick()
            for _ in range(8):      # stabilise: the final reads may start new evaluations; complete those too
                await tick()
                e.rx.value
                await tick()
                new = [f for (item, f) in calls if not f.done()]
                if not new:
                    break
                for f in reversed(new):
                    f.set_result(None)
                    await tick()
            await tick()
            out["final"] = e.rx.value
        out["calls"] = [c[0] for c in calls]

    try:
        loop.run_until_complete(main())
    finally:
        out["left"] = _finish(loop, asyncio)
    out["seen"] = [s for s in seen if s is not Undefined]
    out["errs"] = errs
    return out


def _belongs(val):
    """assignment a delivered list belongs to (None: not a list of results of one assignment)"""
    if not isinstance(val, list) or not val:
        return None
    js = set()
    for r in val:
        if not (isinstance(r, tuple) and len(r) == 2 and r[0] == "res" and isinstance(r[1], tuple)):
            return None
        js.add(r[1][0])
    return js.pop() if len(js) == 1 else None


def check(sizes, res):
    fails = []
    n = len(sizes) - 1
    want = reference(collection(n, sizes[n]))
    final = res.get("final")
    if final != want:
        j = _belongs(final)
        if j is None:
            got = "undefined" if not isinstance(final, list) else "mixed"
        elif j < n:
            got = "older-input"
        elif sorted(final) == sorted(want):
            got = "permuted"
        else:
            got = "wrong-items"
        fails.append((C_FINAL, ("got=%s" % got,),
                      "final .rx.value %r, the latest list demands %r (in item order); calls %r, watch saw %r" % (
                          final, want, res.get("calls"), res.get("seen"))))
    best = -1
    for s in res.get("seen", []):
        j = _belongs(s)
        if j is None:
            fails.append((C_WATCH, ("delivered=mixed",), "watch callback received %r" % (s,)))
            break
        if s != reference(collection(j, sizes[j])):
            fails.append((C_WATCH, ("delivered=permuted",),
                          "watch callback received %r for assignment %d, in item order it is %r" % (
                              s, j, reference(collection(j, sizes[j])))))
            break
        if j < best:
            fails.append((C_WATCH, ("delivered=older-after-newer",),
                          "watch callback received the list of assignment %d after one of assignment %d; sequence %r" % (
                              j, best, res.get("seen"))))
            break
        best = max(best, j)
    return fails


def task(args):
    sizes, max_perms = args
    from bounded.c10 import _quiet
    restore = _quiet()
    try:
        ncase = 0
        nchk = {C_FINAL: 0, C_WATCH: 0}
        classes = {}
        nerrs = nleft = 0
        samples = []
        truncated = 0
        n = len(sizes) - 1
        for watch in (0, 1):
            for read_after in ((0, 1) if n else (0,)):
                for tick_after in ((0, 1) if n else (0,)):
                    dry = run_case(sizes, read_after, tick_after, watch, 0, None)
                    pending = dry["pending"]
                    perms = list(itertools.permutations(range(len(pending))))
                    if len(perms) > max_perms:
                        truncated += len(perms) - max_perms
                        step = len(perms) / float(max_perms)
                        perms = [perms[int(i * step)] for i in range(max_perms)]
                    for tick_res in (0, 1):
                        for perm in perms:
                            res = run_case(sizes, read_after, tick_after, watch, tick_res, perm)
                            ncase += 1
                            nerrs += len(res["errs"])
                            nleft += res["left"]
                            nchk[C_FINAL] += 1
                            nchk[C_WATCH] += len(res["seen"])
                            order = ",".join("%d.%d" % pending[i] for i in perm)
                            cfg = "sizes=%s watch=%d read=%d tick=%d tickres=%d order=%s" % (
                                ".".join(str(m) for m in sizes), watch, read_after, tick_after, tick_res, order)
                            if not samples:
                                samples.append({"rxmap": cfg, "final": repr(res.get("final")), "seen": repr(res["seen"])})
                            for (clause, key, detail) in check(sizes, res):
                                ck = (clause,) + tuple(key)
                                size = (sum(sizes), len(sizes), len(perm), watch + read_after + tick_after + tick_res, cfg)
                                ent = classes.get(ck)
                                if ent is None:
                                    classes[ck] = [size, detail, 1, (sizes, read_after, tick_after, watch, tick_res, perm)]
                                else:
                                    ent[2] += 1
                                    if size < ent[0]:
                                        ent[0], ent[1] = size, detail
                                        ent[3] = (sizes, read_after, tick_after, watch, tick_res, perm)
        return {"cases": ncase, "checks": nchk, "classes": classes, "errs": nerrs, "left": nleft, "samples": samples,
                "truncated": truncated}
    finally:
        restore()


def tasks(tier, seed):
    if tier == "thorough":
        size_sets = ([(m,) for m in (1, 2, 3, 4)] + list(itertools.product((1, 2, 3), repeat=2))
                     + list(itertools.product((1, 2), repeat=3)) + [(3, 3, 2), (2, 3, 3)])
        cap = 720
    else:
        size_sets = [(2,), (3,), (2, 2), (3, 2), (1, 3)]
        cap = 24
    return [(s, cap) for s in size_sets]


RULE = ("RM: src.rx.map(<coroutine function>) -- sizes of the initial list and of the n lists assigned to the root "
        "afterwards x {read after assignment} x {tick after assignment} x {.rx.watch} x {tick between completions} x "
        "every completion order of the per-item futures pending after the last assignment; reference model = plain map "
        "over the latest list in item order; distinct = configuration + order")


def bound_text(tier):
    if tier == "thorough":
        return ("RM: one list of <=4 items; two lists of <=3 items each; three lists of <=2 items each, (3,3,2), (2,3,3); "
                "<=720 evenly spaced completion orders per configuration")
    return "RM: lists (2), (3), (2,2), (3,2), (1,3); <=24 evenly spaced completion orders per configuration"


REPLAY = '''
import asyncio, warnings, logging
warnings.simplefilter('ignore')
import param
from param import rx
from param.parameterized import Undefined
param.parameterized.get_logger().setLevel(logging.CRITICAL + 10)

SIZES, READ_AFTER, TICK_AFTER, WATCH, TICK_RES, PERM = CFG_LIT
CLAUSE = CLAUSE_LIT
KEY = KEY_LIT

def collection(j, m):            # the j-th list assigned to the root: m distinct items labelled (j, position)
    return [(j, pos) for pos in range(m)]

def reference(coll):             # plain map in item order
    return [('res', item) for item in coll]

def run():
    loop = asyncio.new_event_loop()
    seen = []; out = {}
    async def main():
        calls = []
        async def slow(item):
            f = loop.create_future(); calls.append((item, f))
            await f
            return ('res', item)
        async def tick():
            for _ in range(40): await asyncio.sleep(0)
        src = rx(collection(0, SIZES[0]))
        e = src.rx.map(slow)
        if WATCH: e.rx.watch(lambda v: seen.append(v))
        e.rx.value
        await tick()
        for j in range(1, len(SIZES)):
            src.rx.value = collection(j, SIZES[j])
            if READ_AFTER: e.rx.value
            if TICK_AFTER: await tick()
        await tick()
        pend = [ci for ci, (item, f) in enumerate(calls) if not f.done()]
        print('pending per-item awaitables (assignment, position):', [calls[ci][0] for ci in pend])
        for i in PERM:
            print('  complete the awaitable of item', calls[pend[i]][0])
            f = calls[pend[i]][1]
            if not f.done(): f.set_result(None)
            if TICK_RES: await tick()
        for _ in range(8):
            await tick(); e.rx.value; await tick()
            new = [f for (item, f) in calls if not f.done()]
            if not new: break
            for f in reversed(new):
                f.set_result(None); await tick()
        await tick()
        out['final'] = e.rx.value
        pending = [x for x in asyncio.all_tasks(loop) if x is not asyncio.current_task()]
        for x in pending: x.cancel()
        if pending: await asyncio.gather(*pending, return_exceptions=True)
    try:
        loop.run_until_complete(main())
        loop.run_until_complete(loop.shutdown_asyncgens())
    finally:
        loop.close()
    return out['final'], [s for s in seen if s is not Undefined]

final, seen = run()
n = len(SIZES) - 1
want = reference(collection(n, SIZES[n]))
print('final .rx.value:', final)
print('expected       :', want, '(map over the latest list, in item order)')
print('watch callback values:', seen)
bad = None
if CLAUSE.endswith('final-latest-wins'):
    if final != want:
        bad = 'everything completed but the expression holds %r instead of %r' % (final, want)
else:
    best = -1
    for s in seen:
        js = set(r[1][0] for r in s) if isinstance(s, list) else set()
        if len(js) != 1:
            bad = 'watch callback received %r' % (s,); break
        j = js.pop()
        if s != reference(collection(j, SIZES[j])):
            if 'permuted' in KEY:
                bad = 'watch callback received %r, not in item order' % (s,)
                break
            continue
        if j < best and 'older-after-newer' in KEY:
            bad = 'list of assignment %d delivered after one of assignment %d' % (j, best); break
        best = max(best, j)
if bad:
    print('REPRODUCED: ' + bad)
    sys.exit(1)
print('NOT-REPRODUCED')
sys.exit(0)
'''


def replay(cfg, clause, key, witness):
    hdr = REPLAY_HEADER.format(prop="C10", name="replay_c10_rxmap.py", clause=clause, witness=witness)
    return hdr + (REPLAY.replace("CFG_LIT", repr(tuple(cfg))).replace("CLAUSE_LIT", repr(clause))
                  .replace("KEY_LIT", repr(key)))
