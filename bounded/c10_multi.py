"""Helper of the bounded stand-in layer for C10: part M (several parameters / assignments made by handlers).

Same deterministic driver as part P (real asyncio loop, hand-made futures, chosen completion order),
generalised in two directions:

  * TWO allow_refs parameters x, y of ONE object are driven by asynchronous references at the same
    time (x by an async generator suspended between its yields, y by a coroutine that is still
    pending / by another generator) and a plain value is assigned to x at that moment;
  * the plain value is not assigned by the driver but by a handler that runs as part of
    ``t.param.trigger(...)`` (TW: ``param.watch`` handler on an Event parameter fired with
    trigger('go'); TD: ``@depends('go', watch=True)`` method fired with trigger('go'); TZ: watcher on
    a plain parameter fired with trigger('z')), and for comparison as part of ``t.go = True`` (EW)
    and ``t.param.update(go=True)`` (UW).

A case = a sequence of assignments (parameter, kind in {c, g, v}[, how the plain value is assigned])
+ a word (interleaving of the assignments with the completions of their futures) + a tick placement.
The sequences are built from schedules that hold on the unchanged tree: every assignment of an
asynchronous reference is followed by a tick (its task has started and is registered before the next
event -- the back-to-back classes C10-b01/b06 are part P's business), and a plain value is only ever
assigned to a parameter whose current reference is an async GENERATOR or a plain value (a coroutine
awaited inside the syncing scope is C10-b05).

Oracle (from the statement, per parameter; values carry the index of the assignment they belong to):
  C10/multi/final-latest-wins      once everything completed each parameter holds the value of ITS most
                                   recent assignment
  C10/multi/no-stale-apply         no watcher event of a parameter carries the result of a superseded
                                   assignment of that parameter
  C10/multi/plain-not-overwritten  same, the newer assignment being a plain value: the pending
                                   reference is cancelled for good, whatever the other parameter of the
                                   object is doing
"""
import itertools

from bounded._api import REPLAY_HEADER

TICK_ITERS = 40
HOWS = ("D", "TW", "TD", "TZ", "EW", "UW")

C_FINAL = "C10/multi/final-latest-wins"
C_STALE = "C10/multi/no-stale-apply"
C_PLAIN = "C10/multi/plain-not-overwritten"

_CLS = {}


def _classes():
    if not _CLS:
        import param

        class T2(param.Parameterized):
            x = param.Parameter(default=("init", "x"), allow_refs=True)
            y = param.Parameter(default=("init", "y"), allow_refs=True)
            z = param.Parameter(default=0)
            go = param.Event()
            hook = None

        class T2D(T2):
            @param.depends("go", watch=True)
            def _on_go(self):
                if self.hook is not None:
                    self.hook()
        _CLS["T2"], _CLS["T2D"] = T2, T2D
    return _CLS


# -------------------------------------------------------------------------------------
# sequences:  tuple of (parameter, kind)   + one `how` for the plain assignments of the case
# -------------------------------------------------------------------------------------
def seq_str(assigns, how):
    return "%s how=%s" % (",".join("%s:%s" % a for a in assigns), how)


def _merge(xs, ys):
    """all interleavings of the two assignment sequences (each kept in order)"""
    n, m = len(xs), len(ys)
    out = []
    for pos in itertools.combinations(range(n + m), n):
        seq, ix, iy = [], 0, 0
        for k in range(n + m):
            if k in pos:
                seq.append(("x", xs[ix]))
                ix += 1
            else:
                seq.append(("y", ys[iy]))
                iy += 1
        out.append(tuple(seq))
    return out


def _holds_by_construction(seq):
    """a plain value is assigned only over a generator / a plain value (see the module docstring)"""
    last = {}
    for p, k in seq:
        if k == "v" and last.get(p) == "c":
            return False
        last[p] = k
    return True


X_SEQS = ["gv", "ggv", "gvg", "vgv"]
Y_SEQS = ["c", "g", "cc", "cg", "gc", "gg", "gv"]


def sequences(tier):
    """-> list of (assigns, how, cls) ; `cls` in {two, handler, both} names the family"""
    out = []
    # two parameters, plain value assigned by the driver
    for xs in X_SEQS:
        for ys in Y_SEQS:
            if len(xs) + len(ys) > (5 if tier == "thorough" else 4):
                continue
            for seq in _merge(xs, ys):
                if _holds_by_construction(seq):
                    out.append((seq, "D", "two"))
    # one parameter, plain value assigned by a handler
    for xs in X_SEQS:
        seq = tuple(("x", k) for k in xs)
        for how in HOWS[1:]:
            out.append((seq, how, "handler"))
    # both: handler + the other parameter driven by a coroutine / generator at the same time
    for xs in (X_SEQS if tier == "thorough" else X_SEQS[:1]):
        for ys in ("c", "g"):
            for seq in _merge(xs, ys):
                for how in HOWS[1:]:
                    out.append((seq, how, "both"))
    return out


def words(assigns):
    """interleavings of the assignments (in order) with the completions of their futures (the two
    futures of a generator in order)"""
    kinds = [k for _p, k in assigns]
    n = len(kinds)
    res = []

    def rec(word, next_a, pending):
        if next_a == n and not pending:
            res.append(tuple(word))
            return
        if next_a < n:
            newp = set(pending)
            if kinds[next_a] in "cg":
                newp.add((next_a, 0))
            rec(word + [("A", next_a)], next_a + 1, frozenset(newp))
        for f in sorted(pending):
            newp = set(pending)
            newp.discard(f)
            if kinds[f[0]] == "g" and f[1] == 0:
                newp.add((f[0], 1))
            rec(word + [("R",) + f], next_a, frozenset(newp))
    rec([], 0, frozenset())
    return res


def tick_patterns(assigns, word, all_limit):
    """tick placements for the gaps of a word; the gap after the assignment of an asynchronous
    reference always has a tick (tick-separated), the final tick is implicit"""
    gaps = len(word) - 1
    forced = [i for i in range(gaps) if word[i][0] == "A" and assigns[word[i][1]][1] in "cg"]
    free = [i for i in range(gaps) if i not in forced]
    pats = set()
    if len(free) <= all_limit:
        for bits in itertools.product((0, 1), repeat=len(free)):
            pat = [0] * gaps
            for i in forced:
                pat[i] = 1
            for i, b in zip(free, bits):
                pat[i] = b
            pats.add(tuple(pat))
    else:
        for mode in ("all", "none", "after-R", "after-A", "burst"):
            pat = [0] * gaps
            for i in free:
                pat[i] = {"all": 1, "none": 0, "after-R": int(word[i][0] == "R"),
                          "after-A": int(word[i][0] == "A"),
                          "burst": int(word[i][0] != word[i + 1][0])}[mode]
            for i in forced:
                pat[i] = 1
            pats.add(tuple(pat))
    return sorted(pats)


def sched_str(word, pat):
    out = []
    for i, ev in enumerate(word):
        out.append("A%d" % ev[1] if ev[0] == "A" else "R%d.%d" % (ev[1], ev[2]))
        if i < len(word) - 1 and pat[i]:
            out.append("T")
    out.append("T")
    return ",".join(out)


def parse_sched(s):
    evs = []
    for tok in s.split(","):
        if tok == "T":
            evs.append(("T",))
        elif tok[0] == "A":
            evs.append(("A", int(tok[1:])))
        else:
            i, k = tok[1:].split(".")
            evs.append(("R", int(i), int(k)))
    return evs


# -------------------------------------------------------------------------------------
# driver
# -------------------------------------------------------------------------------------
def _finish(loop, asyncio):
    async def _cleanup():
        pending = [x for x in asyncio.all_tasks(loop) if x is not asyncio.current_task()]
        for x in pending:
            x.cancel()
        if pending:
            await asyncio.gather(*pending, return_exceptions=True)
        return len(pending)
    try:
        left = loop.run_until_complete(_cleanup())
        loop.run_until_complete(loop.shutdown_asyncgens())
    finally:
        loop.close()
    return left


def run_case(assigns, how, events):
    """-> (finals {param: value}, obs [(param, index of the latest assignment of param, value)], errs, left)"""
    import asyncio
    loop = asyncio.new_event_loop()
    errs = []
    loop.set_exception_handler(lambda l, ctx: errs.append(str(ctx.get("message"))))
    obs = []
    latest = {"x": -1, "y": -1}
    out = {}

    async def main():
        futs = {}
        cls = _classes()
        t = cls["T2D" if how == "TD" else "T2"]()
        for p in ("x", "y"):
            t.param.watch(lambda e, p=p: obs.append((p, latest[p], e.new)), p, onlychanged=False)
        plain = {"todo": None}

        def freeze(*_events):
            # the handler: assigns the plain value (once per firing)
            if plain["todo"] is not None:
                p, val = plain["todo"]
                plain["todo"] = None
                setattr(t, p, val)
        if how in ("TW", "EW", "UW"):
            t.param.watch(freeze, "go")
        elif how == "TZ":
            t.param.watch(freeze, "z")
        elif how == "TD":
            t.hook = freeze

        async def tick():
            for _ in range(TICK_ITERS):
                await asyncio.sleep(0)
                if not loop._ready:
                    break

        def mk_c(i):
            async def co():
                return await futs[(i, 0)]
            return co

        def mk_g(i):
            async def gen():
                yield await futs[(i, 0)]
                yield await futs[(i, 1)]
            return gen

        for ev in events:
            if ev[0] == "A":
                i = ev[1]
                p, k = assigns[i]
                latest[p] = i
                if k == "v":
                    if how == "D":
                        setattr(t, p, ("v", i))
                    else:
                        plain["todo"] = (p, ("v", i))
                        if how in ("TW", "TD"):
                            t.param.trigger("go")
                        elif how == "TZ":
                            t.param.trigger("z")
                        elif how == "EW":
                            t.go = True
                        else:
                            t.param.update(go=True)
                        if plain["todo"] is not None:
                            errs.append("harness: the handler did not run")
                else:
                    futs[(i, 0)] = loop.create_future()
                    if k == "g":
                        futs[(i, 1)] = loop.create_future()
                    setattr(t, p, (mk_c if k == "c" else mk_g)(i))
            elif ev[0] == "R":
                f = futs[(ev[1], ev[2])]
                if not f.done():        # a cancelled task cancels the future it awaits
                    f.set_result(("r", ev[1], ev[2]))
            else:
                await tick()
        await tick()
        out["x"], out["y"] = t.x, t.y

    try:
        loop.run_until_complete(main())
    finally:
        left = _finish(loop, asyncio)
    return out, obs, errs, left


def expected_finals(assigns):
    want = {}
    for i, (p, k) in enumerate(assigns):
        want[p] = ("v", i) if k == "v" else ("r", i, 0 if k == "c" else 1)
    return want


HOW_GROUP = {"D": "driver", "TW": "trigger-handler", "TD": "trigger-handler", "TZ": "trigger-handler",
             "EW": "set-handler", "UW": "set-handler"}


def _other(kinds):
    """what drives the other parameter of the object: nothing / coroutines (only) / generators"""
    if kinds == "-":
        return "none"
    return "coroutine" if "g" not in kinds else "generator"


def check(assigns, how, finals, obs):
    """-> list of (clause, classkey, detail)"""
    fails = []
    kinds = {p: "".join(k for q, k in assigns if q == p) or "-" for p in ("x", "y")}
    seen_stale = set()
    for (p, G, val) in obs:
        origin = val[1] if isinstance(val, tuple) and len(val) > 1 and isinstance(val[1], int) else None
        if origin is None or origin == G or p in seen_stale:
            continue
        if origin > G or assigns[origin][0] != p:
            fails.append(("C10/harness", ("foreign-value",), "obs=%r" % (obs,)))
            continue
        seen_stale.add(p)       # the first stale application per parameter characterises the schedule
        ki, kg = assigns[origin][1], assigns[G][1]
        other = _other(kinds["y" if p == "x" else "x"])
        clause = C_PLAIN if kg == "v" else C_STALE
        key = ("stale=%s" % ki, "by=%s" % kg, "plain-by=%s" % (HOW_GROUP[how] if kg == "v" else "-"), "other=%s" % other)
        fails.append((clause, key, "parameter %s: result %r of assignment %d applied while assignment %d (%s) was "
                      "its most recent one; watcher events (parameter, latest assignment, value): %r" % (
                          p, val, origin, G, kg, obs)))
    want = expected_finals(assigns)
    for p in ("x", "y"):
        if p not in want:
            continue
        final = finals.get(p)
        if final != want[p]:
            L = want[p][1]
            if isinstance(final, tuple) and len(final) > 1 and isinstance(final[1], int):
                got, rel = assigns[final[1]][1], ("older" if final[1] < L else "same")
            else:
                got, rel = "init", "none"
            other = _other(kinds["y" if p == "x" else "x"])
            key = ("last=%s" % assigns[L][1], "got=%s" % got, "from=%s" % rel,
                   "plain-by=%s" % (HOW_GROUP[how] if assigns[L][1] == "v" else "-"), "other=%s" % other)
            fails.append((C_FINAL, key, "parameter %s: final value %r, its most recent assignment demands %r; "
                          "watcher events %r" % (p, final, want[p], obs)))
    return fails


def task(args):
    """one sequence (or a slice of its schedules)"""
    assigns, how, fam, all_limit, part, nparts = args
    from bounded.c10 import _quiet
    restore = _quiet()
    try:
        ncase = 0
        nchk = {C_FINAL: 0, C_STALE: 0, C_PLAIN: 0}
        classes = {}
        nerrs = nleft = 0
        samples = []
        idx = -1
        for w in words(assigns):
            for pat in tick_patterns(assigns, w, all_limit):
                idx += 1
                if idx % nparts != part:
                    continue
                sched = sched_str(w, pat)
                finals, obs, errs, left = run_case(assigns, how, parse_sched(sched))
                ncase += 1
                nerrs += len(errs)
                nleft += left
                nchk[C_FINAL] += len(set(p for p, _k in assigns))
                nchk[C_STALE] += len(obs)
                nchk[C_PLAIN] += len(obs)
                fails = check(assigns, how, finals, obs)
                if any(e.startswith("harness") for e in errs):
                    fails.append(("C10/harness", ("handler",), "; ".join(e for e in errs if e.startswith("harness"))))
                if not samples:
                    samples.append({"multi": seq_str(assigns, how), "sched": sched, "final": repr(finals),
                                    "watcher": repr(obs)})
                for (clause, key, detail) in fails:
                    ck = (clause,) + tuple(key)
                    size = (len(assigns), sched.count(","), seq_str(assigns, how), sched)
                    ent = classes.get(ck)
                    if ent is None:
                        classes[ck] = [size, detail, 1, (assigns, how)]
                    else:
                        ent[2] += 1
                        if size < ent[0]:
                            ent[0], ent[1], ent[3] = size, detail, (assigns, how)
        return {"cases": ncase, "checks": nchk, "classes": classes, "errs": nerrs, "left": nleft,
                "samples": samples, "truncated": 0}
    finally:
        restore()


def tasks(tier, seed):
    out = []
    seqs = sequences(tier)
    for n, (assigns, how, fam) in enumerate(seqs):
        nw = len(words(assigns))
        if tier == "thorough":
            all_limit = 5 if len(assigns) <= 3 else 0
            nparts = 1 if nw < 150 else min(16, nw // 100 + 1)
            if len(assigns) <= 3 or (fam == "two" and len(assigns) == 4):
                for part in range(nparts):
                    out.append((assigns, how, fam, all_limit, part, nparts))
            else:
                stride = 4 if len(assigns) == 4 else 100
                out.append((assigns, how, fam, all_limit, (seed + n) % stride, stride))
        else:
            # quick: the shortest sequences completely, a seeded slice of the schedules of the others
            if len(assigns) <= 2 or (fam == "two" and len(assigns) == 3):
                out.append((assigns, how, fam, 4, 0, 1))
            elif len(assigns) == 3:
                stride = 4 if fam == "both" else 3
                out.append((assigns, how, fam, 4, (seed + n) % stride, stride))
            else:
                stride = max(1, nw // 9)
                out.append((assigns, how, fam, 0, (seed + n) % stride, stride))
    return out


RULE = ("M: assignment sequences over TWO parameters x, y of one object (x in {gv, ggv, gvg, vgv}, y in {c, g, cc, "
        "cg, gc, gg, gv}, every interleaving; a plain value only over a generator / plain value) and sequences "
        "whose plain value is assigned by a handler running inside trigger('go') on an Event parameter "
        "(param.watch handler TW / depends(watch=True) method TD), trigger('z') (TZ), t.go = True (EW), "
        "update(go=True) (UW), alone and with y driven by a coroutine / generator at the same time; x every "
        "interleaving with the completions of the futures x tick placement (always a tick after the assignment "
        "of an asynchronous reference); distinct = (sequence, how, schedule)")


def bound_text(tier):
    if tier == "thorough":
        return ("M: <=5 assignments over both parameters; <=3 assignments: all placements of the free ticks when <=5 "
                "gaps are free, five tick modes otherwise; 4 assignments: five tick modes, all schedules of the "
                "two-parameter sequences, a seeded 1/4 slice of those of the handler + second parameter sequences; "
                "5 assignments (two-parameter sequences): a seeded 1/100 slice of the schedules")
    return ("M: <=4 assignments over both parameters; all placements of the free ticks (<=4 free gaps) / five modes; "
            "all schedules of the two-parameter sequences of <=3 assignments and of the handler sequences of 2, a "
            "seeded 1/3 (handler) / 1/4 (handler + second parameter) slice of the schedules of those of 3 assignments, "
            "about 9 words per sequence of 4 assignments (five tick modes)")


# -------------------------------------------------------------------------------------
REPLAY = '''
import asyncio, warnings, logging
warnings.simplefilter('ignore')
import param
param.parameterized.get_logger().setLevel(logging.CRITICAL + 10)

ASSIGNS = ASSIGNS_LIT  # (parameter, kind): c coroutine function, g async generator function (2 yields), v plain value
HOW = HOW_LIT          # how a plain value is assigned: D by the driver; by a handler running inside
                       # TW trigger('go') [param.watch handler] / TD trigger('go') [depends(watch=True) method] /
                       # TZ trigger('z') / EW t.go = True / UW t.param.update(go=True)
SCHED = SCHED_LIT      # A<i> assignment i, R<i>.<k> complete future k of assignment i, T run loop until idle
CLAUSE = CLAUSE_LIT

class Tp(param.Parameterized):
    x = param.Parameter(default=('init', 'x'), allow_refs=True)
    y = param.Parameter(default=('init', 'y'), allow_refs=True)
    z = param.Parameter(default=0)
    go = param.Event()
    hook = None

class TpD(Tp):
    @param.depends('go', watch=True)
    def _on_go(self):
        if self.hook is not None:
            self.hook()

def run():
    loop = asyncio.new_event_loop()
    obs = []; latest = {'x': -1, 'y': -1}; out = {}
    async def main():
        futs = {}
        t = (TpD if HOW == 'TD' else Tp)()
        for p in ('x', 'y'):
            t.param.watch(lambda e, p=p: obs.append((p, latest[p], e.new)), p, onlychanged=False)
        plain = {'todo': None}
        def freeze(*events):
            if plain['todo'] is not None:
                p, val = plain['todo']; plain['todo'] = None
                setattr(t, p, val)
        if HOW in ('TW', 'EW', 'UW'): t.param.watch(freeze, 'go')
        elif HOW == 'TZ': t.param.watch(freeze, 'z')
        elif HOW == 'TD': t.hook = freeze
        async def tick():
            for _ in range(40):
                await asyncio.sleep(0)
        def mk_c(i):
            async def co():
                return await futs[(i, 0)]
            return co
        def mk_g(i):
            async def gen():
                yield await futs[(i, 0)]
                yield await futs[(i, 1)]
            return gen
        for tok in SCHED.split(','):
            if tok == 'T':
                await tick()
            elif tok[0] == 'A':
                i = int(tok[1:]); p, k = ASSIGNS[i]; latest[p] = i
                if k == 'v' and HOW == 'D':
                    setattr(t, p, ('v', i))
                elif k == 'v':
                    plain['todo'] = (p, ('v', i))
                    if HOW in ('TW', 'TD'): t.param.trigger('go')
                    elif HOW == 'TZ': t.param.trigger('z')
                    elif HOW == 'EW': t.go = True
                    else: t.param.update(go=True)
                else:
                    futs[(i, 0)] = loop.create_future(); futs[(i, 1)] = loop.create_future()
                    setattr(t, p, (mk_c if k == 'c' else mk_g)(i))
            else:
                i, k = tok[1:].split('.')
                f = futs[(int(i), int(k))]
                if not f.done(): f.set_result(('r', int(i), int(k)))
        await tick()
        out['x'], out['y'] = t.x, t.y
        pending = [x for x in asyncio.all_tasks(loop) if x is not asyncio.current_task()]
        for x in pending: x.cancel()
        if pending: await asyncio.gather(*pending, return_exceptions=True)
    try:
        loop.run_until_complete(main())
        loop.run_until_complete(loop.shutdown_asyncgens())
    finally:
        loop.close()
    return out, obs

finals, obs = run()
want = {}
for i, (p, k) in enumerate(ASSIGNS):
    want[p] = ('v', i) if k == 'v' else ('r', i, 0 if k == 'c' else 1)
print('assignments :', ASSIGNS, ' plain values assigned:', HOW, ' schedule:', SCHED)
print('watcher saw (parameter, index of its latest assignment at that moment, value):', obs)
print('final values:', finals, ' expected:', want)
bad = None
if CLAUSE.endswith('final-latest-wins'):
    for p in want:
        if finals[p] != want[p]:
            bad = 'all awaitables completed but %s == %r instead of %r (its most recent assignment)' % (p, finals[p], want[p])
else:
    for p, G, val in obs:
        if len(val) > 1 and isinstance(val[1], int) and val[1] < G:
            if CLAUSE.endswith('plain-not-overwritten') and ASSIGNS[G][1] == 'v':
                bad = 'plain value of assignment %d (%s) overwritten by pending result %r' % (G, p, val); break
            if CLAUSE.endswith('no-stale-apply') and ASSIGNS[G][1] != 'v':
                bad = 'result %r of superseded assignment %d applied after assignment %d (%s)' % (val, val[1], G, p); break
if bad:
    print('REPRODUCED: ' + bad)
    sys.exit(1)
print('NOT-REPRODUCED')
sys.exit(0)
'''


def replay(assigns, how, sched, clause, witness):
    hdr = REPLAY_HEADER.format(prop="C10", name="replay_c10_multi.py", clause=clause, witness=witness)
    return hdr + (REPLAY.replace("ASSIGNS_LIT", repr(tuple(assigns))).replace("HOW_LIT", repr(how))
                  .replace("SCHED_LIT", repr(sched)).replace("CLAUSE_LIT", repr(clause)))
