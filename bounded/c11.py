"""Bounded stand-in layer for C11 -- Parameter attributes inherit along the MRO; merged defaults
are re-validated.

What is driven (REAL code of /repo): ``ParameterizedMetaclass.__init__`` /
``__param_inheritance`` (class statement), ``Parameters.add_parameter`` and the metaclass
``__setattr__`` with a Parameter value, over hierarchies of freshly created Parameterized
classes (chains of 2..4, diamond, diamond with a tail; any class may skip the declaration).

Oracle (written from the property statement, lenient reading of DESIGN.md 7/C11): an independent
resolver over the *declared* hierarchy:

  merged(K, slot) = the value K's own declaration specifies, else merged(c, slot) of the nearest
                    class c after K in K's MRO that declares the same name with a Parameter type
                    that has ``slot`` ("the value held by the nearest class"), else the type's
                    documented default (computed ones -- Tuple.length, Selector.check_on_set --
                    from the merged static values);
  instantiate     = True if any class of the MRO holds instantiate=True, else the own value;
  allow_None      = recomputed from the class's own declaration only (documented constructor rule);
  creation fails  <=> (merged default is not None  or  the type changed along the MRO)
                      and the merged default violates the merged constraints / type.

Scope carved out (never demand more than the statement): every declaration must be individually
constructible (``Number(bounds=(6, 20))`` alone raises in its constructor: C01's business); a None
default under a *generalising* type change (Integer -> Number) is not judged for "raises".
Documented type behaviour used by the resolver: a ``Selector`` given non-empty ``objects`` and
no default declares ``default = first object``; a ``Tuple`` given a default declares
``length = len(default)``; a Selector whose ``check_on_set`` is False appends an unknown default
to its objects.

Extension (families RNG/DRG, blocks `flags` and `solo`): ``Range`` (numbers) and ``DateRange`` /
``CalendarDateRange`` (``datetime.date`` values only, for which both types document the same
meaning) join the families: the validity of a Range default depends on the *sign of step*
(step > 0: start <= end, step < 0: start >= end; date ranges additionally need end >= start), on
the hard bounds (both elements) and never on the soft bounds, so a redeclaration that overrides
ONLY ``step`` / ``softbounds`` / ``bounds`` / ``allow_None`` while inheriting a non-None default is
judged like any other.  ``readonly, per_instance, pickle_default_value, allow_refs, nested_refs,
softbounds`` became specifiable attributes; documented constructor rule used by the resolver:
``readonly=True`` declares ``constant=True`` (declarations that write readonly=True next to
instantiate=True are not generated: what such a declaration "specifies" for instantiate is not
stated).  Block `flags`: full product readonly x constant x instantiate in {unspecified, False,
True} per declaring class (explicitly written type defaults next to unspecified related
attributes) over chain2/chain3/diamond/diamond_tail with skipping classes; block `solo`: every
constructor attribute of every type overridden ALONE (equal / conflicting / explicitly the type
default) under parents that specify everything / the core + allow_None=True / the core only.

Creation-route family (task kind `routes`, generator in bounded/c11_routes.py): every class-creation
route -- class statement, call of the metaclass, ``type(name, bases, ns)``,
``param.parameterized_class(name, params, bases)``, ``add_parameter`` (the first four also for EVERY
class of the hierarchy) -- x declarations WITHOUT a default over the constraint lattice of every type
whose type default is not None (Number, Integer, Magnitude, String, Bytes, List, HookList, Tuple,
NumericTuple) x {nothing above declares the Parameter (root / below skipping classes), any declaration
of the family above it}.  The resolver is the same: expected slots and "creation must fail" never
depend on the route.  Family LST (List / HookList: ``bounds`` = length bounds, type default [],
instantiate=True by signature) and the types Magnitude / Bytes exist for this family only.
"""
import copy
import datetime
import itertools
import logging
import multiprocessing as mp
import re
import time
import warnings
import zlib

from bounded._api import Bounded, REPLAY_HEADER

PNAME = 'x'
INCLUDE_SETATTR_ROUTE = True     # set False to drop the `Cls.x = Parameter(...)` route

# ---------------------------------------------------------------------------------------------
# model of the Parameter types used (from the documented signatures, not from the code paths
# under test)
# ---------------------------------------------------------------------------------------------
SUPERS = {   # reflexive-transitive "is a" relation of the Parameter types
    'Parameter': ('Parameter',),
    'String': ('String', 'Parameter'),
    'Number': ('Number', 'Parameter'),
    'Integer': ('Integer', 'Number', 'Parameter'),
    'Selector': ('Selector', 'Parameter'),
    'ListSelector': ('ListSelector', 'Selector', 'Parameter'),
    'Tuple': ('Tuple', 'Parameter'),
    'NumericTuple': ('NumericTuple', 'Tuple', 'Parameter'),
    'Range': ('Range', 'NumericTuple', 'Tuple', 'Parameter'),
    'DateRange': ('DateRange', 'Range', 'NumericTuple', 'Tuple', 'Parameter'),
    'CalendarDateRange': ('CalendarDateRange', 'Range', 'NumericTuple', 'Tuple', 'Parameter'),
    # types of the creation-route family (bounded/c11_routes.py) only
    'Magnitude': ('Magnitude', 'Number', 'Parameter'),
    'Bytes': ('Bytes', 'Parameter'),
    'List': ('List', 'Parameter'),
    'HookList': ('HookList', 'List', 'Parameter'),
}
COMMON_SLOTS = ['default', 'doc', '_label', 'precedence', 'instantiate', 'constant', 'readonly',
                'pickle_default_value', 'allow_None', 'per_instance', 'allow_refs', 'nested_refs']
COMMON_DEFAULTS = dict(doc=None, _label=None, precedence=None, constant=False, readonly=False,
                       pickle_default_value=True, per_instance=True, allow_refs=False,
                       nested_refs=False)
EXTRA_SLOTS = {
    'Parameter': [], 'String': ['regex'],
    'Number': ['bounds', 'softbounds', 'inclusive_bounds', 'step'],
    'Integer': ['bounds', 'softbounds', 'inclusive_bounds', 'step'],
    'Selector': ['_objects', 'names', 'check_on_set', 'compute_default_fn'],
    'ListSelector': ['_objects', 'names', 'check_on_set', 'compute_default_fn'],
    'Tuple': ['length'], 'NumericTuple': ['length'],
    'Range': ['length', 'bounds', 'softbounds', 'inclusive_bounds', 'step'],
    'DateRange': ['length', 'bounds', 'softbounds', 'inclusive_bounds', 'step'],
    'CalendarDateRange': ['length', 'bounds', 'softbounds', 'inclusive_bounds', 'step'],
    'Magnitude': ['bounds', 'softbounds', 'inclusive_bounds', 'step'], 'Bytes': ['regex'],
    'List': ['bounds'], 'HookList': ['bounds'],
}
_RANGE_DEFAULTS = dict(default=None, bounds=None, softbounds=None, inclusive_bounds=(True, True), step=None)
TYPE_DEFAULTS = {
    'Parameter': dict(default=None),
    'String': dict(default='', regex=None),
    'Number': dict(default=0.0, bounds=None, softbounds=None, inclusive_bounds=(True, True), step=None),
    'Integer': dict(default=0, bounds=None, softbounds=None, inclusive_bounds=(True, True), step=None),
    'Selector': dict(default=None, compute_default_fn=None),      # _objects [] / names {} / check_on_set computed
    'ListSelector': dict(default=None, compute_default_fn=None),
    'Tuple': dict(default=(0, 0)),                                  # length computed
    'NumericTuple': dict(default=(0, 0)),
    'Range': dict(_RANGE_DEFAULTS), 'DateRange': dict(_RANGE_DEFAULTS),       # length: always declared (2)
    'CalendarDateRange': dict(_RANGE_DEFAULTS),
    'Magnitude': dict(default=1.0, bounds=(0.0, 1.0), softbounds=None, inclusive_bounds=(True, True), step=None),
    'Bytes': dict(default=b'', regex=None),
    'List': dict(default=[], bounds=(0, None), instantiate=True),       # documented signature of List
    'HookList': dict(default=[], bounds=(0, None), instantiate=True),
}
FAMILY_OF = {'Range': 'RNG', 'DateRange': 'DRG', 'CalendarDateRange': 'DRG',
             'Parameter': 'STR', 'String': 'STR', 'Number': 'NUM', 'Integer': 'NUM',
             'Selector': 'SEL', 'ListSelector': 'SEL', 'Tuple': 'TUP', 'NumericTuple': 'TUP',
             'Magnitude': 'NUM', 'Bytes': 'STR', 'List': 'LST', 'HookList': 'LST'}
FAMILY_TYPES = {'NUM': ('Number', 'Integer'), 'STR': ('Parameter', 'String'),
                'SEL': ('Selector', 'ListSelector'), 'TUP': ('Tuple', 'NumericTuple'),
                'RNG': ('Range',), 'DRG': ('DateRange', 'CalendarDateRange'),
                'LST': ('List', 'HookList')}       # LST: creation-route family only (not in FAMILIES)
FAMILIES = ('NUM', 'STR', 'SEL', 'TUP', 'RNG', 'DRG')
OLD_FAMILIES = ('NUM', 'STR', 'SEL', 'TUP')
ATTR_ORDER = ['default', 'bounds', 'inclusive_bounds', 'step', 'regex', 'objects', 'length',
              'check_on_set', 'allow_None', 'instantiate', 'constant', 'doc', 'label', 'precedence',
              'softbounds', 'readonly', 'per_instance', 'pickle_default_value', 'allow_refs', 'nested_refs']
HAS_ATTR = {'bounds': ('NUM', 'RNG', 'DRG', 'LST'), 'inclusive_bounds': ('NUM', 'RNG', 'DRG'),
            'step': ('NUM', 'RNG', 'DRG'), 'softbounds': ('NUM', 'RNG', 'DRG'), 'regex': ('STR',),
            'objects': ('SEL',), 'check_on_set': ('SEL',), 'length': ('TUP',)}
D0, D1, D2, D3, D4, D5, D9 = (datetime.date(2020, 1, k) for k in (1, 2, 3, 4, 5, 6, 10))
R1, R2 = '^[abc]*$', '^[xyz]*$'


def slots_of(tname):
    return COMMON_SLOTS + EXTRA_SLOTS[tname]


def own_spec(tname, spec):
    """slot -> value for what the declaration ``tname(**spec)`` specifies (documented meaning)."""
    own = {}
    for k, v in spec:
        if k == 'label':
            own['_label'] = v
        elif k == 'objects':
            if isinstance(v, dict):
                own['_objects'] = list(v.values())
                own['names'] = dict(v)
            else:
                own['_objects'] = list(v)
                own['names'] = {}
        else:
            own[k] = copy.deepcopy(v)
    fam = FAMILY_OF[tname]
    if fam == 'SEL' and tname == 'Selector' and 'default' not in own and own.get('_objects'):
        own['default'] = own['_objects'][0]          # documented: picks the first object
    if fam == 'TUP' and own.get('default'):
        own['length'] = len(own['default'])          # documented: length determined by the default
    if fam in ('RNG', 'DRG'):
        own['length'] = len(own['default']) if own.get('default') else 2    # a range declares length 2
    if own.get('readonly') is True:
        own['constant'] = True                       # documented: readonly => constant
    return own


def own_allow_None(tname, own):
    """allow_None as (re)computed from the class's own declaration."""
    if FAMILY_OF[tname] == 'SEL':
        return own.get('allow_None', None)
    d = own['default'] if 'default' in own else TYPE_DEFAULTS[tname]['default']
    if d is None:
        return True
    return own.get('allow_None', False)


def merge(tname, spec, anc):
    """anc: [(tname_c, merged_c)] for the classes after K in K's MRO that declare the name."""
    own = own_spec(tname, spec)
    m = {}
    missing = []
    for s in slots_of(tname):
        if s in ('instantiate', 'allow_None'):
            continue
        if s in own:
            m[s] = own[s]
            continue
        for _tc, mc in anc:
            if s in mc:
                m[s] = copy.deepcopy(mc[s])
                break
        else:
            missing.append(s)
    td = dict(COMMON_DEFAULTS, **TYPE_DEFAULTS[tname])
    computed = []
    for s in missing:
        if s in td:
            m[s] = td[s]
        elif s == '_objects':
            m[s] = []
        elif s == 'names':
            m[s] = {}
        else:
            computed.append(s)
    for s in computed:
        if s == 'length':
            m[s] = len(m['default'])
        elif s == 'check_on_set':
            m[s] = len(m['_objects']) != 0
        else:  # pragma: no cover
            raise AssertionError(s)
    inst = own.get('instantiate', TYPE_DEFAULTS[tname].get('instantiate', False))
    if any(mc['instantiate'] is True for _tc, mc in anc):
        inst = True
    m['instantiate'] = inst
    m['allow_None'] = own_allow_None(tname, own)
    # documented Selector state: with check_on_set False an unknown default joins the objects
    if FAMILY_OF[tname] == 'SEL' and m['check_on_set'] is False and m['default'] is not None:
        items = m['default'] if tname == 'ListSelector' else [m['default']]
        if isinstance(items, list):
            for o in items:
                if o not in m['_objects']:
                    m['_objects'].append(o)
    return m


def _isnum(v):
    return isinstance(v, (int, float)) and not isinstance(v, bool)


def valid(tname, m):
    """Does the default of ``m`` satisfy the constraints / type held by ``m``?  (m: slot->value)"""
    v = m['default']
    an = bool(m['allow_None'])
    fam = FAMILY_OF[tname]
    if fam == 'NUM':
        if v is None:
            return an
        if not _isnum(v):
            return False
        if tname == 'Integer' and not isinstance(v, int):
            return False
        b = m['bounds']
        if b is not None:
            lo, hi = b
            ilo, ihi = m['inclusive_bounds']
            if hi is not None and not (v <= hi if ihi is True else v < hi):
                return False
            if lo is not None and not (v >= lo if ilo is True else v > lo):
                return False
        return True
    if fam == 'STR':
        if tname == 'Parameter':
            return True
        if v is None:
            return an
        if not isinstance(v, bytes if tname == 'Bytes' else str):
            return False
        if m['regex'] is None:
            return True
        try:
            return re.match(m['regex'], v) is not None
        except TypeError:          # a str pattern inherited by a Bytes (or the reverse) matches no value
            return False
    if fam == 'LST':
        if v is None:
            return an
        if not isinstance(v, list):
            return False
        if tname == 'HookList' and not all(callable(e) for e in v):
            return False
        b = m['bounds']
        if b is not None:
            lo, hi = b
            if lo is not None and not len(v) >= lo:
                return False
            if hi is not None and not len(v) <= hi:
                return False
        return True
    if fam == 'TUP':
        if v is None:
            return an
        if not isinstance(v, tuple):
            return False
        if tname == 'NumericTuple' and not all(_isnum(e) for e in v):
            return False
        return len(v) == m['length']
    if fam in ('RNG', 'DRG'):
        if v is None:
            return an
        if not isinstance(v, tuple) or len(v) != m['length'] or len(v) != 2:
            return False
        if fam == 'RNG' and not all(_isnum(e) for e in v):
            return False
        if fam == 'DRG' and not all(type(e) is datetime.date for e in v):
            return False
        b = m['bounds']
        if b is not None:
            lo, hi = b
            ilo, ihi = m['inclusive_bounds']
            for e in v:
                if hi is not None and not (e <= hi if ihi is True else e < hi):
                    return False
                if lo is not None and not (e >= lo if ilo is True else e > lo):
                    return False
        start, end = v
        if fam == 'DRG' and not end >= start:
            return False
        st = m['step']
        if st is not None:
            if st > 0 and not start <= end:
                return False
            if st < 0 and not start >= end:
                return False
        return True                                   # soft bounds never constrain the value
    if fam == 'SEL':
        def one(o):
            return (not m['check_on_set']) or (an and o is None) or (o in list(m['_objects']))
        if tname == 'Selector':
            return one(v)
        if v is None and an:
            return True
        if not isinstance(v, list):
            return False
        return all(one(o) for o in v)
    raise AssertionError(tname)


def expected_failure(tname, m, anc):
    """True / False / None (not judged)."""
    changed = any(tname not in SUPERS[tc] for tc, _ in anc)       # some ancestor is not a `tname`
    differs = any(tc != tname for tc, _ in anc)
    ok = valid(tname, m)
    if m['default'] is None:
        if changed:
            return not ok
        if differs:
            return None        # generalising change: "type changed along the way" is debatable
        return False
    return not ok


# ---------------------------------------------------------------------------------------------
# hierarchies
# ---------------------------------------------------------------------------------------------
SHAPES = {
    'chain1': (('A', ()),),
    'chain2': (('A', ()), ('B', ('A',))),
    'chain3': (('A', ()), ('B', ('A',)), ('C', ('B',))),
    'chain4': (('A', ()), ('B', ('A',)), ('C', ('B',)), ('D', ('C',))),
    'diamond': (('A', ()), ('B', ('A',)), ('C', ('A',)), ('D', ('B', 'C'))),
    'diamond_tail': (('A', ()), ('B', ('A',)), ('C', ('A',)), ('D', ('B', 'C')), ('E', ('D',))),
}


def _c3(cls, bases_of):
    """C3 linearisation (Python language reference)."""
    seqs = [list(_c3(b, bases_of)) for b in bases_of[cls]] + [list(bases_of[cls])]
    res = [cls]
    while any(seqs):
        for s in seqs:
            if not s:
                continue
            h = s[0]
            if not any(h in t[1:] for t in seqs):
                break
        else:  # pragma: no cover
            raise TypeError('inconsistent hierarchy')
        res.append(h)
        for s in seqs:
            if s and s[0] == h:
                del s[0]
    return res


MROS = {}
for _sn, _sh in SHAPES.items():
    _b = {c: bs for c, bs in _sh}
    MROS[_sn] = {c: _c3(c, _b) for c, _ in _sh}


# ---------------------------------------------------------------------------------------------
# driving the real code
# ---------------------------------------------------------------------------------------------
_param = None


def _P():
    global _param
    if _param is None:
        import param
        _param = param
        warnings.simplefilter('ignore')
        logging.getLogger('param').setLevel(logging.CRITICAL)
    return _param


def build_param(decl):
    tname, spec = decl
    return getattr(_P(), tname)(**{k: copy.deepcopy(v) for k, v in spec})


def constructible(decl):
    try:
        build_param(decl)
        return True
    except Exception:
        return False


def _norm(slot, v):
    if slot == '_objects' and isinstance(v, list):
        return list(v)
    if slot == 'names' and isinstance(v, dict):
        return dict(v)
    return v


def same(a, b):
    if type(a) is not type(b):
        return False
    if isinstance(a, (tuple, list)):
        return len(a) == len(b) and all(same(x, y) for x, y in zip(a, b))
    if isinstance(a, dict):
        return list(a) == list(b) and all(same(a[k], b[k]) for k in a)
    return a == b


def real_slots(p, tname):
    out = {}
    for s in slots_of(tname):
        try:
            out[s] = _norm(s, getattr(p, s))
        except Exception as e:   # pragma: no cover
            out[s] = '<error %s>' % type(e).__name__
    return out


def create(cname, bases, decl, route):
    """Create one class on the real code.  Returns (cls or None, pobj or None, exception or None)."""
    param = _P()
    M = type(param.Parameterized)
    route = route.rstrip('*')
    if decl is None:
        return M(cname, bases, {}), None, None
    pobj = build_param(decl)
    if route in ('class', 'type', 'stmt', 'pclass'):
        # class: call of the metaclass; type: the three-argument form of the builtin; stmt: a class
        # statement; pclass: the public helper param.parameterized_class(name, params, bases)
        try:
            if route == 'class':
                return M(cname, bases, {PNAME: pobj}), pobj, None
            if route == 'type':
                return type(cname, bases, {PNAME: pobj}), pobj, None
            if route == 'pclass':
                return param.parameterized_class(cname, {PNAME: pobj}, bases), pobj, None
            env = {'bases': bases, 'pobj': pobj, '__name__': 'c11_stmt'}
            exec('class %s(*bases):\n    %s = pobj\n' % (cname, PNAME), env)
            return env[cname], pobj, None
        except Exception as e:
            return None, pobj, e
    cls = M(cname, bases, {})
    try:
        if route == 'addp':
            cls.param.add_parameter(PNAME, pobj)
        else:
            setattr(cls, PNAME, pobj)
    except Exception as e:
        return cls, pobj, e
    return cls, pobj, None


class Counter:
    def __init__(self):
        self.checked = {}

    def hit(self, clause, n=1):
        self.checked[clause] = self.checked.get(clause, 0) + n


def check_class(cls, pobj, exc, decl, anc, route, cnt):
    """Evaluate the C11 clauses for one created (or failed) class.  -> (violations, merged)"""
    tname, spec = decl
    if route == 'setattr':
        # `Cls.x = Parameter(...)` on an existing class: a route the statement does not name
        # explicitly (it names class creation and add_parameter); kept under its own clause.
        cnt.hit('C11/setattr-route/parameter-bound')
        if pobj.name != PNAME:
            return [('C11/setattr-route/name-unbound',
                     'after setattr(cls, %r, Parameter) the Parameter has name %r; unspecified slots '
                     'read as type defaults instead of inherited values' % (PNAME, pobj.name))], None
    m = merge(tname, spec, anc)
    exp = expected_failure(tname, m, anc)
    vios = []
    if exp is not None:
        cnt.hit('C11/create/raises<=>merged-default-invalid')
        if exp and exc is None:
            vios.append(('C11/create/missing-raise', 'merged default %r accepted although it violates '
                         'the merged constraints %s' % (m['default'], _constraints(tname, m))))
        elif not exp and exc is not None:
            vios.append(('C11/create/spurious-raise', 'creation raised %s: %s although merged default %r '
                         'satisfies %s' % (type(exc).__name__, str(exc).splitlines()[0][:200],
                                           m['default'], _constraints(tname, m))))
    if exc is not None:
        if cls is not None and cls.__dict__.get(PNAME) is pobj:
            # add_parameter / setattr failed: "no class exists whose non-None default contradicts ..."
            cnt.hit('C11/invariant/no-class-with-invalid-default')
            try:
                rs = real_slots(pobj, tname)
                bad = rs['default'] is not None and not valid(tname, rs)
            except Exception:
                bad = False
            if bad:
                vios.append(('C11/invariant/failed-add-leaves-invalid-parameter',
                             '%s raised but the class keeps the Parameter: default %r vs %s'
                             % (route, rs['default'], _constraints(tname, rs))))
        return vios, None
    p = cls.param[PNAME]
    cnt.hit('C11/identity/param[name] is class attribute')
    if route.rstrip('*') == 'pclass':
        # the helper may give the class its own Parameter objects: only the binding is demanded
        pobj = cls.__dict__.get(PNAME)
    if p is not pobj or cls.__dict__.get(PNAME) is not pobj or p.owner is not cls or p.name != PNAME:
        vios.append(('C11/slot/owner', 'param[name] / owner / name not bound to the new class'))
    rs = real_slots(p, tname)
    for s in slots_of(tname):
        cnt.hit('C11/slot==resolver')
        if not same(rs[s], m[s]):
            vios.append(('C11/slot/%s' % s, 'slot %s: real %r, resolver %r' % (s, rs[s], m[s])))
    if rs.get('_label') is not None:
        cnt.hit('C11/slot==resolver')
        if p.label != m['_label']:
            vios.append(('C11/slot/_label', 'label property %r vs %r' % (p.label, m['_label'])))
    cnt.hit('C11/invariant/no-class-with-invalid-default')
    try:
        if rs['default'] is not None and not valid(tname, rs):
            vios.append(('C11/invariant/class-with-invalid-default',
                         'class exists with default %r vs %s' % (rs['default'], _constraints(tname, rs))))
    except Exception:
        pass
    return vios, m


def _constraints(tname, m):
    keys = [k for k in ('bounds', 'inclusive_bounds', 'regex', '_objects', 'check_on_set', 'length',
                        'allow_None') if k in m]
    if FAMILY_OF[tname] in ('RNG', 'DRG'):
        keys.insert(2, 'step')
    return tname + '(' + ', '.join('%s=%r' % (k, m[k]) for k in keys) + ')'


def anc_of(shape, cname, decls_by_name, merged_by_name):
    out = []
    for c in MROS[shape][cname][1:]:
        if decls_by_name.get(c) is not None and merged_by_name.get(c) is not None:
            out.append((decls_by_name[c][0], merged_by_name[c]))
    return out


def run_case(shape, decls, route, cnt=None):
    """Create the whole hierarchy from scratch.  decls: tuple aligned with SHAPES[shape].
    -> list of (clause, at, detail); stops at the first class whose creation raised."""
    cnt = cnt or Counter()
    param = _P()
    classes, merged, dby = {}, {}, {}
    out = []
    sh = SHAPES[shape]
    for i, (cname, bases) in enumerate(sh):
        decl = decls[i]
        dby[cname] = decl
        rbases = tuple(classes[b] for b in bases) or (param.Parameterized,)
        # (a route written with a trailing '*' is used for every declaring class of the hierarchy)
        r = route if (i == len(sh) - 1 or route.endswith('*')) else 'class'
        if r.rstrip('*') in ('addp', 'setattr') and i != len(sh) - 1:
            r = 'class'
        cls, pobj, exc = create(cname, rbases, decl, r)
        if decl is None:
            classes[cname] = cls
            continue
        vios, m = check_class(cls, pobj, exc, decl, anc_of(shape, cname, dby, merged), r, cnt)
        out.extend((cl, cname, d) for cl, d in vios)
        if exc is not None:
            break
        classes[cname] = cls
        merged[cname] = m
    return out


# ---------------------------------------------------------------------------------------------
# canonical text, shrinking, replay
# ---------------------------------------------------------------------------------------------
def decl_text(decl):
    if decl is None:
        return '-'
    tname, spec = decl
    return '%s(%s)' % (tname, ', '.join('%s=%r' % (k, v) for k, v in spec))


def case_key(shape, decls, route):
    return '%s|%s|%s' % (shape, route, '|'.join(decl_text(d) for d in decls))


def witness_text(shape, decls, route, clause, at):
    fam = next(FAMILY_OF[d[0]] for d in decls if d is not None)
    parts = ['family=%s' % fam, 'shape=%s' % shape, 'route=%s' % route]
    for (cname, _), d in zip(SHAPES[shape], decls):
        parts.append('%s=%s' % (cname, decl_text(d)))
    parts.append('at=%s' % at)
    return ' '.join(parts)


def witness_class(clause, shape, decls, route):
    """One reported witness per (clause, class): the smallest minimised case stands for the rest."""
    fam = next(FAMILY_OF[d[0]] for d in decls if d is not None)
    if clause.startswith('C11/setattr-route/'):
        return ''
    if clause.startswith('C11/invariant/failed-add'):
        return route
    if clause.startswith('C11/create/'):
        types = [d[0] for d in decls if d is not None]
        return '%s|%s%s' % (fam, 'typechange' if len(set(types)) > 1 else 'sametype', _route_class(route))
    return fam + _route_class(route)


def _route_class(route):
    """the creation routes of the route family are reported separately (one witness per route)"""
    return '' if route in ('class', 'addp', 'setattr') else '|' + route


def _shape_reductions(shape, decls):
    """Equivalent smaller hierarchies (skipping classes removed)."""
    out = []
    if shape in ('chain2', 'chain3', 'chain4'):
        for i in range(len(decls) - 1):
            nd = decls[:i] + decls[i + 1:]
            out.append(('chain%d' % len(nd), nd))
    if shape == 'diamond_tail':
        out.append(('diamond', decls[:4]))
        out.append(('chain4', (decls[0], decls[1], decls[3], decls[4])))
        out.append(('chain4', (decls[0], decls[2], decls[3], decls[4])))
    if shape == 'diamond':
        out.append(('chain3', (decls[0], decls[1], decls[3])))
        out.append(('chain3', (decls[0], decls[2], decls[3])))
        out.append(('chain2', (decls[0], decls[3])))
    return out


def shrink(shape, decls, route, clause):
    """Greedy removal-only minimisation keeping a violation of the same clause."""
    def fails(s, d, r):
        if d[-1] is None or not all(x is None or constructible(x) for x in d):
            return False
        try:
            return any(cl == clause for cl, _at, _ in run_case(s, d, r))
        except Exception:
            return False
    decls = tuple(decls)
    changed = True
    while changed:
        changed = False
        if route.endswith('*') and fails(shape, decls, route[:-1]):
            route = route[:-1]
            changed = True
        if route != 'class' and fails(shape, decls, 'class'):
            route = 'class'
            changed = True
        for s2, d2 in _shape_reductions(shape, decls):
            if fails(s2, tuple(d2), route):
                shape, decls = s2, tuple(d2)
                changed = True
                break
        if changed:
            continue
        for i in range(len(decls) - 1):
            if decls[i] is not None:
                d2 = decls[:i] + (None,) + decls[i + 1:]
                if fails(shape, d2, route):
                    decls = d2
                    changed = True
        for i, d in enumerate(decls):
            if d is None:
                continue
            for j in range(len(d[1])):
                cur = decls[i]
                if j >= len(cur[1]):
                    break
                nd = (cur[0], cur[1][:j] + cur[1][j + 1:])
                d2 = decls[:i] + (nd,) + decls[i + 1:]
                if fails(shape, d2, route):
                    decls = d2
                    changed = True
        # prefer the general type when it does not matter
        for i, d in enumerate(decls):
            if d is None:
                continue
            gen = FAMILY_TYPES[FAMILY_OF[d[0]]][0]
            if d[0] != gen:
                d2 = decls[:i] + ((gen, d[1]),) + decls[i + 1:]
                if fails(shape, d2, route):
                    decls = d2
                    changed = True
    at = next(a for cl, a, _ in run_case(shape, decls, route) if cl == clause)
    return shape, decls, route, at


def replay_script(shape, decls, route, clause, at, witness):
    """Stand-alone reproduction: expected values are literals computed by the resolver."""
    merged, dby = {}, {}
    lines = [REPLAY_HEADER.format(prop='C11', name='replay_c11.py', clause=clause, witness=witness),
             'import warnings, logging, datetime', 'import param', "warnings.simplefilter('ignore')",
             "logging.getLogger('param').setLevel(logging.CRITICAL)", 'raised = None', 'try:']
    sh = SHAPES[shape]
    body = []
    for i, (cname, bases) in enumerate(sh):
        d = decls[i]
        dby[cname] = d
        bl = ', '.join(bases) or 'param.Parameterized'
        last = i == len(sh) - 1
        if d is None:
            body.append('class %s(%s): pass' % (cname, bl))
            continue
        ptxt = 'param.%s(%s)' % (d[0], ', '.join('%s=%r' % (k, v) for k, v in d[1]))
        r0 = route.rstrip('*')
        if r0 in ('type', 'pclass') and (last or route.endswith('*')):
            btxt = '(%s,)' % bl
            if r0 == 'type':
                body.append('%s = type(%r, %s, {%r: %s})' % (cname, cname, btxt, PNAME, ptxt))
            else:
                body.append('%s = param.parameterized_class(%r, {%r: %s}, %s)' % (cname, cname, PNAME, ptxt, btxt))
        elif last and r0 not in ('class', 'stmt'):
            body.append('class %s(%s): pass' % (cname, bl))
            if route == 'addp':
                body.append('%s.param.add_parameter(%r, %s)' % (cname, PNAME, ptxt))
            else:
                body.append('%s.%s = %s' % (cname, PNAME, ptxt))
        else:
            body.append('class %s(%s):\n        %s = %s' % (cname, bl, PNAME, ptxt))
        merged[cname] = merge(d[0], d[1], anc_of(shape, cname, dby, merged))
    lines += ['    ' + b for b in body]
    lines += ['except Exception as e:', '    raised = e']
    m = merged[at]
    tname = dby[at][0]
    if clause == 'C11/slot/owner':
        lines += [
            "if raised is not None:", "    print('NOT-REPRODUCED (creation raised %r)' % raised); sys.exit(0)",
            "p = %s.param[%r]" % (at, PNAME),
            "if p is not %s.__dict__.get(%r) or p.owner is not %s or p.name != %r:" % (at, PNAME, at, PNAME),
            "    print('REPRODUCED: %s.param[%r] is not the class attribute bound to %s (owner %%r, name %%r)' %% (p.owner, p.name))" % (at, PNAME, at),
            "    sys.exit(1)", "print('NOT-REPRODUCED')"]
    elif clause.startswith('C11/slot/'):
        slot = clause.split('/')[-1]
        lines += [
            "if raised is not None:", "    print('NOT-REPRODUCED (creation raised %r)' % raised); sys.exit(0)",
            "got = getattr(%s.param[%r], %r)" % (at, PNAME, slot),
            "got = dict(got) if isinstance(got, dict) else (list(got) if isinstance(got, list) else got)",
            "want = %r   # value held by the nearest class in the MRO declaring it (else type default)" % (m[slot],),
            "if got != want or type(got) is not type(want):",
            '    print("REPRODUCED: %s.param[%r].%s is %%r, statement gives %%r" %% (got, want))' % (at, PNAME, slot),
            "    sys.exit(1)", "print('NOT-REPRODUCED')"]
    elif clause == 'C11/create/missing-raise':
        lines += [
            "if raised is None:",
            "    p = %s.param[%r]" % (at, PNAME),
            "    print('REPRODUCED: class %s created; default %%r violates %s' %% (p.default,))" % (at, _constraints(tname, m).replace('%', '%%').replace("'", '"')),
            "    sys.exit(1)", "print('NOT-REPRODUCED (raised %r)' % raised)"]
    elif clause == 'C11/create/spurious-raise':
        lines += [
            "if raised is not None:",
            "    print('REPRODUCED: creation raised %%s although merged default %r satisfies %s' %% type(raised).__name__)" % (m['default'], _constraints(tname, m).replace('%', '%%').replace("'", '"')),
            "    sys.exit(1)", "print('NOT-REPRODUCED')"]
    elif clause == 'C11/setattr-route/name-unbound':
        lines += [
            "p = %s.__dict__.get(%r)" % (at, PNAME),
            "if isinstance(p, param.Parameter) and p.name != %r:" % PNAME,
            "    print('REPRODUCED: after %s.%s = Parameter(...) the Parameter has name %%r (owner %%r): it was never '" % (at, PNAME),
            "          'bound, so slots left unspecified are not inherited' % (p.name, p.owner))",
            "    sys.exit(1)", "print('NOT-REPRODUCED')"]
    elif clause == 'C11/invariant/failed-add-leaves-invalid-parameter':
        lines += [
            "p = %s.__dict__.get(%r)" % (at, PNAME),
            "if raised is not None and isinstance(p, param.Parameter):",
            "    try:",
            "        p._validate(p.default); ok = True",
            "    except Exception as e:",
            "        ok = False; why = e",
            "    if not ok and p.default is not None:",
            "        print('REPRODUCED: %s raised (%%s) yet class %s keeps %s with default %%r: %%s' %% (type(raised).__name__, p.default, why))" % (route, at, PNAME),
            "        sys.exit(1)", "print('NOT-REPRODUCED')"]
    else:
        lines += [
            "if raised is None:",
            "    p = %s.param[%r]" % (at, PNAME),
            "    try:",
            "        p._validate(p.default)",
            "    except Exception as e:",
            "        if p.default is not None:",
            "            print('REPRODUCED: class exists with invalid default %r: %s' % (p.default, e)); sys.exit(1)",
            "print('NOT-REPRODUCED')"]
    return '\n'.join(lines) + '\n'


# ---------------------------------------------------------------------------------------------
# enumeration
# ---------------------------------------------------------------------------------------------
_UNSPEC = object()


def admissible(spec):
    """Declarations the resolver has a documented meaning for (see the module docstring)."""
    d = dict(spec)
    return not (d.get('readonly') is True and d.get('instantiate') is True)


def _product_pool(types, dom):
    """All declarations type(**subset-of-attrs) over the attribute domains ``dom`` (attr -> values,
    _UNSPEC meaning 'left unspecified'), filtered to the individually constructible ones."""
    attrs = [a for a in ATTR_ORDER if a in dom]
    out = []
    for t in types:
        for combo in itertools.product(*(dom[a] for a in attrs)):
            spec = tuple((a, v) for a, v in zip(attrs, combo) if v is not _UNSPEC)
            if any(a == 'regex' for a, _ in spec) and t != 'String':
                continue
            if not admissible(spec):
                continue
            d = (t, spec)
            if constructible(d):
                out.append(d)
    return out


X = _UNSPEC
DOMAINS = {
    'NUM': {
        'full': dict(default=[X, 5, 10, 0.5, None], bounds=[X, (0, 10), (6, 20), None],
                     inclusive_bounds=[X, (False, False)], allow_None=[X, True, False]),
        'mid': dict(default=[X, 5, 0.5, None], bounds=[X, (0, 10), (6, 20)], allow_None=[X, True]),
        'small': dict(default=[X, 5, 0.5], bounds=[X, (0, 1), (0, 10)]),
    },
    'STR': {
        'full': dict(default=[X, 'abc', 'xyz', None, 5], regex=[X, R1, R2, None], allow_None=[X, True, False]),
        'mid': dict(default=[X, 'abc', 'xyz', None, 5], regex=[X, R1, R2], allow_None=[X, True]),
        'small': dict(default=[X, 'abc', 5], regex=[X, R2]),
    },
    'SEL': {
        'full': dict(default=[X, 1, 3, None, [1], [2, 3]], objects=[X, [1, 2], [2, 3], {'a': 1, 'b': 2}],
                     check_on_set=[X, False], allow_None=[X, True]),
        'mid': dict(default=[X, 1, 3, None, [1]], objects=[X, [1, 2], [2, 3], {'a': 1, 'b': 2}],
                    allow_None=[X, True]),
        'small': dict(default=[X, 3, [1]], objects=[X, [1, 2], {'a': 1, 'b': 2}]),
    },
    'TUP': {
        'full': dict(default=[X, (1, 2), (1, 2, 3), ('a', 'b'), None], length=[X, 2, 3], allow_None=[X, True, False]),
        'mid': dict(default=[X, (1, 2), (1, 2, 3), ('a', 'b'), None], length=[X, 2], allow_None=[X, True]),
        'small': dict(default=[X, (1, 2, 3), ('a', 'b')], length=[X, 2]),
    },
    # Range: the order of a non-None default is judged by the sign of step; soft bounds never matter
    'RNG': {
        'full': dict(default=[X, (1, 5), (5, 1), (3, 3), None], step=[X, 1, -1], bounds=[X, (0, 10), (2, 4)],
                     softbounds=[X, (0, 3)], allow_None=[X, True, False]),
        'mid': dict(default=[X, (1, 5), (5, 1), None], step=[X, 1, -1], bounds=[X, (2, 4)],
                    allow_None=[X, True]),
        'small': dict(default=[X, (1, 5), (5, 1)], step=[X, 1, -1], allow_None=[X, True]),
        'tiny': dict(step=[X, 1, -1], allow_None=[X, True]),
    },
    'DRG': {
        'full': dict(default=[X, (D1, D5), (D3, D3), None], step=[X, 1, -1], bounds=[X, (D2, D4)],
                     softbounds=[X, (D0, D3)], allow_None=[X, True]),
        'mid': dict(default=[X, (D1, D5), (D3, D3), None], step=[X, 1, -1], allow_None=[X, True]),
        'small': dict(default=[X, (D1, D5), (D3, D3)], step=[X, -1]),
        'tiny': dict(step=[X, -1], allow_None=[X, True]),
    },
}
# explicitly written flags: full product per declaring class (block `flags`)
FLAG3 = dict(readonly=[X, False, True], constant=[X, False, True], instantiate=[X, False, True])
FLAGMID = [(), (('readonly', False),), (('readonly', True),), (('constant', False),), (('constant', True),),
           (('instantiate', False),), (('instantiate', True),), (('readonly', False), ('constant', False))]
PERI = {   # peripheral (non-validated / independent) attributes: value 1, value 2
    'doc': ('d1', None), 'label': ('L1', 'L2'), 'precedence': (1, -2), 'constant': (True, False),
    'instantiate': (True, False), 'step': (1, 2),
}
SET1 = {'NUM': dict(default=5, bounds=(0, 10), inclusive_bounds=(True, True), step=1),
        'STR': dict(default='abc', regex=R1),
        'SEL': dict(default=1, objects={'a': 1, 'b': 2}),
        'TUP': dict(default=(1, 2), length=2),
        'RNG': dict(default=(1, 5), bounds=(0, 10), inclusive_bounds=(True, True), step=1, softbounds=(0, 8)),
        'DRG': dict(default=(D1, D5), bounds=(D0, D9), inclusive_bounds=(True, True), step=1, softbounds=(D0, D5))}
SET2 = {'NUM': dict(default=15, bounds=(6, 20), inclusive_bounds=(False, False), step=2),
        'STR': dict(default='xyz', regex=R2),
        'SEL': dict(default=3, objects=[2, 3]),
        'TUP': dict(default=(1, 2, 3), length=3),
        'RNG': dict(default=(9, 7), bounds=(6, 20), inclusive_bounds=(False, False), step=-1, softbounds=(2, 4)),
        'DRG': dict(default=(D3, D3), bounds=(D2, D4), inclusive_bounds=(False, False), step=-1, softbounds=(D2, D4))}
COMMON1 = dict(allow_None=True, instantiate=True, constant=True, doc='d1', label='L1', precedence=1)
COMMON2 = dict(allow_None=False, instantiate=False, constant=False, doc='d2', label='L2', precedence=2)

_pool_cache = {}


def pool(fam, size):
    k = (fam, size)
    if k not in _pool_cache:
        if size == 'flags':        # explicit flags, every type of the family
            _pool_cache[k] = _product_pool(FAMILY_TYPES[fam], FLAG3)
        elif size == 'flagsg':     # explicit flags, the general type of the family
            _pool_cache[k] = _product_pool(FAMILY_TYPES[fam][:1], FLAG3)
        elif size == 'flagmid':
            _pool_cache[k] = [d for d in ((t, sp) for t in FAMILY_TYPES[fam][:1] for sp in FLAGMID)
                              if constructible(d)]
        else:
            _pool_cache[k] = _product_pool(FAMILY_TYPES[fam], DOMAINS[fam][size])
    return _pool_cache[k]



def with_peri(decl, salt):
    """Add hashed peripheral attributes to a declaration (deterministic in ``salt``)."""
    if decl is None:
        return None
    tname, spec = decl
    h = zlib.crc32(salt.encode())
    h2 = zlib.crc32((salt + '#').encode())
    extra = []
    for i, a in enumerate(['doc', 'label', 'precedence', 'constant', 'instantiate', 'step']):
        if a == 'step' and FAMILY_OF[tname] != 'NUM':
            continue
        r = (h >> (2 * i)) & 3
        if r >= 2 and (h2 >> i) & 1:
            extra.append((a, PERI[a][r - 2]))
    d = dict(spec)
    d.update(extra)
    nd = (tname, tuple((a, d[a]) for a in ATTR_ORDER if a in d))
    return nd


PERI2 = {   # explicitly written flags of the blocks `flags`: (type default written out, the other value)
    'allow_None': (False, True), 'per_instance': (True, False), 'pickle_default_value': (True, False),
    'allow_refs': (False, True), 'nested_refs': (False, True), 'doc': (None, 'd1'), 'precedence': (None, 1),
}


def with_peri2(decl, salt):
    """Hashed extra flags for the `flags` blocks: each of PERI2 is left unspecified (1/2), written
    with its type default (1/4) or with the other value (1/4).  Never touches readonly / constant /
    instantiate / default (the core of those blocks)."""
    if decl is None:
        return None
    tname, spec = decl
    h = zlib.crc32(('p2|' + salt).encode())
    d = dict(spec)
    if (h >> 20) & 3 == 0:
        dv = SET1[FAMILY_OF[tname]]['default']
        d['default'] = [dv] if tname == 'ListSelector' else dv
        if tname in ('Selector', 'ListSelector'):
            d['objects'] = SET1['SEL']['objects']
    for i, a in enumerate(sorted(PERI2)):
        r = (h >> (2 * i)) & 3
        if r >= 2:
            if a == 'allow_None' and FAMILY_OF[tname] == 'SEL' and r == 2:
                continue            # Selector: allow_None=False next to a None default is C01's business
            d[a] = PERI2[a][r - 2]
    return (tname, tuple((a, d[a]) for a in ATTR_ORDER if a in d))


# one block = (family, shape, pool sizes per position, allow skip per position)
def blocks(tier, seed=0):
    q = tier != 'thorough'
    out = []
    for fam in OLD_FAMILIES:
        out.append((fam, 'chain2', ('mid', 'full') if q else ('full', 'full')))
        out.append((fam, 'chain3', ('small', 'small', 'mid') if q else ('small', 'mid', 'full')))
        out.append((fam, 'diamond', ('small',) * 4 if q else ('small', 'small', 'small', 'mid')))
        if not q:
            out.append((fam, 'chain4', ('small', 'small', 'small', 'mid')))
            out.append((fam, 'diamond_tail', ('small', 'small', 'small', 'small', 'small')))
    # ranges: the validity of the inherited default depends on step (sign), bounds, allow_None
    for fam in ('RNG', 'DRG'):
        rng = fam == 'RNG'
        out.append((fam, 'chain2', ('mid', 'full') if q or not rng else ('full', 'full')))
        out.append((fam, 'chain3', ('small', 'small', 'mid' if rng else 'small') if q
                    else ('small', 'small' if rng else 'mid', 'full' if rng else 'mid')))
        out.append((fam, 'diamond', ('small', 'tiny', 'tiny', 'small') if q else ('small', 'tiny', 'small', 'mid')))
        if not q and rng:
            out.append((fam, 'chain4', ('small', 'tiny', 'small', 'mid')))
            out.append((fam, 'diamond_tail', ('small', 'tiny', 'tiny', 'small', 'small')))
    # explicitly written flags (type defaults included) next to unspecified related attributes
    for k, fam in enumerate(FAMILIES):
        out.append((fam, 'chain2', ('flagsg', 'flags') if q else ('flags', 'flags')))
        if not q or (k + seed) % 6 == 0:
            out.append((fam, 'chain3', ('flagsg', 'flagmid', 'flagsg' if q else 'flags')))
        if not q or (k + seed) % 6 == 4:
            out.append((fam, 'diamond', ('flagmid', 'flagmid', 'flagmid', 'flagsg')))
        if not q and (k + seed) % 2 == 0:
            out.append((fam, 'diamond', ('flagsg', 'flagmid', 'flagmid', 'flagmid')))
        if not q and (k + seed) % 2 == 1:
            out.append((fam, 'chain4', ('flagmid', 'flagsg', 'flagmid', 'flagsg')))
        if not q and (k + seed) % 6 == 0:
            out.append((fam, 'diamond_tail', ('flagmid', 'flagmid', 'flagmid', 'flagmid', 'flagsg')))
    return out


def bound_text(tier, seed):
    sizes = {(f, z): len(pool(f, z)) for f in DOMAINS
             for z in ('full', 'mid', 'small', 'tiny', 'flags', 'flagsg', 'flagmid') if z != 'tiny' or z in DOMAINS[f]}
    parts = []
    for fam, shape, szs in blocks(tier, seed):
        parts.append('%s/%s[%s]' % (fam, shape, 'x'.join('%s:%d' % (z, sizes[(fam, z)]) for z in szs)))
    thorough = tier == 'thorough'
    return ('%s: every combination of the per-class declaration pools (core attributes: full product of the '
            'value lattices in DOMAINS, middle classes may also skip; peripheral attributes doc/label/'
            'precedence/constant/instantiate/step hashed from (seed, path)) for the blocks %s%s%s; chain2 with %s '
            'subsets of ALL attributes at the child x parent {specifies all, nothing} x {equal, conflicting values} '
            'x all type pairs of the family; %d seeded random hierarchies per family (half of that for RNG/DRG) over chain3/chain4/diamond/diamond_tail '
            'from the full pools (RNG/DRG and flags blocks: class statement / add_parameter 2:1); block solo: %s (root x attribute x value x shape) combinations of one attribute '
            'overridden alone (values equal / conflicting / explicit type default; roots all / core+allow_None / core; '
            'chain2, chain3, diamond, diamond_tail with skipping or redeclaring middle classes; class statement / '
            'add_parameter alternating); creation route of the tested class hashed over class statement / '
            'add_parameter / setattr'
            % (tier, ', '.join(parts),
               (' (flags blocks: peripheral flags allow_None/per_instance/pickle_default_value/allow_refs/nested_refs/'
                'doc/precedence/default hashed; deep flags shapes for the families selected by the seed, half of the '
                'flagmid roots)') if thorough else
               ' (diamond, flags/chain2, DRG/chain2: the half of the root declarations selected by the seed; flags chain3/diamond: half of those again; DRG subsets: two of the four type pairs)',
               ' (diamond_tail: the third of the root declarations selected by the seed)' if thorough else '',
               'all 2^n' if thorough else 'the size <= 2, size >= n-1 and a hashed 1/8 of the', 25000 if thorough else 3000,
               'all' if thorough else 'a hashed sixth of the'))


ROUTES = (('class', 'class', 'class', 'addp', 'class', 'setattr', 'class') if INCLUDE_SETATTR_ROUTE
          else ('class', 'class', 'class', 'addp', 'class', 'addp', 'class'))


class Result:
    def __init__(self):
        self.cases = 0
        self.nontrivial = 0
        self.skipped = 0
        self.cnt = Counter()
        self.fail = []          # (clause, shape, decls, route, detail)
        self.failcount = {}
        self.samples = []
        self.keys = set()

    def add_fail(self, clause, shape, decls, route, detail, cap=12):
        self.failcount[clause] = self.failcount.get(clause, 0) + 1
        if sum(1 for f in self.fail if f[0] == clause) < cap:
            self.fail.append((clause, shape, tuple(decls), route, detail))


def dfs_block(block, root_index, seed, res, root_stride=1):
    """All hierarchies of the block whose root declaration is pool[root_index]; ancestors are
    created once and shared by the cases below them (creating a subclass does not modify them)."""
    fam, shape, sizes = block
    param = _P()
    sh = SHAPES[shape]
    n = len(sh)
    peri = with_peri2 if sizes[0].startswith('flag') else with_peri
    # the added blocks alternate the two routes the statement names (the setattr route stops at its
    # known name-unbound finding and would waste the case)
    routes = ROUTES if (fam in OLD_FAMILIES and peri is with_peri) else ('class', 'addp', 'class')
    pools = []
    for i, sz in enumerate(sizes):
        pl = list(pool(fam, sz))
        if 0 < i < n - 1:
            pl = [None] + pl
        pools.append(pl)

    def rec(i, classes, merged, dby, decls, path):
        cname, bases = sh[i]
        rbases = tuple(classes[b] for b in bases) or (param.Parameterized,)
        last = i == n - 1
        cands = [pools[0][root_index]] if i == 0 else pools[i]
        for j, d0 in enumerate(cands):
            key = path + '/%d' % (root_index if i == 0 else j)
            d = peri(d0, '%d|%s|%s|%s' % (seed, fam, shape, key))
            route = 'class'
            if last:
                route = routes[zlib.crc32(('r' + key).encode()) % len(routes)]
            cls, pobj, exc = create(cname, rbases, d, route)
            nd = decls + (d,)
            if d is None:
                classes[cname] = cls
                dby[cname] = None
                rec(i + 1, classes, merged, dby, nd, key)
                del classes[cname]
                continue
            dby[cname] = d
            anc = anc_of(shape, cname, dby, merged)
            vios, m = check_class(cls, pobj, exc, d, anc, route, res.cnt)
            if last:
                res.cases += 1
                if anc:
                    res.nontrivial += 1
                if len(res.samples) < 2 and anc and (j % 7 == 3):
                    res.samples.append({'key': case_key(shape, nd, route), 'raised': exc is not None})
            full = nd
            for cl, det in vios:
                # report on the prefix hierarchy that ends at this class
                if last:
                    res.add_fail(cl, shape, full, route, det)
                else:
                    pshape, pdecls = _prefix(shape, nd)
                    res.add_fail(cl, pshape, pdecls, route, det)
            if exc is None and not last:
                classes[cname] = cls
                merged[cname] = m
                rec(i + 1, classes, merged, dby, nd, key)
                del classes[cname]
                del merged[cname]
            elif exc is not None and not last:
                res.skipped += 1
            del dby[cname]

    rec(0, {}, {}, {}, (), '')


def _prefix(shape, nd):
    """The smallest hierarchy containing the classes created so far and ending at the last one."""
    k = len(nd)
    if shape.startswith('chain'):
        return 'chain%d' % k, nd
    if k == 1:
        return 'chain1', nd
    if k == 2:
        return 'chain2', nd
    if k == 3:
        return 'chain2', (nd[0], nd[2])
    if k == 4:
        return 'diamond', nd
    return shape, nd


def subset_block(fam, tier, seed, res, part, nparts):
    """chain2: every subset of the family's constructor attributes specified by the child, with
    values equal to / conflicting with a parent that specifies everything or nothing."""
    core1, core2 = SET1[fam], SET2[fam]
    all1 = dict(core1, **COMMON1)
    all2 = dict(core2, **COMMON2)
    attrs = [a for a in ATTR_ORDER if a in all1 and not (a == 'step' and fam not in HAS_ATTR['step'])]
    types = FAMILY_TYPES[fam]
    idx = 0
    for ptype, ctype in itertools.product(types, repeat=2):
        if fam == 'DRG' and tier != 'thorough' and (types.index(ptype) + types.index(ctype) + seed) % 2:
            continue        # quick: the two type pairs selected by the seed
        for pmode in ('all1', 'none'):
            pspec = tuple((a, all1[a]) for a in attrs if not (a == 'regex' and ptype != 'String')) if pmode == 'all1' else ()
            pdecl = (ptype, pspec)
            if fam == 'SEL' and ptype == 'ListSelector' and pmode == 'all1':
                pdecl = (ptype, tuple((a, ([1] if a == 'default' else v)) for a, v in pspec))
            if not constructible(pdecl):
                continue
            for mask in range(1 << len(attrs)):
                sub = [a for b, a in enumerate(attrs) if mask >> b & 1]
                if tier != 'thorough' and not (len(sub) <= 2 or len(sub) >= len(attrs) - 1
                                            or zlib.crc32(b'%d|%d' % (seed, mask)) % 8 == 0):
                    continue
                for vals in (all1, all2):
                    idx += 1
                    if idx % nparts != part:
                        continue
                    spec = []
                    for a in sub:
                        if a == 'regex' and ctype != 'String':
                            continue
                        v = vals[a]
                        if a == 'default' and ctype == 'ListSelector':
                            v = [v]
                        spec.append((a, v))
                    cdecl = (ctype, tuple(spec))
                    if not constructible(cdecl):
                        res.skipped += 1
                        continue
                    route = ROUTES[idx % len(ROUTES)]
                    decls = (pdecl, cdecl)
                    res.cases += 1
                    res.nontrivial += 1
                    for cl, at, det in run_case('chain2', decls, route, res.cnt):
                        res.add_fail(cl, 'chain2', decls, route, det)


COMMON1X = dict(readonly=True, per_instance=False, pickle_default_value=False, allow_refs=True, nested_refs=True)
COMMON2X = dict(readonly=False, per_instance=True, pickle_default_value=True, allow_refs=False, nested_refs=False)
SOLO_EXTRA1 = {'NUM': dict(softbounds=(0, 8))}
SOLO_EXTRA2 = {'NUM': dict(softbounds=(2, 4))}
EXPLICIT_TYPE_DEFAULT = dict(   # the documented default of the constructor argument, written out
    bounds=None, softbounds=None, inclusive_bounds=(True, True), step=None, regex=None, objects=[],
    allow_None=False, instantiate=False, constant=False, readonly=False, doc=None, label=None,
    precedence=None, per_instance=True, pickle_default_value=True, allow_refs=False, nested_refs=False)
SOLO_SHAPES = (   # (shape, position of the parent, positions of the middle classes: 'skip' | 'same' | 'doc')
    ('chain2', ()), ('chain3', ('skip',)), ('chain3', ('doc',)),
    ('diamond', ('skip', 'same')), ('diamond', ('same', 'skip')), ('diamond_tail', ('skip', 'doc', 'skip')),
)


def solo_block(fam, tier, seed, res, part, nparts):
    """Every constructor attribute of every type of the family overridden ALONE by the last class
    (value equal to the parent's / conflicting / the type default written out) under a root that
    specifies everything, the core + allow_None=True, or the core only; chains and diamonds whose
    middle classes skip the declaration, redeclare the same attribute or an unrelated one; the last
    class is created by class statement or add_parameter."""
    all1 = dict(SET1[fam], **COMMON1)
    all1.update(SOLO_EXTRA1.get(fam, {}))
    all2 = dict(SET2[fam], **COMMON2)
    all2.update(SOLO_EXTRA2.get(fam, {}))
    core1 = dict(SET1[fam])
    core1.update(SOLO_EXTRA1.get(fam, {}))
    v1 = dict(all1, **COMMON1X)
    v2 = dict(all2, **COMMON2X)
    attrs = [a for a in ATTR_ORDER if a in v1]
    types = FAMILY_TYPES[fam]
    idx = 0

    def decl(t, d):
        d = dict(d)
        if t != 'String':
            d.pop('regex', None)
        if t == 'ListSelector' and d.get('default') is not None and 'default' in d:
            d['default'] = [d['default']]
        return (t, tuple((a, d[a]) for a in ATTR_ORDER if a in d))

    for ptype, ctype in itertools.product(types, repeat=2):
        for pmode, pd in (('all', all1), ('coreAN', dict(core1, allow_None=True)), ('core', core1)):
            pdecl = decl(ptype, pd)
            if not constructible(pdecl):
                continue
            for a in attrs:
                if a == 'regex' and ctype != 'String':
                    continue
                vals = [v1[a], v2[a]]
                if a == 'default':
                    vals.append(TYPE_DEFAULTS[ctype]['default'])
                elif a in EXPLICIT_TYPE_DEFAULT:
                    vals.append(EXPLICIT_TYPE_DEFAULT[a])
                for vi, v in enumerate(vals):
                    cdecl = decl(ctype, {a: v})
                    if not constructible(cdecl):
                        res.skipped += 1
                        continue
                    other = vals[1] if vi != 1 else vals[0]
                    for shape, mids in SOLO_SHAPES:
                        idx += 1
                        if idx % nparts != part:
                            continue
                        if tier != 'thorough' and zlib.crc32(b'solo|%d|%d' % (seed, idx)) % 6 != 0:
                            continue
                        ds = [pdecl]
                        for mk in mids:
                            if mk == 'skip':
                                ds.append(None)
                            elif mk == 'doc':
                                ds.append(decl(ptype, {'doc': 'm'}))
                            else:
                                ds.append(decl(ptype, {a: other}))
                        ds.append(cdecl)
                        decls = tuple(ds)
                        if not all(d is None or constructible(d) for d in decls):
                            res.skipped += 1
                            continue
                        route = ('class', 'addp')[idx % 2]
                        res.cases += 1
                        res.nontrivial += 1
                        if len(res.samples) < 1 and idx % 97 == 5:
                            res.samples.append({'key': case_key(shape, decls, route)})
                        for cl, at, det in run_case(shape, decls, route, res.cnt):
                            res.add_fail(cl, shape, decls, route, det)


def random_block(fam, tier, seed, res, part, nparts, total):
    """Seeded sample of the full product: any shape x full pool (+skip) x hashed peripherals."""
    import random
    rnd = random.Random('%d|%s|%d' % (seed, fam, part))
    pl = pool(fam, 'full')
    shapes = ['chain3', 'chain4', 'diamond', 'diamond_tail']
    for k in range(total // nparts):
        shape = shapes[rnd.randrange(len(shapes))]
        n = len(SHAPES[shape])
        decls = []
        for i in range(n):
            if 0 < i < n - 1 and rnd.random() < 0.25:
                decls.append(None)
            else:
                decls.append(with_peri(pl[rnd.randrange(len(pl))], '%d|%d|%d|%d' % (seed, part, k, i)))
        route = ROUTES[rnd.randrange(len(ROUTES))]
        decls = tuple(decls)
        key = zlib.crc32(case_key(shape, decls, route).encode()) ^ (zlib.adler32(repr(decls).encode()) << 32)
        if key in res.keys:
            continue
        res.keys.add(key)
        res.cases += 1
        try:
            vs = run_case(shape, decls, route, res.cnt)
        except Exception as e:      # pragma: no cover - harness error
            res.add_fail('C11/harness/error', shape, decls, route, repr(e))
            continue
        for cl, at, det in vs:
            res.add_fail(cl, shape, decls, route, det)


def _work(task):
    kind = task[0]
    _P()
    res = Result()
    if kind == 'dfs':
        _, block, roots, seed = task
        for r in roots:
            dfs_block(block, r, seed, res)
    elif kind == 'subset':
        _, fam, tier, seed, part, nparts = task
        subset_block(fam, tier, seed, res, part, nparts)
    elif kind == 'solo':
        _, fam, tier, seed, part, nparts = task
        solo_block(fam, tier, seed, res, part, nparts)
    elif kind == 'routes':
        from bounded import c11_routes
        _, fam, tier, seed, part, nparts = task
        c11_routes.block(fam, tier, seed, res, part, nparts)
    else:
        _, fam, tier, seed, part, nparts, total = task
        random_block(fam, tier, seed, res, part, nparts, total)
    return (task[0], res.cases, res.nontrivial, res.skipped, res.cnt.checked, res.fail, res.failcount,
            res.samples, res.keys)


def make_tasks(tier, seed):
    tasks = []
    for block in blocks(tier, seed):
        fam, shape, sizes = block
        nroot = len(pool(fam, sizes[0]))
        per = 1 if shape != 'chain2' else 4
        for r in range(0, nroot, per):
            roots = list(range(r, min(nroot, r + per)))
            if tier != 'thorough' and shape == 'diamond':
                roots = [x for x in roots if (x + seed) % 2 == 0]   # half of the roots, chosen by seed
            if tier != 'thorough' and shape == 'chain2' and (sizes[0].startswith('flag') or fam == 'DRG'):
                roots = [x for x in roots if (x + seed) % 2 == 0]   # quick: half of the roots
            if sizes[0].startswith('flag') and shape not in ('chain2', 'diamond_tail') and (
                    tier != 'thorough' or sizes[0] == 'flagmid'):
                roots = [x for x in roots if (x // 2 + seed) % 2 == 0]   # flags blocks: half of the roots
            if shape == 'diamond_tail':
                roots = [x for x in roots if (x + seed) % 3 == 0]   # a third of the roots, chosen by seed
            if roots:
                tasks.append(('dfs', block, roots, seed))
    nparts = 16 if tier == 'thorough' else 4
    for fam in FAMILIES:
        for p in range(nparts):
            tasks.append(('subset', fam, tier, seed, p, nparts))
    for fam in FAMILIES:
        for p in range(nparts):
            tasks.append(('solo', fam, tier, seed, p, nparts))
    total = 25000 if tier == 'thorough' else 3000
    rparts = 64 if tier == 'thorough' else 8
    for fam in FAMILIES:
        for p in range(rparts):
            tasks.append(('random', fam, tier, seed, p, rparts,
                          total if fam in OLD_FAMILIES else total // 2))
    from bounded import c11_routes
    tasks.extend(c11_routes.tasks(tier, seed))      # every creation route x declarations without default
    return tasks


def _routes_bound(tier, seed):
    from bounded import c11_routes
    return c11_routes.bound_text(tier, seed)


def _run(tier, seed):
    _P()
    B = Bounded(
        'C11',
        rule='one case = one hierarchy of fresh Parameterized classes (chain2/3/4, diamond, diamond+tail; '
             'middle classes may skip the declaration) with, per declaring class, a Parameter type of one '
             'family (Number/Integer, Parameter/String, Selector/ListSelector, Tuple/NumericTuple, Range, '
             'DateRange/CalendarDateRange) and a '
             'subset of {default,bounds,softbounds,inclusive_bounds,step,regex,objects,length,check_on_set,allow_None,'
             'instantiate,constant,readonly,per_instance,pickle_default_value,allow_refs,nested_refs,doc,label,'
             'precedence} with conflicting / non-conflicting / explicitly-the-type-default values; last '
             'class created by class statement, add_parameter or setattr(cls, name, Parameter); every class '
             'of the hierarchy is compared slot by slot with an independent resolver and "raised" with '
             'valid(merged).  Distinct = distinct (shape, route, declarations); non-trivial = the tested '
             'class declares and some class of its MRO declares too.  Declarations that are not '
             'individually constructible are out of scope.',
        bound=bound_text(tier, seed) + '; ' + _routes_bound(tier, seed))
    B.exhaustive = False
    tasks = make_tasks(tier, seed)
    if tier == 'smoke':            # development aid (mutation checks): a fifth of the quick tasks
        tasks = tasks[::5]
    # big tasks first for balance
    order = sorted(range(len(tasks)), key=lambda i: (0 if tasks[i][0] == 'dfs' else 1, i))
    ctx = mp.get_context('fork')
    with ctx.Pool(16) as pl:
        results = pl.map(_work, [tasks[i] for i in order], chunksize=1)
    fails, failcount = [], {}
    extra_distinct = 0
    for kind, cases, nontrivial, skipped, checked, fail, fc, samples, keys in results:
        B.evaluations += cases
        if kind == 'random':
            B._distinct.update(keys)
        else:
            extra_distinct += nontrivial
        for c, n in checked.items():
            B.checked(c, n)
        fails.extend(fail)
        for c, n in fc.items():
            failcount[c] = failcount.get(c, 0) + n
        for s in samples:
            B.sample(s)
    # minimise, canonicalise, dedupe
    fails.sort(key=lambda f: (f[0], sum(len(d[1]) for d in f[2] if d), len(f[2]), case_key(f[1], f[2], f[3])))
    seen = {}
    budget = {}
    for clause, shape, decls, route, detail in fails:
        if clause == 'C11/harness/error':
            B.violation(clause, case_key(shape, decls, route), detail)
            continue
        fam = next(FAMILY_OF[d[0]] for d in decls if d is not None)
        pre = (clause, fam, route)
        budget[pre] = budget.get(pre, 0) + 1
        if budget[pre] > 3:
            continue
        try:
            s2, d2, r2, at = shrink(shape, decls, route, clause)
        except Exception as e:
            B.note('shrink failed for %s %s: %r' % (clause, case_key(shape, decls, route), e))
            continue
        w = witness_text(s2, d2, r2, clause, at)
        wk = witness_class(clause, s2, d2, r2)
        if (clause, wk) in seen:
            seen[(clause, wk)]['count'] += 1
            continue
        det = next((d for cl, a, d in run_case(s2, d2, r2) if cl == clause), detail)
        B.violation(clause, w, det, replay_script(s2, d2, r2, clause, at, w))
        seen[(clause, wk)] = B.violations[-1]
    for c, n in sorted(failcount.items()):
        B.note('failing class checks for %s: %d (minimised to the witnesses above)' % (c, n))
    res = B.result()
    res['distinct_nontrivial'] += extra_distinct
    return res


def run(tier, seed):
    """Entry point of the layer (tiers: quick, thorough; 'smoke' is a development aid used for the
    mutation checks).  Warning filters and param's logger level are restored afterwards."""
    saved = (warnings.filters[:], logging.getLogger('param').level)
    try:
        return _run(tier, seed)
    finally:
        warnings.filters[:] = saved[0]
        logging.getLogger('param').setLevel(saved[1])
